"""
C07 — comparisons, effective boolean value and logic.

 prove     : EPV.Props.C07 (+ the driver's modules)
 correspond: the same (mode, operator, operand sequences) through
               * the real elementpath (variables bound to Python atoms / element nodes), and
               * the Lean driver (model = transcription of the code, spec = W3C reading, trig = finding triggers)
             request line == case (replayable from the line alone)
 search    : exhaustive singleton matrix (every value of the pools x every value x 6 ops x 2 families x modes)
"""
from __future__ import annotations

import math
import struct
import sys
import datetime as pydt
from decimal import Decimal
from fractions import Fraction
from itertools import product as iproduct
from pathlib import Path

sys.path.insert(0, str(Path(__file__).resolve().parent.parent))
from harness.common import (Run, Disagreement, cli, DriverError)  # noqa: E402

PROP = 'C07'
MODES = ['v1', 'v2c', 'v2', 'v31']
OPS = ['eq', 'ne', 'lt', 'le', 'gt', 'ge']
GSYM = {'eq': '=', 'ne': '!=', 'lt': '<', 'le': '<=', 'gt': '>', 'ge': '>='}
TYPES = ['i', 'd', 'f', 'g', 's', 'u', 'b', 'a', 'q', 'D', 'T', 't', 'P', 'Y', 'S', 'x', 'y']
TYPE_NAMES = {'i': 'integer', 'd': 'decimal', 'f': 'double', 'g': 'float', 's': 'string', 'u': 'untypedAtomic',
              'b': 'boolean', 'a': 'anyURI', 'q': 'QName', 'D': 'date', 'T': 'dateTime', 't': 'time',
              'P': 'duration', 'Y': 'yearMonthDuration', 'S': 'dayTimeDuration', 'x': 'hexBinary',
              'y': 'base64Binary', 'n': 'node'}


# ------------------------------------------------------------------------------ encoding
def f32(x: float) -> float:
    return struct.unpack('f', struct.pack('f', x))[0]


def enc_cps(s: str) -> str:
    return ','.join(str(ord(c)) for c in s)


def enc_D(x: float) -> str:
    if math.isnan(x):
        return 'NaN'
    if math.isinf(x):
        return 'INF' if x > 0 else '-INF'
    if x == 0 and math.copysign(1.0, x) < 0:
        return '-0'
    fr = Fraction(x)
    return f'{fr.numerator}/{fr.denominator}'


def days_from_civil(y: int, m: int, d: int) -> int:
    """days since 0001-01-01 of the proleptic Gregorian date with *astronomical* year y (0 = 1 BCE);
    the harness' own arithmetic (H. Hinnant's algorithm), independent of elementpath and of datetime"""
    y -= m <= 2
    era = (y if y >= 0 else y - 399) // 400
    yoe = y - era * 400
    doy = (153 * (m + (-3 if m > 2 else 9)) + 2) // 5 + d - 1
    doe = yoe * 365 + yoe // 4 - yoe // 100 + doy
    return era * 146097 + doe - 719468 + 719162      # 719162 = days from 0001-01-01 to 1970-01-01


def dt_seconds(y, mo, d, h=0, mi=0, s=0) -> int:
    t = days_from_civil(y, mo, d) * 86400 + h * 3600 + mi * 60 + s
    if 1 <= y <= 9999:
        assert t == int((pydt.datetime(y, mo, d, h, mi, s) - pydt.datetime(1, 1, 1)).total_seconds())
    return t


def dt_class(it) -> str:
    """concrete Python class of a date / dateTime item: '10' (Date10 / DateTime10), '11' (Date / DateTime)
    or 'st' (DateTimeStamp, needs a timezone); explicit 4th field, else chosen from the content"""
    if len(it) > 3:
        return it[3]
    tz = it[2] if len(it) > 2 else None
    k = sum(it[1]) % (3 if it[0] == 'T' else 2)
    return ['10', '11', 'st' if tz is not None else '11'][k]


def year_lex(y: int, cls: str) -> str:
    """lexical year of the astronomical year y: XSD 1.0 has no year 0000 (-0001 is 1 BCE), XSD 1.1 has"""
    if cls == '10' and y <= 0:
        y -= 1
    return ('-' if y < 0 else '') + '%04d' % abs(y)


def tz_lex(tz) -> str:
    if tz is None:
        return ''
    return ('-' if tz < 0 else '+') + '%02d:%02d' % divmod(abs(tz), 60)


def enc_item(it) -> str:
    t = it[0]
    if t in 'nsua':
        return f'{t}:{enc_cps(it[1])}'
    if t == 'i':
        return f'i:{it[1]}'
    if t == 'd':
        fr = Fraction(Decimal(it[1]))
        return f'd:{fr.numerator}/{fr.denominator}'
    if t in 'fg':
        return f'{t}:{enc_D(it[1])}'
    if t == 'b':
        return f'b:{1 if it[1] else 0}'
    if t == 'q':
        return f'q:{enc_cps(it[1])}/{enc_cps(it[2])}/{enc_cps(it[3])}'
    if t in 'DTt':
        tz = it[2] if len(it) > 2 else None
        tzs = '_' if tz is None else str(tz)
        if t == 't':
            return f't:{dt_seconds(2000, 1, 1, *it[1])}/{tzs}'
        return f'{t}:{dt_seconds(*it[1])}/{tzs}'
    if t == 'P':
        return f'P:{it[1]}/{it[2]}'
    if t in 'YS':
        return f'{t}:{it[1]}'
    if t in 'xy':
        return f'{t}:{",".join(str(b) for b in it[1])}'
    raise ValueError(it)


def enc_seq(seq) -> str:
    return ';'.join(enc_item(i) for i in seq) if seq else '_'


def line_of(case) -> str:
    k = case['k']
    if k in ('G', 'V'):
        z = case.get('z')
        return (f"k={k} m={case['m']} op={case['op']} l={enc_seq(case['l'])} r={enc_seq(case['r'])}"
                + ('' if z is None else f' z={z}') + (' c=ci' if case.get('c') == 'ci' else ''))
    if k == 'B':
        return f"k=B m={case['m']} f={case['f']} l={enc_seq(case['l'])}"
    if k == 'L':
        return f"k=L m={case['m']} f={case['f']} l={enc_seq(case['l'])} r={enc_seq(case['r'])}"
    raise ValueError(case)


def case_json(case) -> dict:
    """replayable, human-readable form of a case"""
    def item(it):
        t = it[0]
        v = it[1:]
        if t in 'fg':
            v = (float(it[1]).hex() if not math.isnan(it[1]) else 'nan',)
        if t in 'xy':
            v = (bytes(it[1]).hex(),)
        if t in 'DT':
            v = (it[1], it[2] if len(it) > 2 else None, 'class=' + dt_class(it))
        return [TYPE_NAMES[t], *[list(x) if isinstance(x, tuple) else x for x in v]]
    out = {'line': line_of(case), 'expr': expr_of(case), 'mode': case['m'],
           'l': [item(i) for i in case['l']]}
    if case.get('c') == 'ci':
        out['default_collation'] = CI_COLLATION
    if 'r' in case:
        out['r'] = [item(i) for i in case['r']]
    return out


# --------------------------------------------------------------------------- real code
_parsers: dict = {}
_tokens: dict = {}


def get_token(mode: str, expr: str):
    key = (mode, expr)
    tok = _tokens.get(key)
    if tok is None:
        if mode not in _parsers:
            from elementpath import XPath1Parser, XPath2Parser
            from elementpath.xpath31 import XPath31Parser
            ci = {'default_collation': CI_COLLATION}
            _parsers[mode] = {'v1': lambda: XPath1Parser(), 'v2c': lambda: XPath2Parser(compatibility_mode=True),
                              'v2': lambda: XPath2Parser(), 'v31': lambda: XPath31Parser(),
                              'v2c+ci': lambda: XPath2Parser(compatibility_mode=True, **ci),
                              'v2+ci': lambda: XPath2Parser(**ci), 'v31+ci': lambda: XPath31Parser(**ci)}[mode]()
        tok = _tokens[key] = _parsers[mode].parse(expr)
    return tok


CI_COLLATION = 'http://www.w3.org/2005/xpath-functions/collation/html-ascii-case-insensitive'


def pmode(case) -> str:
    """the parser of a case: its mode, plus '+ci' when the parser is built with the case-insensitive default collation"""
    return case['m'] + ('+ci' if case.get('c') == 'ci' else '')


def expr_of(case) -> str:
    k = case['k']
    if k == 'G':
        return f"$a {GSYM[case['op']]} $b"
    if k == 'V':
        return f"$a {case['op']} $b"
    if k == 'B':
        return {'boolean': 'boolean($a)', 'not': 'not($a)', 'if': 'if ($a) then 1 else 0',
                'blist': 'true()'}[case['f']]
    if k == 'L':
        return f"$a {case['f']} $b"
    raise ValueError(case)


def build_values(case):
    """Python objects for the two operands; nodes are children of a freshly built document"""
    import xml.etree.ElementTree as ET
    from elementpath import XPathContext
    from elementpath import datatypes as dt
    texts = [it[1] for key in ('l', 'r') if key in case for it in case[key] if it[0] == 'n']
    # the document: ElementTree element / ElementTree document / lxml element / lxml document (by content)
    rv = (sum(len(t) for t in texts) + len(texts)) % 4 if texts else 0
    if rv >= 2:
        import lxml.etree as ET2
        root = ET2.Element('r')
        for tx in texts:
            e = ET2.SubElement(root, 'a')
            e.text = tx
        if rv == 3:
            root = ET2.ElementTree(root)
    else:
        root = ET.Element('r')
        for tx in texts:
            e = ET.SubElement(root, 'a')
            e.text = tx
        if rv == 1:
            root = ET.ElementTree(root)
    ctx0 = XPathContext(root=root)
    top = ctx0.root if getattr(ctx0.root, 'name', None) == 'r' else \
        [c for c in ctx0.root.children if getattr(c, 'name', None) == 'r'][0]
    nodes = list(top.children)
    ordered = case['m'] == 'v31'
    k = [0]

    def obj(it):
        t = it[0]
        if t == 'n':
            k[0] += 1
            return nodes[k[0] - 1]
        if t == 'i':
            v = it[1]       # every third small value as a derived integer type (xs:int / xs:nonNegativeInteger)
            if v % 3 == 0 and -2 ** 31 <= v < 2 ** 31:
                return dt.Int(v) if v % 2 else (dt.NonNegativeInteger(v) if v >= 0 else dt.Integer(v))
            return v
        if t == 'd':
            return Decimal(it[1])
        if t == 'f':
            return float(it[1])
        if t == 'g':
            return dt.Float(it[1])
        if t == 's':
            return it[1]
        if t == 'u':
            return dt.UntypedAtomic(it[1])
        if t == 'b':
            return bool(it[1])
        if t == 'a':
            return dt.AnyURI(it[1])
        if t == 'q':
            return dt.QName(it[1], (it[2] + ':' + it[3]) if it[2] else it[3])
        if t in 'DTt':
            tz = it[2] if len(it) > 2 else None
            v = it[1]
            if t == 't':
                return dt.Time.fromstring('%02d:%02d:%02d' % tuple(v) + tz_lex(tz))
            cls = dt_class(it)
            if t == 'D':
                return {'10': dt.Date10, '11': dt.Date}[cls].fromstring(
                    year_lex(v[0], cls) + '-%02d-%02d' % tuple(v[1:]) + tz_lex(tz))
            return {'10': dt.DateTime10, '11': dt.DateTime, 'st': dt.DateTimeStamp}[cls].fromstring(
                year_lex(v[0], cls) + '-%02d-%02dT%02d:%02d:%02d' % tuple(v[1:]) + tz_lex(tz))
        if t == 'P':
            return dt.Duration(months=it[1], seconds=it[2])
        if t == 'Y':
            return dt.YearMonthDuration(months=it[1])
        if t == 'S':
            return dt.DayTimeDuration(seconds=it[1])
        if t == 'x':
            return dt.HexBinary(bytes(it[1]).hex().encode('ascii'), ordered)
        if t == 'y':
            import base64
            return dt.Base64Binary(base64.b64encode(bytes(it[1])), ordered)
        raise ValueError(it)

    out = {}
    for key, var in (('l', 'a'), ('r', 'b')):
        if key in case:
            vals = [obj(it) for it in case[key]]
            out[var] = vals
    return root, out


def canon_result(r) -> str:
    if r is True:
        return 'T'
    if r is False:
        return 'F'
    if isinstance(r, list):
        if not r:
            return 'EMPTY'
        if len(r) == 1:
            return canon_result(r[0])
        return '?list:' + repr(r)[:60]
    if isinstance(r, int):
        return str(r)
    return '?' + repr(r)[:60]


def make_context(root, variables, z):
    """a fresh dynamic context; `z` = implicit timezone in minutes or None"""
    from elementpath import XPathContext
    from elementpath.datatypes import Timezone
    if z is None:
        return XPathContext(root=root, variables=variables)
    return XPathContext(root=root, variables=variables, timezone=Timezone(pydt.timedelta(minutes=z)))


_selectors: dict = {}
PARSER_KW = {'v1': ('XPath1Parser', {}), 'v2c': ('XPath2Parser', {'compatibility_mode': True}),
             'v2': ('XPath2Parser', {}), 'v31': ('XPath31Parser', {}),
             'v2c+ci': ('XPath2Parser', {'compatibility_mode': True, 'default_collation': CI_COLLATION}),
             'v2+ci': ('XPath2Parser', {'default_collation': CI_COLLATION}),
             'v31+ci': ('XPath31Parser', {'default_collation': CI_COLLATION})}


def parser_class(mode):
    import elementpath
    from elementpath.xpath31 import XPath31Parser
    name, kw = PARSER_KW[mode]
    return {'XPath1Parser': elementpath.XPath1Parser, 'XPath2Parser': elementpath.XPath2Parser,
            'XPath31Parser': XPath31Parser}[name], kw


def evaluate_paths(mode, expr, root, variables, z, variant):
    """the public evaluation paths: 0 token.evaluate, 1 token.select, 2 elementpath.select() (new parser),
    3 a cached Selector (same call site, different roots / variable maps / contexts), 4 Selector.iter_select"""
    import elementpath
    from elementpath.datatypes import Timezone
    tz = None if z is None else Timezone(pydt.timedelta(minutes=z))
    if variant == 0:
        return get_token(mode, expr).evaluate(make_context(root, variables, z))
    if variant == 1:
        return list(get_token(mode, expr).select(make_context(root, variables, z)))
    cls, kw = parser_class(mode)
    if variant == 2:
        return elementpath.select(root, expr, parser=cls, variables=variables, timezone=tz, **kw)
    sel = _selectors.get((mode, expr))
    if sel is None:
        sel = _selectors[(mode, expr)] = elementpath.Selector(expr, parser=cls, **kw)
    if variant == 3:
        return sel.select(root, variables=variables, timezone=tz)
    return list(sel.iter_select(root, variables=variables, timezone=tz))


def variant_of(line: str) -> int:
    return sum(line.encode()) % 5


def canon_exc(e) -> str:
    from elementpath import ElementPathError
    if isinstance(e, ElementPathError):
        return 'ERR:' + (getattr(e, 'code', None) or '?').split(':')[-1]
    return 'ERR:OTHER:' + type(e).__name__


def object_state(objs) -> list:
    """observable state of the variable values: repr, str and timezone of every object"""
    out = []
    for v in objs:
        try:
            out.append((type(v).__name__, repr(v), str(v), repr(getattr(v, 'tzinfo', None))))
        except Exception as e:  # noqa
            out.append(('?', type(e).__name__))
    return out


def run_history(hist):
    """the same Python value objects go through all steps, each under a fresh context with its own
    implicit timezone; returns per step (outcome, state-change message or None)"""
    names = sorted(hist['vals'])
    try:
        pseudo = {'k': 'B', 'm': 'v2', 'f': 'boolean', 'l': [it for n in names for it in hist['vals'][n]]}
        root, built = build_values(pseudo)
    except Exception as e:  # noqa
        return [('ERR:BUILD:' + type(e).__name__, None)] * len(hist['steps'])
    objs, k = {}, 0
    for n in names:
        objs[n] = built['a'][k:k + len(hist['vals'][n])]
        k += len(hist['vals'][n])
    flat = [o for n in names for o in objs[n]]
    state0 = object_state(flat)
    res = []
    for st in hist['steps']:
        case = {'k': st['k'], 'm': st['m'], 'op': st['op']}
        try:
            out = canon_result(evaluate_paths(st['m'], expr_of(case), root, {'a': objs[st['x']], 'b': objs[st['y']]},
                                              st.get('z'), (len(res) + len(flat) + (st.get('z') or 0)) % 5))
        except RecursionError:
            out = 'ERR:OTHER:RecursionError'
        except Exception as e:  # noqa
            out = canon_exc(e)
        state = object_state(flat)
        msg = None
        if state != state0:
            i = next(j for j in range(len(state)) if state[j] != state0[j])
            msg = f'value #{i} changed: {state0[i]} -> {state[i]}'
        res.append((out, msg))
    return res


def run_impl(case) -> str:
    from elementpath import XPathContext, ElementPathError
    try:
        root, variables = build_values(case)
    except Exception as e:  # noqa  (a constructor of the library refusing a generated value)
        return 'ERR:BUILD:' + type(e).__name__
    try:
        tok = get_token(pmode(case), expr_of(case))
        if case.get('f') == 'blist':     # the list branch of boolean_value, called directly on the token
            return canon_result(tok.boolean_value(list(variables['a'])))
        # a singleton operand is bound as a scalar or as a one-item list (deterministically by its content)
        variables = {k: (v[0] if len(v) == 1 and (len(repr(v[0])) + len(case['m'])) % 2 == 0 else v)
                     for k, v in variables.items()}
        return canon_result(evaluate_paths(pmode(case), expr_of(case), root, variables, case.get('z'),
                                           variant_of(line_of(case))))
    except ElementPathError as e:
        code = (getattr(e, 'code', None) or '?').split(':')[-1]
        return 'ERR:' + code
    except RecursionError:
        return 'ERR:OTHER:RecursionError'
    except Exception as e:  # noqa
        return 'ERR:OTHER:' + type(e).__name__


# ------------------------------------------------------------------------------- pools
POOLS = {
    'i': [0, 1, -1, 2, 3, 10, 9, 2 ** 53, 2 ** 53 + 1, 16777217, 10 ** 20, -(2 ** 53) - 1],
    'd': ['0', '1', '1.5', '-1.5', '0.1', '1.0', '2', '1.00000001', '9007199254740993', '0.10000000000000000001',
          '16777217', '10', '9', '-0.0', '3'],
    'f': [float('nan'), float('inf'), float('-inf'), 0.0, -0.0, 1.0, 1.5, 2.0, 1.00000001, 1.0000001, 1.0000002,
          0.1, 2.0 ** 53, 5e-324, 1e300, -1.0, 1.00000005, 3.0, 10.0, 9.0, 16777216.0, 1e-320, -1.00000001, 1e308,
          -1e308, 0.30000000000000004, 0.3],
    'g': [float('nan'), float('inf'), float('-inf'), 0.0, -0.0, 1.0, 1.5, 2.0, f32(1.0000001), f32(1.0000002),
          f32(0.1), 16777216.0, -1.0, 3.0, 10.0, 9.0, f32(3.4e38), f32(1.00000012), f32(1.00000024), f32(1e30), f32(1.00000036), 2 - 2 ** -23, 2 - 2 ** -22, 2 - 3 * 2 ** -23],
    's': ['', 'a', 'abc', 'abd', 'ab', 'B', '1', '1.0', '10', '9', 'true', 'false', 'NaN', 'INF', '-INF', ' 1 ', '-0', ' a ', '\tabc\n', 'A', 'ABC', 'aBd', 'b', 'TRUE', 'inf',
          '\U00010000', '￿', 'é', '1.5', '0', '-1', '+1', 'x', '1.00000001', '2', '3', 'ba', '12', 'abca', '4' + '0' * 38, '0.' + '0' * 40 + '1'],
    'a': ['', 'a', 'abc', 'abd', 'ab', 'B', '1', 'x', 'é', '10', '9', 'A', 'ABC', 'aBd'],
    'b': [True, False],
    'q': [('', '', 'a'), ('urn-x', 'p', 'a'), ('urn-y', 'p', 'a'), ('urn-x', 'q', 'a'), ('urn-x', 'p', 'b'),
          ('', '', 'abc'), ('urn-x', '', 'a')],
    'D': [(2000, 1, 1), (2000, 1, 2), (1999, 12, 31), (2024, 2, 29)],
    'T': [(2000, 1, 1, 0, 0, 0), (2000, 1, 1, 10, 0, 0), (2000, 1, 2, 0, 0, 0), (1999, 12, 31, 23, 59, 59)],
    't': [(0, 0, 0), (10, 0, 0), (23, 59, 59)],
    'P': [(12, 0), (0, 31536000), (14, 3), (0, 0), (1, 0), (0, 2678400), (0, 2592000), (-1, 0), (0, 31622400),
          (1, 2592000), (2, 0), (0, 86400), (12, 5)],
    'Y': [0, 12, 14, -3, 1],
    'S': [0, 86400, -5, 31536000, 1],
    'x': [b'', b'AB', b'AC', b'A', b'\xff', b'ABC'],
    'y': [b'', b'AB', b'AC', b'A', b'\xff', b'ABC'],
}
POOLS['u'] = POOLS['s']
NODE_TEXTS = ['', 'a', 'abc', 'abd', '1', '1.0', '10', '9', 'true', 'false', 'NaN', ' 1 ', '1.5', '0', '-1', 'x', '2',
              'é', '12', 'INF', 'A', 'ABC', 'B']


def pool_item(t, v):
    if t in ('q',):
        return (t, *v)
    if t == 'P':
        return (t, *v)
    if t in ('x', 'y'):
        return (t, tuple(v))
    return (t, v)


def rand_item(rng, t=None):
    t = t or rng.choice(TYPES)
    if t == 'f' and rng.random() < 0.35:
        # doubles around the isclose boundary (rel 1e-7) of a random base
        base = rng.choice([1.0, 3.0, 1e10, 1e-5, 123.456, -7.25, 2.0 ** 60])
        return ('f', base * (1 + rng.choice([0, 1, -1, 2, 5, 9, 10, 11, 20, 99, 100, 101]) * 1e-9))
    if t == 'g' and rng.random() < 0.35:
        base = rng.choice([1.0, 3.0, 1024.0, -7.25])
        return ('g', f32(base * (1 + rng.choice([0, 1, -1, 2, 3]) * 6e-8)))
    if t == 'i' and rng.random() < 0.3:
        return ('i', rng.choice([1, -1]) * rng.randrange(0, 2 ** rng.choice([4, 30, 54, 70])))
    if t == 'd' and rng.random() < 0.3:
        return ('d', str(Decimal(rng.randrange(-10 ** 6, 10 ** 6)) / (10 ** rng.randrange(0, 8))))
    if t == 'Y' and rng.random() < 0.6:
        return ('Y', rng.randrange(-30, 31))
    if t == 'S' and rng.random() < 0.6:
        return ('S', rng.choice([1, -1]) * (86400 * rng.choice([0, 1, 28, 29, 30, 31, 59, 365, 366]) + rng.choice([0, 0, 1, -1, 3600])))
    if t == 'P' and rng.random() < 0.6:
        sg = rng.choice([1, -1])      # months and seconds of a duration carry the same sign
        return ('P', sg * rng.randrange(0, 16), sg * (86400 * rng.choice([0, 0, 1, 28, 29, 30, 31, 59, 61, 365, 366]) + rng.choice([0, 0, 1])))
    if t in 'DTt':
        return boundary_item(rng, t) if rng.random() < 0.5 else (t, rng.choice(POOLS[t]), rng.choice(TZS))
    return pool_item(t, rng.choice(POOLS[t]))


TZS = [None, None, 0, 60, -60, 300, -300, 330, -570, 720, -720, 840, -840]
ITZS = [None, None, 840, -300, 0, 330, -720, -840]      # implicit timezones of the dynamic context


def boundary_item(rng, t, year=None):
    """a date / dateTime next to a year boundary (or a time next to midnight) with a timezone up to +-14:00"""
    tz = rng.choice(TZS)
    if t == 't':
        return ('t', rng.choice([(0, 0, 0), (0, 30, 0), (1, 0, 0), (10, 0, 0), (13, 59, 59), (14, 0, 0), (23, 0, 0),
                                 (23, 59, 59)]), tz)
    y = year if year is not None else rng.choice([1999, 2000, 2001, 2002, 2003, -1, 0, 1, 2])
    md = rng.choice([(12, 31), (12, 31), (1, 1), (1, 1), (12, 30), (1, 2), (6, 15)])
    if t == 'D':
        return ('D', (y, *md), tz)
    hms = rng.choice([(0, 0, 0), (1, 0, 0), (4, 0, 0), (10, 0, 0), (13, 59, 59), (14, 0, 1), (20, 0, 0), (23, 0, 0),
                      (23, 59, 59)])
    return ('T', (y, *md, *hms), tz)


def numeric_twin(rng, it):
    """the same (or the nearest) number in another numeric type, or as an untyped string"""
    t = it[0]
    try:
        if t == 'i':
            v = it[1] + rng.choice([0, 0, 1, -1])
            return rng.choice([('f', float(v)), ('g', f32(float(v))), ('d', str(v)), ('u', str(v)), ('i', v)])
        if t in 'fg' and math.isfinite(it[1]):
            fr = Fraction(it[1])
            if fr.denominator == 1 and abs(fr) < 10 ** 40:
                return rng.choice([('i', int(fr) + rng.choice([0, 0, 1, -1])), ('u', str(int(fr))), ('d', str(int(fr)))])
            if abs(fr) < 10 ** 6 and fr.denominator < 2 ** 40:
                return ('d', format(Decimal(fr.numerator) / Decimal(fr.denominator), 'f'))
        if t == 'd':
            return rng.choice([('f', float(Decimal(it[1]))), ('g', f32(float(Decimal(it[1])))), ('u', it[1])])
    except (OverflowError, ValueError, ArithmeticError):
        pass
    return it


def neighbour(rng, it):
    """an item of the same type equal or adjacent to `it` (collisions and off-by-one values)"""
    t = it[0]
    d = rng.choice([0, 0, 1, -1])
    if t == 'i':
        return ('i', it[1] + d)
    if t == 'Y':
        return ('Y', it[1] + d)
    if t == 'S':
        return ('S', it[1] + d * rng.choice([1, 86400]))
    if t == 'P':
        m, sec = it[1], it[2]
        if rng.random() < 0.5:
            m += d
        else:
            sec += d * rng.choice([1, 86400])
        if (m < 0 < sec) or (sec < 0 < m):
            return it
        return ('P', m, sec)
    if t == 'd':
        return ('d', str(Decimal(it[1]) + d * Decimal(rng.choice(['1', '0.1', '0.00000001']))))
    if t in 'su' and it[1]:
        return (t, it[1][:-1] + chr(max(32, min(126, ord(it[1][-1]) + d))) if ord(it[1][-1]) < 127 else it[1])
    return it


def rand_seq(rng, maxlen=3, node_p=0.15, types=None):
    n = rng.choice([0, 1, 1, 1, 2, 2, 3][:maxlen * 2 + 1])
    homog = rng.random() < 0.5
    t0 = rng.choice(types or TYPES)
    out = []
    for _ in range(n):
        if rng.random() < node_p:
            out.append(('n', rng.choice(NODE_TEXTS)))
        else:
            out.append(rand_item(rng, t0 if homog else (rng.choice(types) if types else None)))
    return out


def all_nodes(rng, n):
    return [('n', rng.choice(NODE_TEXTS)) for _ in range(n)]


# ------------------------------------------------------------------------------ corpus
def corpus():
    c = []
    one = 1.0
    near = 1.00000001
    for op in OPS:       # tolerance of xs:float (F07); doubles compare exactly
        c.append({'k': 'V', 'm': 'v2', 'op': op, 'l': [('f', one)], 'r': [('f', near)]})
        c.append({'k': 'G', 'm': 'v2', 'op': op, 'l': [('f', one)], 'r': [('f', near)]})
        c.append({'k': 'V', 'm': 'v31', 'op': op, 'l': [('g', 1.0)], 'r': [('g', f32(1.0000001))]})
        c.append({'k': 'G', 'm': 'v2', 'op': op, 'l': [('g', 1.0)], 'r': [('g', f32(1.0000001))]})
        c.append({'k': 'V', 'm': 'v2', 'op': op, 'l': [('f', float('nan'))], 'r': [('f', float('nan'))]})
        c.append({'k': 'G', 'm': 'v2', 'op': op, 'l': [('u', 'abc')], 'r': [('u', 'abd')]})
        c.append({'k': 'G', 'm': 'v2', 'op': op, 'l': [('u', '10')], 'r': [('u', '9')]})
        c.append({'k': 'V', 'm': 'v2', 'op': op, 'l': [('u', '10')], 'r': [('u', '9')]})
        c.append({'k': 'G', 'm': 'v1', 'op': op, 'l': [('s', '1')], 'r': [('i', 1)]})
        c.append({'k': 'G', 'm': 'v1', 'op': op, 'l': [('n', '1'), ('n', 'abc')], 'r': [('i', 1)]})
        c.append({'k': 'G', 'm': 'v2', 'op': op, 'l': [('i', 1), ('s', 'a')], 'r': [('i', 1)]})
        c.append({'k': 'G', 'm': 'v2', 'op': op, 'l': [('s', 'a'), ('i', 1)], 'r': [('i', 1)]})
        c.append({'k': 'V', 'm': 'v2', 'op': op, 'l': [], 'r': [('i', 1)]})
        c.append({'k': 'V', 'm': 'v2', 'op': op, 'l': [('i', 1), ('i', 2)], 'r': [('i', 1)]})
        c.append({'k': 'G', 'm': 'v2c', 'op': op, 'l': [], 'r': [('b', False)]})
        c.append({'k': 'G', 'm': 'v2c', 'op': op, 'l': [('n', 'a'), ('n', 'b')], 'r': [('b', True)]})
        c.append({'k': 'V', 'm': 'v2', 'op': op, 'l': [('i', 2 ** 53 + 1)], 'r': [('f', 2.0 ** 53)]})
        c.append({'k': 'V', 'm': 'v2', 'op': op, 'l': [('s', 'a')], 'r': [('q', '', '', 'a')]})
        c.append({'k': 'V', 'm': 'v2', 'op': op, 'l': [('T', (2000, 12, 31, 23, 0, 0), -300)],
                  'r': [('T', (2001, 1, 1, 1, 0, 0), None)]})
        c.append({'k': 'G', 'm': 'v31', 'op': op, 'l': [('T', (2001, 1, 1, 1, 0, 0), None)],
                  'r': [('T', (2000, 12, 31, 23, 0, 0), -300)]})
        c.append({'k': 'V', 'm': 'v2', 'op': op, 'l': [('D', (2000, 12, 31), -840)], 'r': [('D', (2001, 1, 1), 840)]})
        c.append({'k': 'V', 'm': 'v2', 'op': op, 'l': [('i', 16777217)], 'r': [('g', 16777216.0)]})
        c.append({'k': 'G', 'm': 'v2', 'op': op, 'l': [('i', 2 ** 53 + 1)], 'r': [('f', 2.0 ** 53)]})
        c.append({'k': 'V', 'm': 'v2', 'op': op, 'l': [('g', 2 - 2 ** -22)], 'r': [('g', 2 - 2 ** -23)]})
        c.append({'k': 'G', 'm': 'v31', 'op': op, 'l': [('f', 2.0 ** 53)], 'r': [('i', 2 ** 53 + 1)]})
        c.append({'k': 'G', 'm': 'v2', 'op': op, 'l': [('g', 16777216.0)], 'r': [('i', 2 ** 53 + 1)]})
        c.append({'k': 'G', 'm': 'v2', 'op': op, 'l': [('u', '4' + '0' * 38)], 'r': [('g', float('inf'))]})
        c.append({'k': 'G', 'm': 'v31', 'op': op, 'l': [('g', 0.0)], 'r': [('u', '0.' + '0' * 40 + '1')]})
        c.append({'k': 'G', 'm': 'v2', 'op': op, 'l': [('u', '9007199254740992')], 'r': [('i', 2 ** 53 + 1)]})
        c.append({'k': 'G', 'm': 'v2', 'op': op, 'l': [('P', 12, 0)], 'r': [('P', 13, 0)]})
        c.append({'k': 'G', 'm': 'v2', 'op': op, 'l': [('P', 12, 0)], 'r': [('Y', 12)]})
        c.append({'k': 'G', 'm': 'v31', 'op': op, 'l': [('g', 2 - 2 ** -22)], 'r': [('g', 2 - 2 ** -23)]})
        c.append({'k': 'G', 'm': 'v2', 'op': op, 'l': [('D', (2000, 1, 1))], 'r': [('i', 1)]})
        c.append({'k': 'G', 'm': 'v2', 'op': op, 'l': [('b', True)], 'r': [('f', 1.0)]})
        c.append({'k': 'G', 'm': 'v2', 'op': op, 'l': [('x', b'AB')], 'r': [('y', b'AB')]})
        c.append({'k': 'G', 'm': 'v2', 'op': op, 'l': [('u', 'abc')], 'r': [('d', '1.5')]})
        c.append({'k': 'G', 'm': 'v2', 'op': op, 'l': [('u', 'NaN')], 'r': [('d', '1.5')]})
        c.append({'k': 'G', 'm': 'v1', 'op': op, 'l': [('s', 'abc')], 'r': [('i', 1)]})
        c.append({'k': 'G', 'm': 'v1', 'op': op, 'l': [('b', True)], 'r': [('i', 2)]})
        for dl in (9.9999e-8, 1.00000015e-7, 1.005e-7):     # Float.__eq__/__ne__ at the exact tolerance boundary
            c.append({'k': 'V', 'm': 'v2', 'op': op, 'l': [('g', 3.0)], 'r': [('g', 3.0 * (1 + dl))]})
            c.append({'k': 'G', 'm': 'v31', 'op': op, 'l': [('g', -7.25 * (1 + dl))], 'r': [('g', -7.25)]})
        for m in ('v2', 'v2c', 'v31'):      # default collation html-ascii-case-insensitive (c=ci) against codepoint
            for cc in ({'c': 'ci'}, {}):
                c.append({'k': 'V', 'm': m, 'op': op, 'l': [('s', 'a')], 'r': [('s', 'A')], **cc})
                c.append({'k': 'G', 'm': m, 'op': op, 'l': [('s', 'a')], 'r': [('s', 'A')], **cc})
                c.append({'k': 'V', 'm': m, 'op': op, 'l': [('s', 'a')], 'r': [('s', 'B')], **cc})
                c.append({'k': 'G', 'm': m, 'op': op, 'l': [('s', 'x'), ('s', 'A')], 'r': [('s', 'b'), ('a', 'a')], **cc})
                c.append({'k': 'G', 'm': m, 'op': op, 'l': [('u', ' a ')], 'r': [('a', 'A')], **cc})
                c.append({'k': 'G', 'm': m, 'op': op, 'l': [('a', 'A')], 'r': [('u', ' a ')], **cc})
                c.append({'k': 'G', 'm': m, 'op': op, 'l': [('n', 'ABC')], 'r': [('n', 'abc'), ('s', 'abd')], **cc})
                c.append({'k': 'V', 'm': m, 'op': op, 'l': [('n', 'ABC')], 'r': [('a', 'abc')], **cc})
                c.append({'k': 'G', 'm': m, 'op': op, 'l': [('u', 'TRUE')], 'r': [('b', True)], **cc})
                c.append({'k': 'G', 'm': m, 'op': op, 'l': [('u', 'A')], 'r': [('q', '', '', 'a')], **cc})
                c.append({'k': 'G', 'm': m, 'op': op, 'l': [('s', 'Z')], 'r': [('s', '_'), ('s', '[')], **cc})
                # phase 5: the sequence rules of the value comparison (rules 2-4 of §3.7.1) under both collations
                c.append({'k': 'V', 'm': m, 'op': op, 'l': [], 'r': [('s', 'A')], **cc})
                c.append({'k': 'V', 'm': m, 'op': op, 'l': [('n', 'a')], 'r': [], **cc})
                c.append({'k': 'V', 'm': m, 'op': op, 'l': [], 'r': [], **cc})
                c.append({'k': 'V', 'm': m, 'op': op, 'l': [('s', 'a'), ('s', 'B')], 'r': [('s', 'A')], **cc})
                c.append({'k': 'V', 'm': m, 'op': op, 'l': [('s', 'a')], 'r': [('a', 'A'), ('u', 'B')], **cc})
                c.append({'k': 'V', 'm': m, 'op': op, 'l': [], 'r': [('u', 'a'), ('s', 'A')], **cc})
                c.append({'k': 'V', 'm': m, 'op': op, 'l': [('n', 'a'), ('n', 'A'), ('n', 'a')], 'r': [], **cc})
                c.append({'k': 'V', 'm': m, 'op': op, 'l': [('n', 'aBd')], 'r': [('a', 'ABD')], **cc})
                c.append({'k': 'V', 'm': m, 'op': op, 'l': [('u', 'Z')], 'r': [('n', 'z')], **cc})
        for m in ('v2', 'v2c', 'v31'):      # untypedAtomic cast on either side: QName, anyURI, integer
            for u in (' a ', 'a', '1', ''):
                c.append({'k': 'G', 'm': m, 'op': op, 'l': [('q', '', '', 'a')], 'r': [('u', u)]})
                c.append({'k': 'G', 'm': m, 'op': op, 'l': [('u', u)], 'r': [('q', 'urn-x', 'p', 'a')]})
                c.append({'k': 'G', 'm': m, 'op': op, 'l': [('a', 'a')], 'r': [('u', u)]})
                c.append({'k': 'G', 'm': m, 'op': op, 'l': [('u', u)], 'r': [('a', 'a')]})
            c.append({'k': 'G', 'm': m, 'op': op, 'l': [('i', 2 ** 53 + 1)], 'r': [('u', '9007199254740992')]})
            c.append({'k': 'G', 'm': m, 'op': op, 'l': [('i', 10 ** 400)], 'r': [('u', '1e308'), ('u', 'INF')]})
            c.append({'k': 'G', 'm': m, 'op': op, 'l': [('u', ' 1 ')], 'r': [('i', 1), ('q', '', '', 'a')]})
    for f in ('boolean', 'not', 'if'):
        for l in ([], [('i', 1), ('i', 2)], [('n', 'a'), ('i', 1)], [('i', 1), ('n', 'a')], [('f', float('nan'))],
                  [('d', '0.0')], [('q', '', '', 'a')], [('s', '')], [('u', 'false')], [('f', -0.0)]):
            c.append({'k': 'B', 'm': 'v2', 'f': f, 'l': l})
    for f in ('and', 'or'):
        c.append({'k': 'L', 'm': 'v2', 'f': f, 'l': [('i', 1), ('i', 2)], 'r': [('b', False)]})
        c.append({'k': 'L', 'm': 'v2', 'f': f, 'l': [('b', False)], 'r': [('i', 1), ('i', 2)]})
        c.append({'k': 'L', 'm': 'v2', 'f': f, 'l': [('b', True)], 'r': [('i', 1), ('i', 2)]})
    return c


# --------------------------------------------------------------------------- generator
def gen_cases(run: Run):
    rng = run.rng
    cases = list(corpus())
    # (1) the complete ordered type-pair matrix, singletons, all operators, both families, all modes
    reps = run.scale(2, 8)
    for m in MODES:
        for ta, tb in iproduct(TYPES, TYPES):
            for op in OPS:
                for k in ('G', 'V'):
                    if k == 'V' and m == 'v1':
                        continue
                    for _ in range(reps):
                        c = {'k': k, 'm': m, 'op': op, 'l': [rand_item(rng, ta)], 'r': [rand_item(rng, tb)]}
                        if ta in 'DTt' or tb in 'DTt':
                            c['z'] = rng.choice(ITZS)
                        cases.append(c)
    # (2) same-class pairs with values drawn to collide / be close (order properties, tolerance)
    for _ in range(run.scale(5000, 60000)):
        grp = rng.choice([['i', 'd'], ['f'], ['g'], ['f', 'g'], ['i', 'd', 'f', 'g'], ['s', 'u', 'a'], ['u'], ['b'],
                          ['D'], ['T'], ['t'], ['D', 'T', 't'], ['P', 'Y', 'S'], ['Y'], ['S'], ['x', 'y'], ['q'],
                          ['u', 'i', 'd', 'f', 'g'], ['u', 'b'], ['u', 'x', 'y', 'q', 'a']])
        m = rng.choice(MODES)
        k = rng.choice(['G', 'V']) if m != 'v1' else 'G'
        a = rand_item(rng, rng.choice(grp))
        r0 = rng.random()
        b = neighbour(rng, a) if r0 < 0.35 else numeric_twin(rng, a) if r0 < 0.55 else rand_item(rng, rng.choice(grp))
        if rng.random() < 0.5:
            a, b = b, a
        cases.append({'k': k, 'm': m, 'op': rng.choice(OPS), 'l': [a], 'r': [b]})
    # (2b) pairs of doubles / floats at relative distances around the isclose tolerance (1e-7)
    for _ in range(run.scale(2500, 30000)):
        base = rng.choice([1.0, 3.0, 1e10, 1e-5, 123.456, -7.25, 2.0 ** 60, 1e-300, 1e300, 0.1, -1e-7])
        delta = rng.choice([1, -1]) * rng.choice([0, 1e-9, 3e-8, 9e-8, 9.9e-8, 9.99e-8, 1e-7, 1.0000001e-7, 1.00000015e-7, 1.001e-7,
                                                  1.01e-7, 1.1e-7, 2e-7, 5e-7, 9e-7, 1e-6, 1.1e-6, 1e-5, 1e-3])
        t = rng.choice(['f', 'f', 'g'])
        x, y = base, base * (1 + delta)
        if t == 'g' and (abs(base) > 1e30 or abs(base) < 1e-30 or rng.random() < 0.5):
            x, y = f32(rng.choice([1.0, 1.185, 1.5, 1.9999, 3.0, -7.25, 1000.0])), None
            y = f32(x * (1 + delta * rng.choice([1, 2])))
        # else: an xs:float holding a double that is not a binary32 value, as xs:float('1.00000001') does (Float
        # stores the double nearest to the literal): the tolerance of Float.__eq__ is tied at its exact boundary
        a, b = (t, x), (t, y)
        if rng.random() < 0.5:
            a, b = b, a
        m = rng.choice(['v2c', 'v2', 'v31'])
        cases.append({'k': rng.choice(['V', 'V', 'G']), 'm': m, 'op': rng.choice(OPS), 'l': [a], 'r': [b]})
    # (2c) dates / dateTimes across a year boundary (adjacent years, and 2 / 3 years apart) and times around
    #      midnight, with none / one / both timezones up to +-14:00
    for _ in range(run.scale(4000, 40000)):
        t = rng.choice(['T', 'T', 'D', 'D', 't'])
        y = rng.choice([1999, 2000, 2001, 0, 0, -1, 1])        # astronomical: 0 is 1 BCE
        a = boundary_item(rng, t, y)
        b = boundary_item(rng, t, y + rng.choice([0, 1, 1, 1, -1, 2, 3]))
        m = rng.choice(['v2c', 'v2', 'v31', 'v31'])
        cases.append({'k': rng.choice(['V', 'G']), 'm': m, 'op': rng.choice(OPS), 'l': [a], 'r': [b],
                      'z': rng.choice(ITZS)})
    # (3) sequences of length 0..3 (atoms of any type, element nodes)
    for _ in range(run.scale(15000, 200000)):
        m = rng.choice(MODES)
        k = 'G' if (m == 'v1' or rng.random() < 0.75) else 'V'
        types = rng.choice([None, None, ['i', 'd', 'f', 'g', 'u'], ['s', 'u', 'a'], ['u', 'b', 'i'], ['f'], ['s', 'f', 'b', 'i']])
        r = rng.random()
        if m in ('v1', 'v2c') and r < 0.5:
            # XPath 1.0 shaped operands: node-sets and single number/string/boolean
            def operand():
                q = rng.random()
                if q < 0.45:
                    return all_nodes(rng, rng.choice([0, 1, 2, 3]))
                return [rand_item(rng, rng.choice(['f', 's', 'b', 'i']))]
            l, rr = operand(), operand()
        elif r < 0.6:
            l, rr = all_nodes(rng, rng.choice([0, 1, 2, 3])), rand_seq(rng, 3, 0.1, types)
            if rng.random() < 0.5:
                l, rr = rr, l
        else:
            l, rr = rand_seq(rng, 3, 0.15, types), rand_seq(rng, 3, 0.15, types)
        cases.append({'k': k, 'm': m, 'op': rng.choice(OPS), 'l': l, 'r': rr})
    # (3b) a second parser of each 2.0+ mode built with default_collation = html-ascii-case-insensitive: string-like
    #      operands differing in case only / in case and content, and a sample of all the cases above
    CASEY = ['a', 'A', 'abc', 'ABC', 'aBd', 'abd', 'B', 'b', 'ab', 'Z', 'z', '[', '_', '`', 'É', 'é', '', ' a ', ' A', '1', 'x']
    for _ in range(run.scale(2500, 30000)):
        m = rng.choice(['v2c', 'v2', 'v31'])

        def sitem():
            t = rng.choice(['s', 's', 'u', 'a', 'n'])
            v = rng.choice(CASEY)
            return (t, v.strip() if t == 'a' else v)
        if rng.random() < 0.7:
            l, rr = [sitem()], [sitem()]
        else:
            l = [sitem() for _ in range(rng.choice([0, 1, 2, 3]))]
            rr = [sitem() if rng.random() < 0.85 else rand_item(rng) for _ in range(rng.choice([1, 2, 3]))]
        k = 'V' if (len(l) == 1 and len(rr) == 1 and rng.random() < 0.5) else 'G'
        cases.append({'k': k, 'm': m, 'op': rng.choice(OPS), 'l': l, 'r': rr, 'c': 'ci'})
    # (3c) phase 5: VALUE comparisons of operand SEQUENCES (0..3 items on either side, every combination of
    #      lengths) under the case-insensitive collation, each with its codepoint twin one time in three:
    #      string-like items differing in case, some under an implicit timezone with date/time items mixed in
    for _ in range(run.scale(2400, 24000)):
        m = rng.choice(['v2c', 'v2', 'v31'])

        def vitem():
            q = rng.random()
            if q < 0.8:
                t = rng.choice(['s', 's', 'u', 'a', 'n', 'n'])
                v = rng.choice(CASEY)
                return (t, v.strip() if t == 'a' else v)
            return rand_item(rng, rng.choice(['D', 'T', 't', 'i', 'b', 's', 'q']) if q < 0.93 else None)
        nl, nr = rng.choice([0, 1, 1, 1, 2, 3]), rng.choice([0, 1, 1, 1, 2, 3])
        case = {'k': 'V', 'm': m, 'op': rng.choice(OPS), 'l': [vitem() for _ in range(nl)],
                'r': [vitem() for _ in range(nr)], 'c': 'ci'}
        if rng.random() < 0.25:
            case['z'] = rng.choice(ITZS)
        cases.append(case)
        if rng.random() < 0.34:
            twin = dict(case)
            del twin['c']
            cases.append(twin)
    # (3d) phase 5: GENERAL comparisons of XPath2Parser(compatibility_mode=True) under the case-insensitive collation
    #      (now specified: `generalAllowedCompatC`), every rule of §3.5.2: a single boolean operand, ordering operators
    #      (fn:number), `=` / `!=` over pairs of strings / untypedAtomics / nodes / anyURIs differing in case, mixed with
    #      numbers and booleans (inside the F07-compat trigger: tagged), a third repeated under the codepoint collation
    for _ in range(run.scale(2400, 24000)):
        cop = rng.choice(OPS + ['eq', 'ne'] * 2)
        pool = CASEY if cop in ('eq', 'ne') or rng.random() < 0.3 else ['1', '2', ' 3 ', '10', '1.5', '-0', 'NaN', 'INF', 'A']

        def citem():
            q = rng.random()
            if q < 0.75:
                t = rng.choice(['s', 's', 'u', 'a', 'n', 'n'])
                v = rng.choice(pool)
                return (t, v.strip() if t == 'a' else v)
            return rand_item(rng, rng.choice(['i', 'b', 'f', 'd', 'D', 'q', 's']) if q < 0.95 else None)
        q = rng.random()
        if q < 0.12:
            l, rr = [('b', rng.random() < 0.5)], [citem() for _ in range(rng.choice([0, 1, 1, 2]))]
            if rng.random() < 0.5:
                l, rr = rr, l
        else:
            l = [citem() for _ in range(rng.choice([0, 1, 1, 2, 3]))]
            rr = [citem() for _ in range(rng.choice([0, 1, 1, 2, 3]))]
        case = {'k': 'G', 'm': 'v2c', 'op': cop, 'l': l, 'r': rr, 'c': 'ci'}
        if rng.random() < 0.15:
            case['z'] = rng.choice(ITZS)
        cases.append(case)
        if rng.random() < 0.34:
            twin = dict(case)
            del twin['c']
            cases.append(twin)
    for c in list(cases):
        if c['k'] in 'GV' and c['m'] != 'v1' and 'c' not in c and rng.random() < 0.12:
            cases.append(dict(c, c='ci'))
    # (4) effective boolean value: every shape; logic
    shapes = [[]]
    for t in TYPES:
        for v in POOLS[t]:
            shapes.append([pool_item(t, v)])
    for tx in NODE_TEXTS[:6]:
        shapes.append([('n', tx)])
    for m in MODES:
        for f in ('boolean', 'not', 'if', 'blist'):
            if f == 'if' and m == 'v1':
                continue
            for s in shapes:
                cases.append({'k': 'B', 'm': m, 'f': f, 'l': s})
            for _ in range(run.scale(300, 3000)):
                cases.append({'k': 'B', 'm': m, 'f': f, 'l': rand_seq(rng, 3, 0.3)})
        for f in ('and', 'or'):
            for _ in range(run.scale(1000, 10000)):
                cases.append({'k': 'L', 'm': m, 'f': f, 'l': rand_seq(rng, 2, 0.2, ['b', 'i', 's', 'f', 'q', 'u', 'd']),
                              'r': rand_seq(rng, 2, 0.2, ['b', 'i', 's', 'f', 'q', 'u', 'd'])})
    return cases


# ------------------------------------------------------------------------- histories
def gen_histories(run: Run):
    """comparison histories: 3 variables bound to the same Python objects through 2..4 comparisons
    (value / general, six operators, same-year and adjacent-year dates) under different contexts"""
    rng = run.rng
    hists = list(HISTORY_CORPUS)
    for _ in range(run.scale(700, 8000)):
        # targeted: a timezone-less value just after New Year, a zoned value just before it, a third value in
        # another year; first a comparison without implicit timezone (any cached instant of `a` is the UTC one),
        # then comparisons whose outcome depends on the implicit timezone
        y = rng.choice([1999, 2000, 2001, 0, -1])
        t = rng.choice(['T', 'T', 'D'])
        if t == 'T':
            a = ('T', (y + 1, 1, 1, rng.choice([0, 1, 2, 4, 6, 11]), rng.choice([0, 30]), 0), None)
            b = ('T', (y, 12, 31, rng.choice([13, 18, 20, 22, 23]), rng.choice([0, 30]), 0), rng.choice([-300, -600, -720, -840, 0, 300]))
            c = ('T', (y + rng.choice([-1, 0, 2, 3]), rng.choice([1, 6, 12]), 15, 12, 0, 0), rng.choice([None, None, 0]))
        else:
            a = ('D', (y + 1, 1, 1), None)
            b = ('D', (y, 12, 31), rng.choice([-840, -720, -300, 0, 300]))
            c = ('D', (y + rng.choice([-1, 0, 2, 3]), 6, 15), rng.choice([None, 0]))
        if rng.random() < 0.5:
            a, b = (a[0], b[1], None), (b[0], a[1], b[2])       # or the other way round: `a` before New Year
        vals = {'a': [a], 'b': [b], 'c': [c]}
        steps = [{'k': rng.choice(['V', 'G']), 'm': rng.choice(['v2', 'v31']), 'op': rng.choice(OPS),
                  'x': rng.choice(['a', 'c']), 'y': rng.choice(['c', 'a', 'b']), 'z': None}]
        for _ in range(rng.choice([1, 2, 3])):
            x, yv = rng.choice([('a', 'b'), ('b', 'a'), ('a', 'b'), ('a', 'c'), ('a', 'a')])
            steps.append({'k': rng.choice(['V', 'G']), 'm': rng.choice(['v2', 'v31', 'v2c']), 'op': rng.choice(OPS),
                          'x': x, 'y': yv, 'z': rng.choice([840, -840, -300, -720, 330, None])})
        hists.append({'vals': vals, 'steps': steps})
    for _ in range(run.scale(1200, 15000)):
        t = rng.choice(['T', 'T', 'T', 'D', 'D', 't'])
        y = rng.choice([1999, 2000, 2001, 0, -1, 1])
        vals = {}
        for n in 'abc':
            it = boundary_item(rng, t, y + rng.choice([0, 0, 1, 1, -1, 2]))
            if rng.random() < 0.55:          # timezone-less values are the ones a context can affect
                it = (it[0], it[1], None)
            vals[n] = [it]
        r = rng.random()
        if r < 0.15:
            vals['c'] = [rand_item(rng, rng.choice(['u', 'i', 's', 'f', t]))]
        elif r < 0.3:
            vals['b'] = vals['b'] + [boundary_item(rng, t, y + rng.choice([0, 1]))]
        steps = []
        for _ in range(rng.choice([2, 3, 3, 4])):
            x, yv = rng.choice('abc'), rng.choice('abc')
            k = rng.choice(['V', 'G'])
            if k == 'V' and (len(vals[x]) > 1 or len(vals[yv]) > 1) and rng.random() < 0.7:
                k = 'G'
            steps.append({'k': k, 'm': rng.choice(['v2', 'v31', 'v31', 'v2c']), 'op': rng.choice(OPS), 'x': x, 'y': yv,
                          'z': rng.choice(ITZS)})
        hists.append({'vals': vals, 'steps': steps})
    return hists


HISTORY_CORPUS = [
    # a timezone-less value compared first without, then with an implicit timezone, across New Year
    {'vals': {'a': [('T', (2001, 1, 1, 1, 0, 0), None)], 'b': [('T', (2000, 12, 31, 23, 0, 0), -300)],
              'c': [('T', (2000, 6, 15, 0, 0, 0), None)]},
     'steps': [{'k': 'V', 'm': 'v2', 'op': 'lt', 'x': 'a', 'y': 'c', 'z': None},
               {'k': 'V', 'm': 'v2', 'op': 'lt', 'x': 'a', 'y': 'b', 'z': -300},
               {'k': 'G', 'm': 'v31', 'op': 'gt', 'x': 'a', 'y': 'b', 'z': 840},
               {'k': 'V', 'm': 'v2', 'op': 'lt', 'x': 'a', 'y': 'b', 'z': None}]},
    {'vals': {'a': [('D', (2001, 1, 1), None)], 'b': [('D', (2000, 12, 31), -840)], 'c': [('D', (2001, 1, 1), 840)]},
     'steps': [{'k': 'G', 'm': 'v2', 'op': 'le', 'x': 'a', 'y': 'b', 'z': 840},
               {'k': 'V', 'm': 'v31', 'op': 'eq', 'x': 'a', 'y': 'c', 'z': None},
               {'k': 'V', 'm': 'v31', 'op': 'eq', 'x': 'a', 'y': 'c', 'z': 840}]},
]


def step_case(hist, i):
    st = hist['steps'][i]
    return {'k': st['k'], 'm': st['m'], 'op': st['op'], 'l': hist['vals'][st['x']], 'r': hist['vals'][st['y']],
            'z': st.get('z')}


def history_json(hist, upto):
    return {'history': {'values': {n: [case_json({'k': 'B', 'm': 'v2', 'f': 'boolean', 'l': [it]})['l'][0] for it in v]
                                   for n, v in hist['vals'].items()},
                        'steps': [dict(st, expr=expr_of({'k': st['k'], 'op': st['op']}).replace('$a', '$' + st['x'])
                                       .replace('$b', '$' + st['y']) if st['x'] != 'b' else
                                       expr_of({'k': st['k'], 'op': st['op']}).replace('$b', '$Y').replace('$a', '$' + st['x'])
                                       .replace('$Y', '$' + st['y'])) for st in hist['steps'][:upto + 1]]},
            'failing_step': upto, 'line': line_of(step_case(hist, upto))}


_hist_by_key: dict = {}


def compare_histories(run: Run, hists, count=True) -> None:
    lines = [line_of(step_case(h, i)) for h in hists for i in range(len(h['steps']))]
    answers = run.driver('C07', lines) if lines else []
    st = run.stats
    pos = 0
    for h in hists:
        res = run_history(h)
        for i, (impl, msg) in enumerate(res):
            ans = answers[pos]
            pos += 1
            model, allowed, trig = parse_answer(ans)
            if model == 'UNSUPPORTED':
                continue
            spec = None if allowed is None else (impl if impl in allowed else '|'.join(allowed))
            if count:
                st.case({'history-step': line_of(step_case(h, i)), 'n': i}, nontrivial=True)
                st.count('kind:H')
                st.count(f'history:step{i}:z={"none" if h["steps"][i].get("z") is None else "set"}')
            cj = None
            if msg is not None or impl != model or (spec is not None and impl != spec):
                cj = history_json(h, i)
                _hist_by_key[cj['line'] + '#' + str(i)] = (h, i)
            site = 'xpath_tokens/base.py implicit_timezone_operands + datatypes/datetime.py (state across comparisons)'
            if msg is not None:
                run.disagree(Disagreement(cj, 'mutated: ' + msg, 'unchanged', 'unchanged', what='history-state', site=site))
                break
            if impl != model:
                run.disagree(Disagreement(cj, impl, model, spec, what='history:model-vs-code', site=site))
                break
            if spec is not None and impl != spec:
                run.disagree(Disagreement(cj, impl, model, spec, what='history:spec', site=site, tags=trig))
        else:
            continue
        pos += len(res) - i - 1


# ---------------------------------------------------------------------- correspondence
_case_by_line: dict = {}


def parse_answer(ans: str):
    fs = dict(p.split('=', 1) for p in ans.split(' ') if '=' in p)
    spec = fs.get('spec', 'NA')
    allowed = None if spec == 'NA' else spec.split('|')
    trig = [] if fs.get('trig', '-') == '-' else fs['trig'].split(',')
    return fs.get('model', '?'), allowed, trig


def seq_types(seq):
    return ''.join(i[0] for i in seq) or '_'


def compare(run: Run, cases: list, count=True) -> None:
    lines = [line_of(c) for c in cases]
    answers = run.driver('C07', lines)
    st = run.stats
    pairs = st.extra.setdefault('_pairs', set())
    for case, line, ans in zip(cases, lines, answers):
        if ans.startswith('bad-'):
            run.disagree(Disagreement(line, 'driver:' + ans, what='protocol'))
            continue
        model, allowed, trig = parse_answer(ans)
        if model == 'UNSUPPORTED':
            if count:
                st.count('skipped:outside-lexical-fragment')
            continue
        impl = run_impl(case)
        spec = None if allowed is None else (impl if impl in allowed else '|'.join(allowed))
        if count:
            k = case['k']
            nontrivial = bool(case['l']) and bool(case.get('r', [1]))
            st.case(case_json(case), nontrivial=nontrivial)
            if case.get('c') == 'ci':
                st.count('default-collation:html-ascii-case-insensitive')
            st.count(f'kind:{k}')
            st.count(f'path:{variant_of(line)}')
            st.count(f'mode:{case["m"]}')
            st.count(f'outcome:{impl if not impl.startswith("?") else "?"}')
            if k in 'GV':
                st.count(f'op:{k}:{case["op"]}')
                st.count(f'lens:{min(len(case["l"]), 3)}x{min(len(case["r"]), 3)}')
                for a in case['l']:
                    for b in case['r']:
                        pairs.add((k, case['m'], a[0], b[0]))
            else:
                st.count(f'fn:{case["f"]}')
                st.count(f'shape:{len(case["l"])}:{"node-first" if case["l"] and case["l"][0][0] == "n" else "atom-first" if case["l"] else "empty"}')
            if spec is None:
                st.count('spec:not-applicable')
            elif len(allowed) > 1:
                st.count('spec:several-outcomes-permitted')
            for tg in trig:
                st.count('trigger:' + tg)
        if case['k'] == 'G' and case['m'] == 'v2c' and count:
            # phase 5: which compatibility rule of §3.5.2 decided (driver `crule=`), per collation, with the outcome
            fs = dict(p.split('=', 1) for p in ans.split(' ') if '=' in p)
            st.count(f'compat-collation:{"ci" if case.get("c") == "ci" else "codepoint"}:{fs.get("crule", "?")}:'
                     f'{"in-trigger" if "F07-compat" in trig else "clean"}:'
                     f'{impl if impl in ("T", "F") else "error"}')
        if case['k'] == 'V':
            # phase 5: which of the rules 2-4 of §3.7.1 decided (Lean `seqRule`, recomputed here from the lengths), the
            # second transcription of the rules through `pairSpecC` (`valueSeqAllowedC`) and the rule-by-rule outcome
            fs = dict(p.split('=', 1) for p in ans.split(' ') if '=' in p)
            rule, spec2 = fs.get('rule', '?'), fs.get('spec2', '?')
            nl, nr = len(case['l']), len(case['r'])
            e, lg = nl == 0 or nr == 0, nl > 1 or nr > 1
            exp_rule = 'empty-or-long' if e and lg else 'empty' if e else 'long' if lg else 'pair'
            if count:
                st.count(f'value-seq-rule:{"ci" if case.get("c") == "ci" else "codepoint"}:{rule}:'
                         f'{min(nl, 3)}x{min(nr, 3)}:{impl if impl in ("EMPTY", "ERR:XPTY0004", "T", "F") else "other"}')
            ok_rule = {'empty': impl == 'EMPTY', 'long': impl == 'ERR:XPTY0004',
                       'empty-or-long': impl in ('EMPTY', 'ERR:XPTY0004'), 'pair': impl != 'EMPTY'}.get(exp_rule, False)
            if rule != exp_rule or spec2 != fs.get('spec', 'NA'):
                run.disagree(Disagreement(case_json(case), f'rule={exp_rule}', f'rule={rule} spec2={spec2}',
                                          f'spec={fs.get("spec")}', what='value-seq:spec-coherence',
                                          site='lean/EPV/Spec/FOCompareSeqC.lean seqRule / valueSeqAllowedC'))
            elif case['m'] != 'v1' and not ok_rule:
                _case_by_line[case_json(case)['line']] = case
                run.disagree(Disagreement(case_json(case), impl, model, exp_rule, what='value-seq-rule:' + exp_rule,
                                          site='xpath_tokens/base.py get_atomized_operand + xpath2/_xpath2_operators.py '
                                               'evaluate__value_comparison_operators'))
        site = {'G': 'xpath_tokens/base.py iter_comparison_data + xpath1/_xpath1_operators.py evaluate__comparison_operators',
                'V': 'xpath2/_xpath2_operators.py evaluate__value_comparison_operators',
                'B': 'xpath_tokens/base.py boolean_value', 'L': 'xpath1/_xpath1_operators.py and/or'}[case['k']]
        cj = case_json(case)
        if impl != model or (spec is not None and impl != spec):
            _case_by_line[cj['line']] = case
        if impl != model:
            # the model does not mirror the code on this input: never excused by a finding tag
            run.disagree(Disagreement(cj, impl, model, spec, what='model-vs-code:' + case['k'], site=site))
        elif spec is not None and impl != spec:
            run.disagree(Disagreement(cj, impl, model, spec, what='spec:' + case['k'], site=site, tags=trig))


def selftest_numeric(run: Run) -> None:
    """the model's IEEE rounding and its math.isclose transcription against CPython"""
    rng = run.rng
    lines, expect = [], []
    for _ in range(run.scale(400, 4000)):
        e = rng.choice([0, 0, 10, -10, 60, -60, 1000, -1000, -1070, 1023])
        num = rng.randrange(-2 ** 70, 2 ** 70)
        den = rng.randrange(1, 2 ** rng.choice([1, 10, 60]))
        fr = Fraction(num, den) * Fraction(2) ** e
        try:
            d = float(fr)
        except OverflowError:
            d = math.inf if fr > 0 else -math.inf
        # only the binary64 half of the answer is compared (CPython has no correctly rounded binary32 conversion)
        lines.append(f'k=R q={fr.numerator}/{fr.denominator}')
        expect.append(('R', enc_D(d) if d != 0 or fr != 0 else ('-0' if fr < 0 else '0/1')))
    for _ in range(run.scale(600, 6000)):
        a = rand_item(rng, 'f')[1]
        b = a * (1 + rng.choice([0, 1, -1, 3, 9, 10, 11, 50, 99, 100, 101, 1000]) * rng.choice([1e-9, 1e-8, 1.0000001e-9]))
        if rng.random() < 0.2:
            b = rand_item(rng, 'f')[1]
        lines.append(f'k=C a={enc_D(a)} b={enc_D(b)}')
        expect.append(('C', 'T' if math.isclose(a, b, rel_tol=1e-7, abs_tol=0.0) else 'F'))
    for _ in range(run.scale(300, 3000)):
        # the model's `_year` (C11's calendar) against Python's datetime and the library's Date10._year
        try:
            d = pydt.datetime(rng.randrange(1, 10000), 1, 1) + pydt.timedelta(
                seconds=rng.choice([0, 1, -1, 86399, 86400]) + 86400 * rng.choice([0, 0, 58, 59, 60, 364, 365]))
        except OverflowError:
            continue
        lines.append(f'k=Y t={int((d - pydt.datetime(1, 1, 1)).total_seconds())}')
        expect.append(('Y', str(d.year)))
    answers = run.driver('C07', lines)
    for ln, (kind, exp), ans in zip(lines, expect, answers):
        got = parse_answer(ans)[0]
        if kind == 'R':
            got = got.split(';')[0]
            if exp == '0/1':
                exp = '0/1'
        run.stats.count('selftest:' + {'R': 'rounding', 'C': 'isclose', 'Y': 'year'}[kind])
        if got != exp:
            run.disagree(Disagreement(ln, exp, got, what='numeric-substrate:' + kind, site='CPython float / math.isclose'))


def correspond(run: Run) -> None:
    cases = gen_cases(run)
    run.stats.rule = (
        'request = (family G|V|B|L, parser mode, operator/function, operand sequences of 0..3 items: atoms of 17 '
        'types or element nodes).  Every ordered type pair x 6 operators x {general, value} x 4 parser modes at '
        'least once (singletons), same-class value collisions, random sequences, every EBV shape; dates/times '
        'across year boundaries under implicit timezones; comparison HISTORIES (the same Python value objects '
        'through 2..4 comparisons under different contexts, each step against the model of the ORIGINAL values, '
        'object state checked after every step); real elementpath vs Lean model vs Lean spec.  '
        'distinct = distinct requests with non-empty operands')
    for i in range(0, len(cases), 6000):
        compare(run, cases[i:i + 6000])
    hists = gen_histories(run)
    for i in range(0, len(hists), 3000):
        compare_histories(run, hists[i:i + 3000])
    run.stats.extra['histories'] = len(hists)
    pairs = run.stats.extra.pop('_pairs', set())
    tp = {(a, b) for (_, _, a, b) in pairs if a != 'n' and b != 'n'}
    run.stats.extra['ordered_type_pairs_covered'] = len(tp)
    run.stats.extra['ordered_type_pairs_total'] = len(TYPES) ** 2
    run.stats.extra['type_pair_x_family_x_mode_cells'] = len({p for p in pairs if p[2] != 'n' and p[3] != 'n'})
    selftest_numeric(run)


def search(run: Run):
    """exhaustive singleton matrix: every pool value x every pool value x operator x family x mode
    (quick: a deterministic stride), real code against the spec"""
    sub = Run(PROP, run.tier, run.seed)
    cases = []
    vals = [pool_item(t, v) for t in TYPES for v in POOLS[t][: (6 if run.quick else 40)]]
    vals += [('T', (2000, 12, 31, 23, 0, 0), -300), ('T', (2001, 1, 1, 1, 0, 0), None), ('T', (2001, 1, 1, 1, 0, 0), 0),
             ('D', (2000, 12, 31), -840), ('D', (2001, 1, 1), 840), ('D', (2001, 1, 1), None), ('t', (23, 0, 0), -300),
             ('t', (1, 0, 0), None)]
    for m in MODES:
        for a in vals:
            for b in vals:
                for op in OPS:
                    cases.append({'k': 'G', 'm': m, 'op': op, 'l': [a], 'r': [b]})
                    if m != 'v1':
                        cases.append({'k': 'V', 'm': m, 'op': op, 'l': [a], 'r': [b]})
    if run.quick:
        cases = cases[::3]
    svals = [v for v in vals if v[0] in 'sua']
    for m in ('v2c', 'v2', 'v31'):
        for a in svals:
            for b in svals:
                for op in OPS:
                    cases.append({'k': 'G', 'm': m, 'op': op, 'l': [a], 'r': [b], 'c': 'ci'})
                    cases.append({'k': 'V', 'm': m, 'op': op, 'l': [a], 'r': [b], 'c': 'ci'})
    for m in MODES:
        for a in vals:
            for f in ('boolean', 'not'):
                cases.append({'k': 'B', 'm': m, 'f': f, 'l': [a]})
                cases.append({'k': 'B', 'm': m, 'f': f, 'l': [a, a]})
                cases.append({'k': 'B', 'm': m, 'f': f, 'l': [('n', 'x'), a]})
    for i in range(0, len(cases), 6000):
        compare(sub, cases[i:i + 6000], count=False)
    run.notes.append(f'search: {len(cases)} singleton-matrix cases, {len(sub.disagreements)} disagreements')
    return sub.disagreements


def shrink(d: Disagreement) -> Disagreement:
    """drop operand items one at a time while the same kind of disagreement persists"""
    if isinstance(d.case, dict) and 'history' in d.case:
        key = d.case['line'] + '#' + str(d.case['failing_step'])
        if key not in _hist_by_key:
            return d
        h, i = _hist_by_key[key]
        best = {'vals': h['vals'], 'steps': h['steps'][:i + 1]}
        best_d = d
        changed = True
        while changed and len(best['steps']) > 1:
            changed = False
            for j in range(len(best['steps']) - 1):
                cand = {'vals': best['vals'], 'steps': best['steps'][:j] + best['steps'][j + 1:]}
                sub = Run(PROP, 'quick', 0)
                compare_histories(sub, [cand], count=False)
                hit = [x for x in sub.disagreements if x.what == d.what and x.case['failing_step'] == len(cand['steps']) - 1]
                if hit:
                    best, best_d, changed = cand, hit[0], True
                    break
        return best_d
    case = _case_by_line.get(d.case.get('line') if isinstance(d.case, dict) else None)
    if case is None:
        return d
    best, best_d = case, d
    changed = True
    while changed:
        changed = False
        for key in ('l', 'r'):
            if key not in best:
                continue
            for i in range(len(best[key])):
                cand = dict(best, **{key: best[key][:i] + best[key][i + 1:]})
                sub = Run(PROP, 'quick', 0)
                compare(sub, [cand], count=False)
                if sub.disagreements and sub.disagreements[0].kind == best_d.kind \
                        and sub.disagreements[0].what == best_d.what:
                    best, best_d = cand, sub.disagreements[0]
                    changed = True
                    break
            if changed:
                break
    return best_d


# ------------------------------------------------------------------------ translator
REP_ITEMS = [('i', 1), ('d', '1.5'), ('f', 2.0), ('g', 2.0), ('s', 'a'), ('u', 'a'), ('b', True), ('a', 'a'),
             ('q', '', '', 'a'), ('D', (2000, 1, 1)), ('T', (2000, 1, 1, 0, 0, 0)), ('t', (0, 0, 0)), ('P', 1, 1),
             ('Y', 1), ('S', 1), ('x', (65,)), ('y', (65,))]
REP_LEAN = ['.int 1', '.dec (3 / 2)', '.dbl (.fin 2)', '.flt (.fin 2)', '.str [97]', '.ua [97]', '.bool true',
            '.uri [97]', '.qn [] [] [97]', '.date ⟨5, none⟩', '.dtm ⟨5, none⟩', '.time ⟨5, none⟩', '.dur 1 1', '.ymd 1', '.dtd 1',
            '.hex [65]', '.b64 [65]']


def translate_tables(run: Run) -> dict:
    """isinstance / class-identity / subclass matrices of the live datatype classes, for one
    representative object per atomic type, against the classes named in the dispatch chains of
    iter_comparison_data and evaluate__value_comparison_operators -> lean/EPV/Gen/C07Tables.lean"""
    import decimal
    from elementpath import datatypes as dt
    from elementpath.datatypes import AnyAtomicType
    from harness.common import LEAN
    _, vals = build_values({'k': 'B', 'm': 'v2', 'f': 'boolean', 'l': list(REP_ITEMS)})
    objs = vals['a']
    classes = [('str', str), ('UntypedAtomic', dt.UntypedAtomic), ('AnyURI', dt.AnyURI), ('bool', bool),
               ('Integer', dt.Integer), ('AbstractQName', dt.AbstractQName), ('float', float),
               ('Decimal', decimal.Decimal), ('DoubleProxy10', dt.DoubleProxy10), ('int', int),
               ('Duration', dt.Duration), ('AbstractDateTime', dt.AbstractDateTime),
               ('AbstractBinary', dt.AbstractBinary), ('Float', dt.Float), ('AnyAtomicType', AnyAtomicType)]

    def b(x):
        return 'true' if x else 'false'
    out = ['/- GENERATED by harness/c07.py::translate_tables from the live /repo -- do not edit -/',
           'import EPV.Model.Compare', 'namespace EPV.Gen.C07', 'open EPV.Cmp', '',
           'def reps : List Atom := [' + ', '.join(REP_LEAN) + ']', '',
           '/-- `isinstance(rep_i, C)` for every representative (rows) and dispatch class (columns: ' +
           ', '.join(n for n, _ in classes) + ') -/',
           'def isinstanceTable : List (List Bool) := [' +
           ', '.join('[' + ', '.join(b(isinstance(o, c)) for _, c in classes) + ']' for o in objs) + ']', '',
           '/-- `type(rep_i) is type(rep_j)` -/',
           'def sameClassTable : List (List Bool) := [' +
           ', '.join('[' + ', '.join(b(type(x) is type(y)) for y in objs) + ']' for x in objs) + ']', '',
           '/-- `type(rep_j)` is a proper subclass of `type(rep_i)` -/',
           'def properSubclassTable : List (List Bool) := [' +
           ', '.join('[' + ', '.join(b(type(x) is not type(y) and issubclass(type(y), type(x))) for y in objs) + ']'
                     for x in objs) + ']',
           'end EPV.Gen.C07']
    gen = LEAN / 'EPV' / 'Gen' / 'C07Tables.lean'
    gen.parent.mkdir(exist_ok=True)
    text = '\n'.join(out) + '\n'
    if not gen.exists() or gen.read_text() != text:
        gen.write_text(text)
    return {'representatives': len(objs), 'dispatch_classes': [n for n, _ in classes]}


def body(run: Run) -> int:
    run.trusted_base += [
        'CPython float = IEEE-754 binary64, math.isclose, decimal.Decimal and str comparison semantics (modelled in '
        'EPV/Model/Compare.lean: toD64, isclose, dCmp, sCmp; toD64/isclose are cross-checked against CPython on every run)',
        'CPython rich-comparison protocol (reflected operands, subclass priority) as transcribed in pyBinop',
        'the W3C reading in EPV/Spec/FOCompare.lean (XPath 3.1 §3.7.1-2, XPath 2.0 §3.5.2, XPath 1.0 §3.4, F&O §7.3.1)']
    run.assumptions += [
        'untypedAtomic / node string values are drawn from a declared lexical fragment (plain decimal literals, NaN, '
        'INF, -INF, true/false, words); outside it the driver answers UNSUPPORTED and the case is skipped (counted)',
        'dates/times: proleptic Gregorian years (BCE included, no year 0 for the XSD 1.0 classes), explicit timezone '
        'optional; a missing timezone takes the implicit timezone of the dynamic context when the case sets one '
        '(z=), else is read as UTC; payload = (local seconds, offset); the local year is computed in the model by '
        'the calendar of the C11 specification and cross-checked against Python datetime on every run',
        'durations have whole seconds; xs:float values are binary32-representable, except in the tolerance block where '
        'a Float holds the double nearest to a decimal literal (as xs:float(\'1.00000001\') does)',
        'default collation = Unicode codepoint collation, or html-ascii-case-insensitive for the cases marked c=ci '
        '(a second parser per 2.0+ mode); locale (UCA) collations are not exercised: no locale is installed here']
    run.stats.extra['tables'] = translate_tables(run)
    run.trusted_base.append('translator harness/c07.py::translate_tables (isinstance / class matrices of the live '
                            'datatype classes printed as Lean literals)')
    run.prove(['EPV.Props.C07', 'EPV.Props.C07Tables', 'EPV.Props.C07SeqColl', 'EPV.Props.C07CompatColl'],
              ['EPV.Spec.FOCompare', 'EPV.Spec.FOCompareSeqC', 'EPV.Spec.FOCompareCompatC', 'EPV.Lemmas.CompareFindings'])
    try:
        if getattr(run, 'replay', None):
            import json
            rp = json.loads(Path(run.replay).read_text())
            run.notes.append('replay of ' + str(run.replay))
            ln = (rp.get('failing_input') or {}).get('case', {}).get('line')
            if ln:
                ans = run.driver('C07', [ln])
                print('replay line:', ln, '\nlean:', ans[0])
        correspond(run)
    except DriverError as e:
        run.broken.append('driver:C07 ' + str(e)[:300])
    return run.finish('proof', shrink=shrink, search=search)


if __name__ == '__main__':
    cli(PROP, body, translate=translate_tables)

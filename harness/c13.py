"""
C13 — Unicode code-point sets: set algebra, canonical form, category/block tables.

 translate : Unicode category tables of the *live* elementpath + unicodedata oracle + blocks
             -> lean/EPV/Gen/C13Tables.lean  (theorems over them are in EPV/Props/C13Tables.lean)
 prove     : EPV.Props.C13 (set algebra, any operation sequence), EPV.Props.C13Tables
 correspond: random operation sequences, real UnicodeSubset vs Lean model (representation
             list, step by step) vs Lean spec (membership bit-vector, canonical list)
 search    : exhaustive small-universe enumeration (all subsets of [0,7) x all single ops)
"""
from __future__ import annotations

import sys
import unicodedata
from pathlib import Path

sys.path.insert(0, str(Path(__file__).resolve().parent.parent))
from harness.common import (Run, Disagreement, cli, LEAN, DriverError)  # noqa: E402
from harness import c13_blocks  # noqa: E402

PROP = 'C13'
MAXCP1 = 0x110000


# ----------------------------------------------------------------------------- helpers
def estr(cp) -> str:
    return str(cp) if isinstance(cp, int) else f'{cp[0]}-{cp[1]}'


def lstr(l) -> str:
    return ','.join(estr(c) for c in l) if l else '_'


def canon_of_set(s: set[int]) -> list:
    out, run = [], None
    for x in sorted(s):
        if run and run[1] == x:
            run[1] = x + 1
        else:
            if run:
                out.append(run)
            run = [x, x + 1]
    if run:
        out.append(run)
    return [a if b == a + 1 else (a, b) for a, b in out]


def impl_list_str(l) -> str:
    def one(c):
        if isinstance(c, int) and not isinstance(c, bool):
            return str(c)
        if isinstance(c, (tuple, list)) and len(c) == 2:
            return f'{c[0]}-{c[1]}'
        return f'?{c!r}'
    return ','.join(one(c) for c in l) if l else '_'


def run_impl(base: int, n: int, init: list, ops: list[tuple[str, object]]):
    """returns per state (repr string, membership bits) for the initial state and after each op,
    and the complement list string"""
    from elementpath.regex.unicode_subsets import UnicodeSubset
    outs = []
    comp = 'ERR'
    u = UnicodeSubset(list(init))

    def snap():
        bits = ''.join('1' if (x in u) else '0' for x in range(base, base + n))
        # internal consistency of the container protocol (iteration / len / reversed)
        it = list(u)
        if set(it) != {x for x in it if x in u} or len(u) != len(it) or list(reversed(u)) != it[::-1]:
            return impl_list_str(u.codepoints) + '!iter', bits
        inwin = ''.join('1' if (x in set(it)) else '0' for x in range(base, base + n))
        if inwin != bits:
            return impl_list_str(u.codepoints) + '!iter-vs-contains', bits
        # equality is extensional (theorem eq_extensional): equal to the canonical list of its own
        # members and to a subset built from it, whatever the representation; different from the set
        # with one window point toggled
        members = set(it)
        canon = canon_of_set(members)
        other = canon_of_set(members ^ {base + (len(it) * 7 + len(outs)) % n})
        if not (u == canon) or not (u == UnicodeSubset(list(canon))) or not (UnicodeSubset(list(canon)) == u) \
                or (u == other) or (u == UnicodeSubset(list(other))) or (u != canon):
            return impl_list_str(u.codepoints) + '!eq-not-extensional', bits
        return impl_list_str(u.codepoints), bits

    try:
        outs.append(snap())
        for name, arg in ops:
            if name == 'add':
                u.add(arg)
            elif name == 'disc':
                u.discard(arg)
            elif name in ('upds', 'dupds'):
                from elementpath.regex.codepoints import RegexError
                try:
                    (u.update if name == 'upds' else u.difference_update)(arg)
                except RegexError:
                    r, b = snap()
                    outs.append(('ERR:RegexError ' + r, b))
                    continue
            elif name == 'rsubl':
                # reflected difference: a plain iterable on the left
                before_u = list(u.codepoints)
                r = (list(arg) if len(arg) % 2 else tuple(arg)) - u
                if r is u or list(u.codepoints) != before_u or r.codepoints is u.codepoints:
                    outs.append((impl_list_str(r.codepoints) + '!operand-mutated-or-aliased', ''))
                    break
                u = r
            elif name in ('iorself', 'isubself', 'iandself', 'ixorself'):
                # the operand is the subset itself (aliasing of the list that is being edited)
                if name == 'iorself':
                    u |= u
                elif name == 'isubself':
                    u -= u
                elif name == 'iandself':
                    u &= u
                else:
                    u ^= u
            elif name in ('upd', 'dupd'):
                entries, as_string = arg
                val = render_subset_string(entries) if as_string else list(entries)
                (u.update if name == 'upd' else u.difference_update)(val)
            elif name in ('bor', 'bsub', 'band', 'bxor'):
                # non in-place operators: a NEW subset is returned, both operands stay as they were
                o = UnicodeSubset(list(arg))
                before_u, before_o = list(u.codepoints), list(o.codepoints)
                r = {'bor': u.__or__, 'bsub': u.__sub__, 'band': u.__and__, 'bxor': u.__xor__}[name](o)
                if r is u or r is o or list(u.codepoints) != before_u or list(o.codepoints) != before_o \
                        or r.codepoints is u.codepoints or r.codepoints is o.codepoints:
                    outs.append((impl_list_str(r.codepoints) + '!operand-mutated-or-aliased', ''))
                    break
                u = r
            elif name == 'copyclear':
                # copy() must be independent of the original: clearing / adding to the copy leaves u unchanged
                c2 = u.copy()
                before_u = list(u.codepoints)
                c2.add(arg)
                c3 = UnicodeSubset(u)
                c3.clear()
                if list(u.codepoints) != before_u or c2.codepoints is u.codepoints or len(c3) != 0:
                    outs.append((impl_list_str(u.codepoints) + '!copy-aliased', ''))
                    break
            elif name in ('iorl', 'isubl', 'iandl', 'ixorl'):
                o = list(arg)        # plain iterable operand
                if name == 'iorl':
                    u |= o
                elif name == 'isubl':
                    u -= o
                elif name == 'iandl':
                    u &= o
                else:
                    u ^= o
            else:
                o = UnicodeSubset(list(arg))
                if name == 'ior':
                    u |= o
                elif name == 'isub':
                    u -= o
                elif name == 'iand':
                    u &= o
                elif name == 'ixor':
                    u ^= o
            outs.append(snap())
        comp = impl_list_str(list(u.complement()))
    except Exception as e:  # anything the container raises is part of its behaviour
        outs.append((f'ERR:{type(e).__name__}', ''))
    return outs, comp


def render_subset_string(entries) -> str:
    """regex character-subset text of an entry list (only used on windows of letters/CJK, where no
    character needs escaping): `a` for an int, `a-c` for the range (ord(a), ord(c)+1)"""
    return ''.join(chr(c) if isinstance(c, int) else f'{chr(c[0])}-{chr(c[1] - 1)}' for c in entries)


def argstr(name, arg) -> str:
    if name in ('add', 'disc'):
        return estr(arg)
    if name in ('upd', 'dupd'):
        return lstr(arg[0])
    if name in ('upds', 'dupds'):
        return '.'.join(str(ord(c)) for c in arg) or '.'
    if name.endswith('self'):
        return '_'
    return lstr(arg)


PROTO_NAME = {'bor': 'ior', 'bsub': 'isub', 'band': 'iand', 'bxor': 'ixor'}


def line_of(base, n, init, ops) -> str:
    # the value-level meaning of `a | b` is that of `a |= b` on a copy; `copyclear` leaves the state alone
    o = ';'.join((f'{PROTO_NAME.get(name, name)} {argstr(name, arg)}' if name != 'copyclear' else 'isub _')
                 for name, arg in ops)
    return f'W={base},{n} I={lstr(init)} OPS={o};'


# --------------------------------------------------------------------------- generator
def gen_entry(rng, base, n):
    a = base + rng.randrange(n)
    r = rng.random()
    if r < 0.4:
        return a
    ln = 1 if r < 0.5 else rng.choice([2, 2, 3, 4, 5, 8, 12])
    b = min(a + ln, base + n)
    if b <= a:
        return a
    return (a, b)


ESCAPABLE = '-|.^?*+{}()[]\\'


def gen_subset_string(rng, base, n) -> str:
    """character-subset text over the window: single characters, ranges, single-character escapes;
    a literal hyphen is written escaped unless first/last; sometimes a reversed range (invalid)"""
    def atom(c):
        ch = chr(c)
        if ch in '[]\\':
            return '\\' + ch
        if ch == '-':
            return '\\-'
        if ch in ESCAPABLE and rng.random() < 0.4:
            return '\\' + ch
        return ch
    if rng.random() < 0.3:
        # free text: any mixture of window characters, hyphens, backslashes, brackets and specials --
        # mostly outside the grammar (lenient zone / errors); ties the parser model to the code there
        # (only characters of the window, so that every set stays inside it)
        alphabet = [chr(base + rng.randrange(n)) for _ in range(4)] + \
            [c for c in list('--\\\\[]^+*{(') + ['s', 'd', 'a'] if base <= ord(c) < base + n]
        return ''.join(rng.choice(alphabet) for _ in range(rng.randint(0, 7)))
    items = []
    for _ in range(rng.randint(0, 5)):
        a = base + rng.randrange(n)
        if rng.random() < 0.5:
            items.append(atom(a))
        else:
            b = min(a + rng.choice([0, 1, 2, 3, 6]), base + n - 1)
            if rng.random() < 0.06 and b > a:
                a, b = b, a
            items.append(atom(a) + '-' + atom(b))
    if rng.random() < 0.15 and base <= 45 < base + n:
        (items.insert if rng.random() < 0.5 else (lambda i, x: items.append(x)))(0, '-')
    return ''.join(items)


def gen_canon_list(rng, base, n, density):
    s = {base + i for i in range(n) if rng.random() < density}
    # runs make ranges likely
    if rng.random() < 0.7:
        for _ in range(rng.randrange(4)):
            a = base + rng.randrange(n)
            s |= set(range(a, min(a + rng.randrange(1, 7), base + n)))
    return canon_of_set(s)


def gen_case(rng, quick=True):
    hi = rng.random() < 0.15
    n = rng.choice([12, 16, 24, 40])
    base = (MAXCP1 - n) if hi else rng.choice([0, 0, 40, 40, 60, 97, 0x4E00])
    if base == 40:     # 40..63: punctuation and digits; 40..127: also letters, [ \ ] ^ { | }
        n = rng.choice([24, 88])
    if base == 97:
        n = min(n, 24)
    stringable = base in (97, 0x4E00)
    init = gen_canon_list(rng, base, n, rng.choice([0, 0.1, 0.3])) if rng.random() < 0.8 else []
    ops = []
    safe_only = rng.random() < 0.35   # sequences biased to merges that are far apart
    for _ in range(rng.randint(1, 25 if not quick else 14)):
        r = rng.random()
        if r < 0.45:
            ops.append(('add', gen_entry(rng, base, n)))
        elif r < 0.70:
            ops.append(('disc', gen_entry(rng, base, n)))
        elif r < 0.76:
            # binary operator with a plain list operand (arbitrary order, entries may overlap)
            entries = [gen_entry(rng, base, n) for _ in range(rng.randint(0, 5))]
            if rng.random() < 0.5:   # non-overlapping variant: outside the trigger of F13d
                seen, keep = set(), []
                for e in entries:
                    pts = {e} if isinstance(e, int) else set(range(*e))
                    if not (pts & seen):
                        keep.append(e)
                        seen |= pts
                entries = keep
            ops.append((rng.choice(['iorl', 'isubl', 'iandl', 'ixorl', 'ixorl']), entries))
        elif r < 0.80 and base in (40, 97):
            ops.append((rng.choice(['upds', 'upds', 'dupds']), gen_subset_string(rng, base, n)))
        elif r < 0.86:
            # update()/difference_update() with an arbitrary (unsorted, possibly overlapping) iterable
            # of entries, or with the equivalent character-subset string
            entries = [gen_entry(rng, base, n) for _ in range(rng.randint(0, 6))]
            ops.append((rng.choice(['upd', 'upd', 'dupd']), (entries, stringable and rng.random() < 0.5)))
        elif r < 0.87:
            ops.append(('copyclear', gen_entry(rng, base, n)))
        elif r < 0.89:
            ops.append((rng.choice(['iorself', 'isubself', 'iandself', 'ixorself']), None))
        elif r < 0.91:
            ops.append(('rsubl', [gen_entry(rng, base, n) for _ in range(rng.randint(0, 6))]))
        else:
            name = rng.choice(['ior', 'isub', 'iand', 'ixor', 'bor', 'bsub', 'band', 'bxor'])
            ops.append((name, gen_canon_list(rng, base, n, rng.choice([0.05, 0.2, 0.5]))))
    if safe_only:
        ops = [(a, (b if not (isinstance(b, tuple) and len(b) == 2 and isinstance(b[0], int) and b[1] - b[0] == 1)
                    else b[0])) for a, b in ops]
    return base, n, init, ops


CORPUS = [
    (0, 16, [(1, 3), (5, 7)], [('add', (2, 9))]),                       # F13b
    (0, 16, [(1, 3), (4, 6)], [('add', 3)]),                            # F13b (touching)
    (0, 12, [], [('add', (5, 6))]),                                     # F13a
    (0, 12, [], [('add', 5), ('add', 7), ('add', 6)]),
    (0, 40, [], [('add', 20), ('add', 19), ('add', 30), ('add', (30, 33)), ('add', 22), ('add', 21), ('add', 22)]),
    (0, 12, [(0, 12)], [('disc', (3, 5)), ('disc', 0), ('disc', 11), ('add', (3, 5))]),
    (MAXCP1 - 12, 12, [], [('add', MAXCP1 - 1), ('disc', MAXCP1 - 1), ('add', (MAXCP1 - 3, MAXCP1))]),
    (0, 12, [1, 3, 5], [('ixor', [(0, 6)]), ('iand', [2, 4]), ('isub', [2])]),
    (97, 20, [], [('upd', ([97, 99, 98, (101, 104)], True)), ('dupd', ([(98, 100)], True)), ('upd', ([(100, 102), 100], False))]),
    (0, 16, [2], [('upd', ([(4, 6), 5, (5, 8), 1], False)), ('dupd', ([7, 6, (0, 3)], False))]),
    (0, 16, [(0, 10)], [('ixorl', [(1, 5), (3, 7)])]),                                   # F13d
    (40, 24, [], [('upds', '0-9+-/'), ('dupds', '\\-1'), ('upds', '9-0'), ('upds', '(-*.-0'), ('upds', '-+'), ('dupds', '3-5-')]),
    (40, 88, [], [('upds', '0-\\\\\\['), ('dupds', 'Z-\\\\'), ('upds', 'a-b--c'), ('upds', '\\a'), ('upds', '['),
                  ('upds', 'a[b'), ('dupds', '\\[-\\]'), ('upds', 'P-\\'), ('upds', 'a-\\d'), ('upds', '^-a-')]),   # F13g, lenient zone
    (0, 16, [1, (3, 6), 8, (10, 13)], [('isubself', None)]),
    (0, 16, [1, (3, 6), 8, (10, 13)], [('iorself', None), ('iandself', None), ('ixorself', None)]),
    (48, 8, [50], [('rsubl', [49, 50, 51])]),                                            # F13h
    (48, 8, [50, (52, 54)], [('rsubl', [(49, 54), 50, (48, 50)])]),
    (97, 24, [(97, 120)], [('ixorl', [(97, 100)]), ('iandl', [(100, 110), 99]), ('iorl', [98, (97, 99)]), ('isubl', [(105, 120), 104])]),
]


# ----------------------------------------------------------------------- correspondence
def compare(run: Run, cases: list) -> None:
    lines = [line_of(*c) for c in cases]
    answers = run.driver('C13', lines)
    st = run.stats
    for case, line, ans in zip(cases, lines, answers):
        base, n, init, ops = case
        impl, icomp = run_impl(base, n, init, ops)
        if ans.startswith('bad-'):
            run.disagree(Disagreement(line, 'driver:' + ans, what='protocol'))
            continue
        parts = ans.split('|')
        mcomp = parts[-1][2:]
        states = [p.split('#') for p in parts[:-1]]
        st.case(line, nontrivial=len(ops) > 0)
        st.count(f'ops={min(len(ops), 20)//5*5}+')
        for name, _ in ops:
            st.count('op:' + name)
        if base:
            st.count('high-window')
        for k, (m_repr, s_bits, s_canon, safe, okd) in enumerate(states):
            merr = serr = suns = False
            while m_repr.startswith(('MERR ', 'SERR ', 'SUNS ')):
                merr, serr = merr or m_repr.startswith('MERR '), serr or m_repr.startswith('SERR ')
                suns = suns or m_repr.startswith('SUNS ')
                m_repr = m_repr[5:]
            if k and ops[k - 1][0] in ('upds', 'dupds'):
                st.count('string:' + ('unspec(lenient zone)' if suns else 'grammar-error' if serr else 'grammar-ok'))
            if k < len(impl) and (merr or serr or impl[k][0].startswith('ERR:RegexError ')):
                # character-subset string rejected by somebody: where the grammar speaks (ok / error) the
                # implementation must follow it (theorems subset_string_accepted / _rejected are about the
                # model); in the lenient zone only model = implementation is required
                i_err = impl[k][0].startswith('ERR:RegexError ')
                st.count('string-rejected' if i_err else 'string-accepted-spec-rejects')
                prefix = line_of(base, n, init, ops[:k])
                if not suns and i_err != serr:
                    run.disagree(Disagreement(prefix, 'RegexError' if i_err else 'accepted', None,
                                              spec='RegexError' if serr else 'accepted',
                                              what='subset-string-validity', site='iterparse_character_subset'))
                    break
                if i_err != merr:
                    run.disagree(Disagreement(prefix, 'RegexError' if i_err else 'accepted',
                                              'RegexError' if merr else 'accepted', what='subset-string-validity'))
                    break
                if i_err:
                    impl[k] = (impl[k][0][len('ERR:RegexError '):], impl[k][1])
            if k >= len(impl):
                run.disagree(Disagreement(line, 'missing-state', m_repr, what='codepoints-list'))
                break
            i_repr, i_bits = impl[k]
            prefix = line_of(base, n, init, ops[:k])
            if i_repr.endswith(('!operand-mutated-or-aliased', '!copy-aliased')):
                run.disagree(Disagreement(prefix, i_repr, m_repr, spec=s_canon + ' (operands unchanged, new object)',
                                          what='operator-purity', site='UnicodeSubset.__or__/__sub__/__and__/__xor__/copy'))
                break
            if i_repr.startswith('ERR') or i_repr.endswith(('!iter', '!iter-vs-contains', '!eq-not-extensional')):
                run.disagree(Disagreement(prefix, i_repr, m_repr, spec=s_canon, what='exception-or-iter',
                                          site='UnicodeSubset'))
                break
            if i_bits != s_bits:
                run.disagree(Disagreement(prefix, i_bits, None, spec=s_bits, what='membership',
                                          site=f'UnicodeSubset.{ops[k-1][0] if k else "init"}',
                                          tags=['F13d'] if okd == '0' else []))
                if okd == '0' and i_repr == m_repr:
                    st.count('F13d-state')
                    continue      # known finding: keep following the model (the tie is still checked)
                break
            if i_repr != s_canon:
                st.count('noncanonical-state')
                tags = ['F13'] if safe == '0' else []
                run.disagree(Disagreement(prefix, i_repr, m_repr, spec=s_canon, what='canonical-form',
                                          site='UnicodeSubset.add', tags=tags))
                # keep going: later states are still compared for membership
            else:
                st.count('canonical-state')
            if i_repr != m_repr:
                run.disagree(Disagreement(prefix, i_repr, m_repr, what='codepoints-list'))
                break
        else:
            if icomp != mcomp:
                # spec for the complement: membership over the window is the negation
                run.disagree(Disagreement(line + ' complement', icomp, mcomp, what='complement-list'))
            st.count('complement-compared')


def correspond(run: Run) -> None:
    rng = run.rng
    n = run.scale(1500, 30000)
    cases = list(CORPUS) + [gen_case(rng, run.quick) for _ in range(n)]
    # string family: character-subset texts only (grammar texts, errors and free text), window 40..127
    for _ in range(run.scale(600, 12000)):
        init = gen_canon_list(rng, 40, 88, rng.choice([0, 0.1])) if rng.random() < 0.5 else []
        cases.append((40, 88, init, [(rng.choice(['upds', 'upds', 'dupds']), gen_subset_string(rng, 40, 88))
                                     for _ in range(rng.randint(1, 6))]))
    run.stats.rule = ('operation sequences (1..14 quick / 1..25 thorough ops: add, discard, |=, -=, &=, ^=, update, '
                      'difference_update with int / range / subset / arbitrary iterable / character-subset string arguments) over windows of 12..40 code points at 0, 60 and just '
                      'below maxunicode, from canonical initial lists; after every op the codepoints list, '
                      'membership of every window point, len/iter/reversed and finally complement() are compared. '
                      'distinct = distinct request lines with at least one op')
    for i in range(0, len(cases), 4000):
        compare(run, cases[i:i + 4000])


def search(run: Run):
    """exhaustive: all subsets of [0,7) as canonical lists x every single add/discard with
    entries inside [0,8) x every binary operator with every subset of [0,5)"""
    from itertools import combinations
    sub = Run(PROP, run.tier, run.seed)
    cases = []
    universe = list(range(7))
    subsets = [set(c) for k in range(8) for c in combinations(universe, k)]
    entries = [a for a in range(8)] + [(a, b) for a in range(8) for b in range(a + 1, 9)]
    for s in subsets:
        init = canon_of_set(s)
        for e in entries:
            cases.append((0, 10, init, [('add', e)]))
            cases.append((0, 10, init, [('disc', e)]))
    small = [canon_of_set(set(c)) for k in range(6) for c in combinations(range(5), k)]
    for s in subsets[::3]:
        for o in small:
            for name in ('ior', 'isub', 'iand', 'ixor'):
                cases.append((0, 10, canon_of_set(s), [(name, o)]))
    for i in range(0, len(cases), 5000):
        compare(sub, cases[i:i + 5000])
    run.notes.append(f'search: {len(cases)} exhaustive small-universe cases, '
                     f'{len(sub.disagreements)} disagreements')
    return sub.disagreements


def shrink(d: Disagreement) -> Disagreement:
    return d   # prefixes are already minimal in length (first failing step); see compare()


# ----------------------------------------------------------------------------- tables
def translate_tables(run: Run) -> dict:
    """Emit the live category tables, the unicodedata oracle and the block table."""
    from elementpath.regex import unicode_subsets as us
    from elementpath.regex import unicode_blocks
    cats = {}
    names = ['C', 'Cc', 'Cf', 'Cs', 'Co', 'Cn', 'L', 'Lu', 'Ll', 'Lt', 'Lm', 'Lo', 'M', 'Mn', 'Mc', 'Me',
             'N', 'Nd', 'Nl', 'No', 'P', 'Pc', 'Pd', 'Ps', 'Pe', 'Pi', 'Pf', 'Po', 'S', 'Sm', 'Sc', 'Sk',
             'So', 'Z', 'Zs', 'Zl', 'Zp']
    impl_missing = []
    for k in names:
        try:
            cats[k] = list(us.unicode_category(k).codepoints)
        except KeyError:
            impl_missing.append(k)
            cats[k] = []
    # independent oracle
    oracle_sets: dict[str, list] = {k: [] for k in names}
    prev_cat, start = None, 0
    for cp in range(MAXCP1 + 1):
        cat = unicodedata.category(chr(cp)) if cp < MAXCP1 else None
        if cat != prev_cat:
            if prev_cat is not None:
                oracle_sets[prev_cat].append((start, cp))
            prev_cat, start = cat, cp
    oracle = {}
    for k in names:
        if len(k) == 2:
            oracle[k] = [a if b == a + 1 else (a, b) for a, b in oracle_sets[k]]
    for k in names:
        if len(k) == 1:
            s = sorted(r for kk in names if len(kk) == 2 and kk[0] == k for r in oracle_sets[kk])
            merged = []
            for a, b in s:
                if merged and merged[-1][1] == a:
                    merged[-1][1] = b
                else:
                    merged.append([a, b])
            oracle[k] = [a if b == a + 1 else (a, b) for a, b in merged]
    # blocks of the installed version
    data = us.UnicodeData()
    blocks = []
    for name in sorted(set(data._unicode_blocks.values())):     # blocks of the installed version,
        v = data._blocks[name.replace(' ', '').replace('_', '')]  # superseded aliases excluded
        sub = us.UnicodeSubset(v) if not isinstance(v, us.UnicodeSubset) else v
        blocks.append((name, list(sub.codepoints)))
    blocks.sort(key=lambda b: (b[1][0] if isinstance(b[1][0], int) else b[1][0][0]) if b[1] else -1)

    # block tables of older versions, installed AFTER newer ones in this same process: the version
    # machinery must not leak blocks of one installation into another (history independence)
    import warnings as _w
    hist = []
    for v in ('16.0.0', '6.0.0', '3.0.0', '2.1.9', us.unicode_version()):
        with _w.catch_warnings():
            _w.simplefilter('ignore')
            dv = us.UnicodeData(v)
        bl = []
        for name in sorted(set(dv._unicode_blocks.values())):
            val = dv._blocks[name.replace(' ', '').replace('_', '')]
            sub = us.UnicodeSubset(val) if not isinstance(val, us.UnicodeSubset) else val
            bl.append(list(sub.codepoints))
        hist.append((v, bl))

    def lean_list(l):
        def one(c):
            return f'.one {c}' if isinstance(c, int) else f'.rng {c[0]} {c[1]}'
        return '[' + ', '.join(one(c) for c in l) + ']'

    def lean_def(name, l, out):
        """`def name : List CP := …`; long lists are split into chunk definitions (a single
        literal of > ~1000 entries exceeds the elaborator's recursion limit)"""
        if len(l) <= 400:
            out.append(f'def {name} : List CP := {lean_list(l)}')
            return
        parts = []
        for i in range(0, len(l), 400):
            parts.append(f'{name}_part{i // 400}')
            out.append(f'def {parts[-1]} : List CP := {lean_list(l[i:i + 400])}')
        out.append(f'def {name} : List CP := ' + ' ++ '.join(parts))

    out = ['/- GENERATED by harness/c13.py from the live /repo and unicodedata -- do not edit -/',
           'import EPV.Model.UnicodeSubset', 'namespace EPV.Gen.C13', 'open EPV.USet', '',
           f'def unicodeVersion : String := "{us.unicode_version()}"',
           f'def unidataVersion : String := "{unicodedata.unidata_version}"', '']
    # the tables the package builds itself from `unicodedata` when a version older than the shipped
    # data is installed (categories_fallback.get_unicodedata_categories, reached through
    # UnicodeData('12.1.0')): they must equal the oracle too
    import warnings as _w2
    with _w2.catch_warnings():
        _w2.simplefilter('ignore')
        fb_data = us.UnicodeData('12.1.0')
    fb = {}
    for k in names:
        try:
            fb[k] = list(fb_data.categories[k].codepoints) if hasattr(fb_data, 'categories') \
                else list(fb_data._categories[k].codepoints)
        except Exception:
            fb[k] = []
    for k in names:
        lean_def(f'impl_{k}', cats[k], out)
        lean_def(f'oracle_{k}', oracle[k], out)
        lean_def(f'fallback_{k}', fb[k], out)
    out.append('')
    out.append('def fallbackTables : List (String × List CP) := [' +
               ', '.join(f'("{k}", fallback_{k})' for k in names) + ']')
    out.append('def implTables : List (String × List CP) := [' +
               ', '.join(f'("{k}", impl_{k})' for k in names) + ']')
    out.append('def oracleTables : List (String × List CP) := [' +
               ', '.join(f'("{k}", oracle_{k})' for k in names) + ']')
    # certificate for "major = union of subcategories": the subcategory entries merged by first
    # code point (the kernel checks that it is an interleaving of the subcategory tables, that it is
    # sorted, and that merging touching entries gives the major table -- nothing here is trusted)
    for k in names:
        if len(k) == 1:
            flat = sorted((c for kk in names if len(kk) == 2 and kk[0] == k for c in cats[kk]),
                          key=lambda c: c if isinstance(c, int) else c[0])
            lean_def(f'flat_{k}', flat, out)
    out.append('def majors : List (List CP × List CP × List (List CP)) := [' + ', '.join(
        f'(impl_{k}, flat_{k}, [' + ', '.join(f'impl_{kk}' for kk in names if len(kk) == 2 and kk[0] == k) + '])'
        for k in names if len(k) == 1) + ']')
    out.append('def minors : List (List CP) := [' +
               ', '.join(f'impl_{k}' for k in names if len(k) == 2) + ']')
    out.append('def blocks : List (String × List CP) := [' +
               ', '.join(f'("{n}", {lean_list(l)})' for n, l in blocks) + ']')
    out.append('def histBlocks : List (String × List (List CP)) := [' + ', '.join(
        f'("{v}", [' + ', '.join(lean_list(b) for b in bl) + '])' for v, bl in hist) + ']')
    out.append('end EPV.Gen.C13')
    gen = LEAN / 'EPV' / 'Gen' / 'C13Tables.lean'
    gen.parent.mkdir(exist_ok=True)
    text = '\n'.join(out) + '\n'
    if not gen.exists() or gen.read_text() != text:
        gen.write_text(text)
    info = {'unicode_version': us.unicode_version(), 'categories': len(names),
            'ranges_total': sum(len(v) for v in cats.values()), 'blocks': len(blocks),
            'impl_missing_categories': impl_missing}
    # python-side diff, used only to *locate* a failing code point when the theorem breaks
    diffs = []
    for k in names:
        if cats[k] != oracle[k]:
            a = set()
            for l, sgn in ((cats[k], 1), (oracle[k], -1)):
                for c in l:
                    lo, hi = (c, c + 1) if isinstance(c, int) else c
                    a ^= set(range(lo, hi))
            diffs.append((k, sorted(a)[:3]))
    for k in names:
        if fb[k] != oracle[k]:
            a = set()
            for l in (fb[k], oracle[k]):
                for c in l:
                    lo, hi = (c, c + 1) if isinstance(c, int) else c
                    a ^= set(range(lo, hi))
            diffs.append((k + ' (fallback builder, UnicodeData(12.1.0))', sorted(a)[:3] or ['representation']))
    info['python_side_table_diffs'] = diffs
    ov = []
    for v, bl in hist + [('installed', [l for _, l in blocks])]:
        ents = sorted(((c, c + 1) if isinstance(c, int) else tuple(c)) for b in bl for c in b)
        for a, b2 in zip(ents, ents[1:]):
            if a[1] > b2[0]:
                ov.append([v, b2[0], min(a[1], b2[1])])
    info['block_overlaps_quick'] = ov
    return info


def parse_line(line: str):
    """inverse of line_of (used by --replay)"""
    def ent(t):
        a = t.split('-')
        return int(a[0]) if len(a) == 1 else (int(a[0]), int(a[1]))

    def ents(t):
        return [] if t in ('_', '') else [ent(x) for x in t.split(',')]
    head, _, ops_s = line.partition(' OPS=')
    f = dict(kv.split('=', 1) for kv in head.split(' '))
    base, n = map(int, f['W'].split(','))
    ops = []
    for o in filter(None, ops_s.replace(' complement', '').split(';')):
        name, arg = o.strip().split(' ', 1)
        ops.append((name, ent(arg) if name in ('add', 'disc') else
                    ((ents(arg), False) if name in ('upd', 'dupd') else ents(arg))))
    return base, n, ents(f['I']), ops


def replay(run: Run) -> int:
    import json
    data = json.loads(open(run.replay).read())
    fi = data.get('failing_input')
    if fi and isinstance(fi.get('case'), dict) and 'block_history' in fi['case']:
        c13_blocks.block_histories(run, only=fi['case']['block_history'])
        for d in run.disagreements:
            print('REPRODUCED', d.to_json())
        print('replayed block history', fi['case']['block_history'], '->',
              'still failing' if run.disagreements else 'no longer failing')
        return 1 if run.disagreements else 0
    if not fi or not isinstance(fi.get('case'), str):
        print('replay file names no concrete input:', data.get('broken'))
        return 1
    case = parse_line(fi['case'])
    compare(run, [case])
    bad = [d for d in run.disagreements if not (d.kind == 'violation' and 'F13' in d.tags)]
    for d in bad:
        print('REPRODUCED', d.to_json())
    print('replayed', fi['case'], '->', 'still failing' if bad else 'no longer failing')
    return 1 if bad else 0


CAT_NAMES = ['C', 'Cc', 'Cf', 'Cs', 'Co', 'Cn', 'L', 'Lu', 'Ll', 'Lt', 'Lm', 'Lo', 'M', 'Mn', 'Mc', 'Me',
             'N', 'Nd', 'Nl', 'No', 'P', 'Pc', 'Pd', 'Ps', 'Pe', 'Pi', 'Pf', 'Po', 'S', 'Sm', 'Sc', 'Sk',
             'So', 'Z', 'Zs', 'Zl', 'Zp']


def translate_all_versions(run: Run) -> dict:
    """thorough tier: category tables of every version the package ships real data for, and the
    block tables of all 32 installable versions -> EPV/Gen/C13V.lean (theorems: EPV/Props/ThoroughC13V.lean)"""
    import warnings
    from elementpath.regex import unicode_subsets as us, unicode_categories

    def lst(l):
        return '[' + ', '.join(f'.one {c}' if isinstance(c, int) else f'.rng {c[0]} {c[1]}' for c in l) + ']'
    out = ['/- GENERATED by harness/c13.py (thorough tier) from the live /repo -- do not edit -/',
           'import EPV.Model.UnicodeSubset', 'namespace EPV.Gen.C13V', 'open EPV.USet', '']
    vt, vb = [], []
    info = {'category_versions': [], 'block_versions': []}
    try:
        for v in us.UNICODE_VERSIONS:
            with warnings.catch_warnings():
                warnings.simplefilter('ignore')
                us.install_unicode_data(v)
            tag = v.replace('.', '_')
            data = us.UnicodeData(v) if v in unicode_categories.UNICODE_VERSIONS else None
            d2 = us.UnicodeData.__new__(us.UnicodeData)
            with warnings.catch_warnings():
                warnings.simplefilter('ignore')
                d2.__init__(v)
            blocks = []
            for name in sorted(set(d2._unicode_blocks.values())):
                val = d2._blocks[name.replace(' ', '').replace('_', '')]
                sub = us.UnicodeSubset(val) if not isinstance(val, us.UnicodeSubset) else val
                blocks.append(list(sub.codepoints))
            blocks.sort(key=lambda b: (b[0] if isinstance(b[0], int) else b[0][0]) if b else -1)
            # python-side overlap finder: only used to name a concrete code point when the theorem breaks
            ents = sorted(((c, c + 1) if isinstance(c, int) else tuple(c)) for b in blocks for c in b)
            for a, b2 in zip(ents, ents[1:]):
                if a[1] > b2[0]:
                    info.setdefault('block_overlaps', []).append([v, b2[0], min(a[1], b2[1])])
            out.append(f'def blocks_{tag} : List (List CP) := [' + ', '.join(lst(b) for b in blocks) + ']')
            vb.append(f'("{v}", blocks_{tag})')
            info['block_versions'].append(v)
            if data is None:
                continue        # no shipped category data for this version (falls back to unicodedata)
            cats = {k: list(us.unicode_category(k).codepoints) for k in CAT_NAMES}
            for k in CAT_NAMES:
                l = cats[k]
                parts = []
                for i in range(0, max(len(l), 1), 400):
                    parts.append(f't_{tag}_{k}_{i // 400}')
                    out.append(f'def {parts[-1]} : List CP := {lst(l[i:i + 400])}')
                out.append(f'def t_{tag}_{k} : List CP := ' + ' ++ '.join(parts))
            for k in CAT_NAMES:
                if len(k) == 1:
                    flat = sorted((c for kk in CAT_NAMES if len(kk) == 2 and kk[0] == k for c in cats[kk]),
                                  key=lambda c: c if isinstance(c, int) else c[0])
                    parts = []
                    for i in range(0, max(len(flat), 1), 400):
                        parts.append(f'f_{tag}_{k}_{i // 400}')
                        out.append(f'def {parts[-1]} : List CP := {lst(flat[i:i + 400])}')
                    out.append(f'def f_{tag}_{k} : List CP := ' + ' ++ '.join(parts))
            majors = ', '.join(f'(t_{tag}_{k}, f_{tag}_{k}, [' + ', '.join(
                f't_{tag}_{kk}' for kk in CAT_NAMES if len(kk) == 2 and kk[0] == k) + '])'
                for k in CAT_NAMES if len(k) == 1)
            out.append(f'def majors_{tag} : List (List CP × List CP × List (List CP)) := [{majors}]')
            out.append(f'def all_{tag} : List (List CP) := [' + ', '.join(f't_{tag}_{k}' for k in CAT_NAMES) + ']')
            vt.append(f'("{v}", majors_{tag}, all_{tag})')
            info['category_versions'].append(v)
    finally:
        us.install_unicode_data()
    out.append('def versionTables : List (String × List (List CP × List CP × List (List CP)) × List (List CP)) := ['
               + ', '.join(vt) + ']')
    out.append('def versionBlocks : List (String × List (List CP)) := [' + ', '.join(vb) + ']')
    out.append('end EPV.Gen.C13V')
    gen = LEAN / 'EPV' / 'Gen' / 'C13V.lean'
    text = '\n'.join(out) + '\n'
    if not gen.exists() or gen.read_text() != text:
        gen.write_text(text)
    return info


def install_histories(run: Run) -> None:
    """Histories of install_unicode_data(): after EVERY installation (version only, or the same /
    another version from an alternative categories module) every consumer must see the installed
    tables: the \\d and \\w shortcut subsets (lazily cached in unicode_subsets), unicode_subset(),
    unicode_category().  Spec: shortcut(d) = category Nd, shortcut(w) = L ∪ M ∪ N ∪ S of the data
    installed NOW; membership is compared on the code points where the tables differ."""
    import os
    import shutil
    import tempfile
    import warnings
    from elementpath.regex import unicode_subsets as us
    from elementpath.regex import character_classes as cc
    st = run.stats
    tmpdir = tempfile.mkdtemp(prefix='c13verif')
    rng = run.rng

    def views():
        nd = set(us.unicode_category('Nd'))
        w = set()
        for k in 'LMNS':
            w |= set(us.unicode_category(k))
        return nd, w

    def check(hist):
        nd, w = views()
        d = set(cc.d_shortcut())
        ww = set(cc.w_shortcut())
        sub = set(us.unicode_subset('Nd'))
        cls = set(cc.CharacterClass(r'\d'))
        st.case({'install_history': hist}, nontrivial=True)
        st.count('install-history-step')
        for label, got, exp in (('\\d shortcut', d, nd), ('\\w shortcut', ww, w), ("unicode_subset('Nd')", sub, nd),
                                ('CharacterClass(\\d)', cls, nd)):
            if got != exp:
                diff = sorted(got ^ exp)[:4]
                run.disagree(Disagreement({'install_history': hist, 'view': label, 'codepoints': diff},
                                          impl=f'{label} differs from the installed table on {diff}',
                                          spec='equal to the installed category data',
                                          what='installed-data-visible', site='unicode_subsets.install_unicode_data / lazy_subset cache'))
                return False
        return True

    try:
        with warnings.catch_warnings():
            warnings.simplefilter('ignore')
            us.install_unicode_data()
            version = us.unicode_version()
            names = ['Cc', 'Cf', 'Cs', 'Co', 'Cn', 'Lu', 'Ll', 'Lt', 'Lm', 'Lo', 'Mn', 'Mc', 'Me', 'Nd', 'Nl', 'No',
                     'Pc', 'Pd', 'Ps', 'Pe', 'Pi', 'Pf', 'Po', 'Sm', 'Sc', 'Sk', 'So', 'Zs', 'Zl', 'Zp',
                     'C', 'L', 'M', 'N', 'P', 'S', 'Z']
            # alternative tables for the SAME version: one code point moved No -> Nd (U+2460), and
            # another variant moving a punctuation mark into Sm (changes \w)
            mods = []
            for tag, moves in (('a', [(0x2460, 'No', 'Nd')]), ('b', [(0x2460, 'No', 'Nd'), (0x21, 'Po', 'Sm')])):
                table = {k: us.unicode_category(k).copy() for k in names}
                for cp, src, dst in moves:
                    table[src].discard(cp)
                    table[dst].add(cp)
                    if src[0] != dst[0]:
                        table[src[0]].discard(cp)
                        table[dst[0]].add(cp)
                name = f'c13verif_{tag}_unicode_categories'
                with open(os.path.join(tmpdir, name + '.py'), 'w') as fp:
                    fp.write(f'UNICODE_VERSIONS = [{version!r}]\n'
                             f'UNICODE_CATEGORIES = {({k: list(v.codepoints) for k, v in table.items()})!r}\n')
                mods.append(name)
            sys.path.append(tmpdir)
            steps_pool = [(None, None), (version, None), ('16.0.0', None), ('13.0.0', None),
                          (version, mods[0]), (version, mods[1])]
            for _ in range(run.scale(6, 40)):
                hist = []
                us.install_unicode_data()
                check(['default'])          # first use builds the lazy cache
                for _ in range(rng.randint(2, 5)):
                    v, m = rng.choice(steps_pool)
                    us.install_unicode_data(v, m)
                    hist.append([v, m])
                    if not check(list(hist)):
                        return
    except Exception as e:      # the history machinery itself must not mask a verdict
        run.disagree(Disagreement({'install_history': 'exception'}, impl=f'ERR:{type(e).__name__}:{e}',
                                  spec='installations succeed', what='installed-data-visible'))
    finally:
        with warnings.catch_warnings():
            warnings.simplefilter('ignore')
            us.install_unicode_data()
        if tmpdir in sys.path:
            sys.path.remove(tmpdir)
        shutil.rmtree(tmpdir, ignore_errors=True)


def body(run: Run) -> int:
    if getattr(run, 'replay', None):
        return replay(run)
    info = translate_tables(run)
    run.stats.extra['tables'] = info
    try:
        run.stats.extra['block_derivation'] = c13_blocks.translate_blocks(run)
    except Exception as e:      # noqa  (mutated code must not crash the harness)
        run.broken.append(f'translator:C13 block derivation {type(e).__name__}: {e}'[:300])
    run.trusted_base += ['translator harness/c13.py::translate_tables (prints live tables as Lean literals)',
                         'unicodedata of the running CPython as the category oracle']
    run.assumptions += ['Python set/int semantics in the harness', 'character-subset texts outside the XSD group grammar (lenient zone) are tied to the model only, no specification']
    props = ['EPV.Props.C13', 'EPV.Props.C13Str', 'EPV.Props.C13Tables', 'EPV.Props.C13Blocks']
    if not run.quick:
        run.stats.extra['all_versions'] = translate_all_versions(run)
        props.append('EPV.Props.ThoroughC13V')
    run.prove(props, ['EPV.Spec.SetSpec', 'EPV.Spec.CharGroupStrict', 'EPV.Model.CharSubsetParse'])
    for v, lo, hi in run.stats.extra.get('all_versions', {}).get('block_overlaps', []):
        known = v in ('2.1.8', '2.1.5', '2.1.2', '2.0.0') and (lo, hi) == (65279, 65280)
        run.disagree(Disagreement({'unicode_version': v, 'codepoints': [lo, hi]}, impl='in two blocks',
                                  spec='in at most one block', what='blocks-disjoint',
                                  site='unicode_blocks', tags=['F13c'] if known else []))
    table_viol = []
    for k, cps in info['python_side_table_diffs']:
        # a code point on which the installed table and unicodedata.category disagree
        table_viol.append(Disagreement({'category': k, 'codepoints': cps},
                                       impl=f'in-table({k})', spec=f'unicodedata', what='category-table',
                                       site='unicode_categories'))
    for v, lo, hi in info['block_overlaps_quick']:
        table_viol.append(Disagreement({'unicode_version': v, 'codepoints': [lo, hi],
                                        'install_history': ['16.0.0', '6.0.0', '3.0.0', '2.1.9', 'default']},
                                       impl='in two blocks', spec='in at most one block',
                                       what='blocks-disjoint', site='unicode_subsets.UnicodeData / unicode_blocks'))
    for d in table_viol:
        run.disagree(d)
    install_histories(run)
    try:
        c13_blocks.block_histories(run)
    except DriverError as e:
        run.broken.append('driver:C13 ' + str(e)[:300])
    try:
        correspond(run)
    except DriverError as e:
        run.broken.append('driver:C13 ' + str(e)[:300])
    return run.finish('proof', shrink=shrink, search=search)


if __name__ == '__main__':
    cli(PROP, body, translate=lambda run: (translate_tables(run), c13_blocks.translate_blocks(run)))

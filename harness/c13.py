"""
C13 — Unicode code-point sets: set algebra, canonical form, category/block tables.

 translate : Unicode category tables of the *live* elementpath + unicodedata oracle + blocks
             -> lean/EPV/Gen/C13Tables.lean  (theorems over them are in EPV/Props/C13Tables.lean)
 prove     : EPV.Props.C13 (set algebra, any operation sequence), EPV.Props.C13Tables
 correspond: random operation sequences, real UnicodeSubset vs Lean model (representation
             list, step by step) vs Lean spec (membership bit-vector, canonical list)
 search    : exhaustive small-universe enumeration (all subsets of [0,7) x all single ops)
"""
from __future__ import annotations

import sys
import unicodedata
from pathlib import Path

sys.path.insert(0, str(Path(__file__).resolve().parent.parent))
from harness.common import (Run, Disagreement, cli, LEAN, DriverError)  # noqa: E402

PROP = 'C13'
MAXCP1 = 0x110000


# ----------------------------------------------------------------------------- helpers
def estr(cp) -> str:
    return str(cp) if isinstance(cp, int) else f'{cp[0]}-{cp[1]}'


def lstr(l) -> str:
    return ','.join(estr(c) for c in l) if l else '_'


def canon_of_set(s: set[int]) -> list:
    out, run = [], None
    for x in sorted(s):
        if run and run[1] == x:
            run[1] = x + 1
        else:
            if run:
                out.append(run)
            run = [x, x + 1]
    if run:
        out.append(run)
    return [a if b == a + 1 else (a, b) for a, b in out]


def impl_list_str(l) -> str:
    def one(c):
        if isinstance(c, int) and not isinstance(c, bool):
            return str(c)
        if isinstance(c, (tuple, list)) and len(c) == 2:
            return f'{c[0]}-{c[1]}'
        return f'?{c!r}'
    return ','.join(one(c) for c in l) if l else '_'


def run_impl(base: int, n: int, init: list, ops: list[tuple[str, object]]):
    """returns per state (repr string, membership bits) for the initial state and after each op,
    and the complement list string"""
    from elementpath.regex.unicode_subsets import UnicodeSubset
    outs = []
    comp = 'ERR'
    u = UnicodeSubset(list(init))

    def snap():
        bits = ''.join('1' if (x in u) else '0' for x in range(base, base + n))
        # internal consistency of the container protocol (iteration / len / reversed)
        it = list(u)
        if set(it) != {x for x in it if x in u} or len(u) != len(it) or list(reversed(u)) != it[::-1]:
            return impl_list_str(u.codepoints) + '!iter', bits
        inwin = ''.join('1' if (x in set(it)) else '0' for x in range(base, base + n))
        if inwin != bits:
            return impl_list_str(u.codepoints) + '!iter-vs-contains', bits
        return impl_list_str(u.codepoints), bits

    try:
        outs.append(snap())
        for name, arg in ops:
            if name == 'add':
                u.add(arg)
            elif name == 'disc':
                u.discard(arg)
            elif name in ('upd', 'dupd'):
                entries, as_string = arg
                val = render_subset_string(entries) if as_string else list(entries)
                (u.update if name == 'upd' else u.difference_update)(val)
            else:
                o = UnicodeSubset(list(arg))
                if name == 'ior':
                    u |= o
                elif name == 'isub':
                    u -= o
                elif name == 'iand':
                    u &= o
                elif name == 'ixor':
                    u ^= o
            outs.append(snap())
        comp = impl_list_str(list(u.complement()))
    except Exception as e:  # anything the container raises is part of its behaviour
        outs.append((f'ERR:{type(e).__name__}', ''))
    return outs, comp


def render_subset_string(entries) -> str:
    """regex character-subset text of an entry list (only used on windows of letters/CJK, where no
    character needs escaping): `a` for an int, `a-c` for the range (ord(a), ord(c)+1)"""
    return ''.join(chr(c) if isinstance(c, int) else f'{chr(c[0])}-{chr(c[1] - 1)}' for c in entries)


def argstr(name, arg) -> str:
    if name in ('add', 'disc'):
        return estr(arg)
    if name in ('upd', 'dupd'):
        return lstr(arg[0])
    return lstr(arg)


def line_of(base, n, init, ops) -> str:
    o = ';'.join(f'{name} {argstr(name, arg)}' for name, arg in ops)
    return f'W={base},{n} I={lstr(init)} OPS={o};'


# --------------------------------------------------------------------------- generator
def gen_entry(rng, base, n):
    a = base + rng.randrange(n)
    r = rng.random()
    if r < 0.4:
        return a
    ln = 1 if r < 0.5 else rng.choice([2, 2, 3, 4, 5, 8, 12])
    b = min(a + ln, base + n)
    if b <= a:
        return a
    return (a, b)


def gen_canon_list(rng, base, n, density):
    s = {base + i for i in range(n) if rng.random() < density}
    # runs make ranges likely
    if rng.random() < 0.7:
        for _ in range(rng.randrange(4)):
            a = base + rng.randrange(n)
            s |= set(range(a, min(a + rng.randrange(1, 7), base + n)))
    return canon_of_set(s)


def gen_case(rng, quick=True):
    hi = rng.random() < 0.15
    n = rng.choice([12, 16, 24, 40])
    base = (MAXCP1 - n) if hi else rng.choice([0, 0, 60, 97, 0x4E00])
    if base == 97:
        n = min(n, 24)
    stringable = base in (97, 0x4E00)
    init = gen_canon_list(rng, base, n, rng.choice([0, 0.1, 0.3])) if rng.random() < 0.8 else []
    ops = []
    safe_only = rng.random() < 0.35   # sequences biased to merges that are far apart
    for _ in range(rng.randint(1, 25 if not quick else 14)):
        r = rng.random()
        if r < 0.45:
            ops.append(('add', gen_entry(rng, base, n)))
        elif r < 0.70:
            ops.append(('disc', gen_entry(rng, base, n)))
        elif r < 0.82:
            # update()/difference_update() with an arbitrary (unsorted, possibly overlapping) iterable
            # of entries, or with the equivalent character-subset string
            entries = [gen_entry(rng, base, n) for _ in range(rng.randint(0, 6))]
            ops.append((rng.choice(['upd', 'upd', 'dupd']), (entries, stringable and rng.random() < 0.5)))
        else:
            name = rng.choice(['ior', 'isub', 'iand', 'ixor'])
            ops.append((name, gen_canon_list(rng, base, n, rng.choice([0.05, 0.2, 0.5]))))
    if safe_only:
        ops = [(a, (b if not (isinstance(b, tuple) and len(b) == 2 and isinstance(b[0], int) and b[1] - b[0] == 1)
                    else b[0])) for a, b in ops]
    return base, n, init, ops


CORPUS = [
    (0, 16, [(1, 3), (5, 7)], [('add', (2, 9))]),                       # F13b
    (0, 16, [(1, 3), (4, 6)], [('add', 3)]),                            # F13b (touching)
    (0, 12, [], [('add', (5, 6))]),                                     # F13a
    (0, 12, [], [('add', 5), ('add', 7), ('add', 6)]),
    (0, 40, [], [('add', 20), ('add', 19), ('add', 30), ('add', (30, 33)), ('add', 22), ('add', 21), ('add', 22)]),
    (0, 12, [(0, 12)], [('disc', (3, 5)), ('disc', 0), ('disc', 11), ('add', (3, 5))]),
    (MAXCP1 - 12, 12, [], [('add', MAXCP1 - 1), ('disc', MAXCP1 - 1), ('add', (MAXCP1 - 3, MAXCP1))]),
    (0, 12, [1, 3, 5], [('ixor', [(0, 6)]), ('iand', [2, 4]), ('isub', [2])]),
    (97, 20, [], [('upd', ([97, 99, 98, (101, 104)], True)), ('dupd', ([(98, 100)], True)), ('upd', ([(100, 102), 100], False))]),
    (0, 16, [2], [('upd', ([(4, 6), 5, (5, 8), 1], False)), ('dupd', ([7, 6, (0, 3)], False))]),
]


# ----------------------------------------------------------------------- correspondence
def compare(run: Run, cases: list) -> None:
    lines = [line_of(*c) for c in cases]
    answers = run.driver('C13', lines)
    st = run.stats
    for case, line, ans in zip(cases, lines, answers):
        base, n, init, ops = case
        impl, icomp = run_impl(base, n, init, ops)
        if ans.startswith('bad-'):
            run.disagree(Disagreement(line, 'driver:' + ans, what='protocol'))
            continue
        parts = ans.split('|')
        mcomp = parts[-1][2:]
        states = [p.split('#') for p in parts[:-1]]
        st.case(line, nontrivial=len(ops) > 0)
        st.count(f'ops={min(len(ops), 20)//5*5}+')
        for name, _ in ops:
            st.count('op:' + name)
        if base:
            st.count('high-window')
        for k, (m_repr, s_bits, s_canon, safe) in enumerate(states):
            if k >= len(impl):
                run.disagree(Disagreement(line, 'missing-state', m_repr, what='codepoints-list'))
                break
            i_repr, i_bits = impl[k]
            prefix = line_of(base, n, init, ops[:k])
            if i_repr.startswith('ERR') or i_repr.endswith(('!iter', '!iter-vs-contains')):
                run.disagree(Disagreement(prefix, i_repr, m_repr, spec=s_canon, what='exception-or-iter',
                                          site='UnicodeSubset'))
                break
            if i_bits != s_bits:
                run.disagree(Disagreement(prefix, i_bits, None, spec=s_bits, what='membership',
                                          site=f'UnicodeSubset.{ops[k-1][0] if k else "init"}'))
                break
            if i_repr != s_canon:
                st.count('noncanonical-state')
                tags = ['F13'] if safe == '0' else []
                run.disagree(Disagreement(prefix, i_repr, m_repr, spec=s_canon, what='canonical-form',
                                          site='UnicodeSubset.add', tags=tags))
                # keep going: later states are still compared for membership
            else:
                st.count('canonical-state')
            if i_repr != m_repr:
                run.disagree(Disagreement(prefix, i_repr, m_repr, what='codepoints-list'))
                break
        else:
            if icomp != mcomp:
                # spec for the complement: membership over the window is the negation
                run.disagree(Disagreement(line + ' complement', icomp, mcomp, what='complement-list'))
            st.count('complement-compared')


def correspond(run: Run) -> None:
    rng = run.rng
    n = run.scale(1500, 30000)
    cases = list(CORPUS) + [gen_case(rng, run.quick) for _ in range(n)]
    run.stats.rule = ('operation sequences (1..14 quick / 1..25 thorough ops: add, discard, |=, -=, &=, ^=, update, '
                      'difference_update with int / range / subset / arbitrary iterable / character-subset string arguments) over windows of 12..40 code points at 0, 60 and just '
                      'below maxunicode, from canonical initial lists; after every op the codepoints list, '
                      'membership of every window point, len/iter/reversed and finally complement() are compared. '
                      'distinct = distinct request lines with at least one op')
    for i in range(0, len(cases), 4000):
        compare(run, cases[i:i + 4000])


def search(run: Run):
    """exhaustive: all subsets of [0,7) as canonical lists x every single add/discard with
    entries inside [0,8) x every binary operator with every subset of [0,5)"""
    from itertools import combinations
    sub = Run(PROP, run.tier, run.seed)
    cases = []
    universe = list(range(7))
    subsets = [set(c) for k in range(8) for c in combinations(universe, k)]
    entries = [a for a in range(8)] + [(a, b) for a in range(8) for b in range(a + 1, 9)]
    for s in subsets:
        init = canon_of_set(s)
        for e in entries:
            cases.append((0, 10, init, [('add', e)]))
            cases.append((0, 10, init, [('disc', e)]))
    small = [canon_of_set(set(c)) for k in range(6) for c in combinations(range(5), k)]
    for s in subsets[::3]:
        for o in small:
            for name in ('ior', 'isub', 'iand', 'ixor'):
                cases.append((0, 10, canon_of_set(s), [(name, o)]))
    for i in range(0, len(cases), 5000):
        compare(sub, cases[i:i + 5000])
    run.notes.append(f'search: {len(cases)} exhaustive small-universe cases, '
                     f'{len(sub.disagreements)} disagreements')
    return sub.disagreements


def shrink(d: Disagreement) -> Disagreement:
    return d   # prefixes are already minimal in length (first failing step); see compare()


# ----------------------------------------------------------------------------- tables
def translate_tables(run: Run) -> dict:
    """Emit the live category tables, the unicodedata oracle and the block table."""
    from elementpath.regex import unicode_subsets as us
    from elementpath.regex import unicode_blocks
    cats = {}
    names = ['C', 'Cc', 'Cf', 'Cs', 'Co', 'Cn', 'L', 'Lu', 'Ll', 'Lt', 'Lm', 'Lo', 'M', 'Mn', 'Mc', 'Me',
             'N', 'Nd', 'Nl', 'No', 'P', 'Pc', 'Pd', 'Ps', 'Pe', 'Pi', 'Pf', 'Po', 'S', 'Sm', 'Sc', 'Sk',
             'So', 'Z', 'Zs', 'Zl', 'Zp']
    impl_missing = []
    for k in names:
        try:
            cats[k] = list(us.unicode_category(k).codepoints)
        except KeyError:
            impl_missing.append(k)
            cats[k] = []
    # independent oracle
    oracle_sets: dict[str, list] = {k: [] for k in names}
    prev_cat, start = None, 0
    for cp in range(MAXCP1 + 1):
        cat = unicodedata.category(chr(cp)) if cp < MAXCP1 else None
        if cat != prev_cat:
            if prev_cat is not None:
                oracle_sets[prev_cat].append((start, cp))
            prev_cat, start = cat, cp
    oracle = {}
    for k in names:
        if len(k) == 2:
            oracle[k] = [a if b == a + 1 else (a, b) for a, b in oracle_sets[k]]
    for k in names:
        if len(k) == 1:
            s = sorted(r for kk in names if len(kk) == 2 and kk[0] == k for r in oracle_sets[kk])
            merged = []
            for a, b in s:
                if merged and merged[-1][1] == a:
                    merged[-1][1] = b
                else:
                    merged.append([a, b])
            oracle[k] = [a if b == a + 1 else (a, b) for a, b in merged]
    # blocks of the installed version
    data = us.UnicodeData()
    blocks = []
    for name in sorted(set(data._unicode_blocks.values())):     # blocks of the installed version,
        v = data._blocks[name.replace(' ', '').replace('_', '')]  # superseded aliases excluded
        sub = us.UnicodeSubset(v) if not isinstance(v, us.UnicodeSubset) else v
        blocks.append((name, list(sub.codepoints)))
    blocks.sort(key=lambda b: (b[1][0] if isinstance(b[1][0], int) else b[1][0][0]) if b[1] else -1)

    def lean_list(l):
        def one(c):
            return f'.one {c}' if isinstance(c, int) else f'.rng {c[0]} {c[1]}'
        return '[' + ', '.join(one(c) for c in l) + ']'

    def lean_def(name, l, out):
        """`def name : List CP := …`; long lists are split into chunk definitions (a single
        literal of > ~1000 entries exceeds the elaborator's recursion limit)"""
        if len(l) <= 400:
            out.append(f'def {name} : List CP := {lean_list(l)}')
            return
        parts = []
        for i in range(0, len(l), 400):
            parts.append(f'{name}_part{i // 400}')
            out.append(f'def {parts[-1]} : List CP := {lean_list(l[i:i + 400])}')
        out.append(f'def {name} : List CP := ' + ' ++ '.join(parts))

    out = ['/- GENERATED by harness/c13.py from the live /repo and unicodedata -- do not edit -/',
           'import EPV.Model.UnicodeSubset', 'namespace EPV.Gen.C13', 'open EPV.USet', '',
           f'def unicodeVersion : String := "{us.unicode_version()}"',
           f'def unidataVersion : String := "{unicodedata.unidata_version}"', '']
    for k in names:
        lean_def(f'impl_{k}', cats[k], out)
        lean_def(f'oracle_{k}', oracle[k], out)
    out.append('')
    out.append('def implTables : List (String × List CP) := [' +
               ', '.join(f'("{k}", impl_{k})' for k in names) + ']')
    out.append('def oracleTables : List (String × List CP) := [' +
               ', '.join(f'("{k}", oracle_{k})' for k in names) + ']')
    # certificate for "major = union of subcategories": the subcategory entries merged by first
    # code point (the kernel checks that it is an interleaving of the subcategory tables, that it is
    # sorted, and that merging touching entries gives the major table -- nothing here is trusted)
    for k in names:
        if len(k) == 1:
            flat = sorted((c for kk in names if len(kk) == 2 and kk[0] == k for c in cats[kk]),
                          key=lambda c: c if isinstance(c, int) else c[0])
            lean_def(f'flat_{k}', flat, out)
    out.append('def majors : List (List CP × List CP × List (List CP)) := [' + ', '.join(
        f'(impl_{k}, flat_{k}, [' + ', '.join(f'impl_{kk}' for kk in names if len(kk) == 2 and kk[0] == k) + '])'
        for k in names if len(k) == 1) + ']')
    out.append('def minors : List (List CP) := [' +
               ', '.join(f'impl_{k}' for k in names if len(k) == 2) + ']')
    out.append('def blocks : List (String × List CP) := [' +
               ', '.join(f'("{n}", {lean_list(l)})' for n, l in blocks) + ']')
    out.append('end EPV.Gen.C13')
    gen = LEAN / 'EPV' / 'Gen' / 'C13Tables.lean'
    gen.parent.mkdir(exist_ok=True)
    text = '\n'.join(out) + '\n'
    if not gen.exists() or gen.read_text() != text:
        gen.write_text(text)
    info = {'unicode_version': us.unicode_version(), 'categories': len(names),
            'ranges_total': sum(len(v) for v in cats.values()), 'blocks': len(blocks),
            'impl_missing_categories': impl_missing}
    # python-side diff, used only to *locate* a failing code point when the theorem breaks
    diffs = []
    for k in names:
        if cats[k] != oracle[k]:
            a = set()
            for l, sgn in ((cats[k], 1), (oracle[k], -1)):
                for c in l:
                    lo, hi = (c, c + 1) if isinstance(c, int) else c
                    a ^= set(range(lo, hi))
            diffs.append((k, sorted(a)[:3]))
    info['python_side_table_diffs'] = diffs
    return info


def parse_line(line: str):
    """inverse of line_of (used by --replay)"""
    def ent(t):
        a = t.split('-')
        return int(a[0]) if len(a) == 1 else (int(a[0]), int(a[1]))

    def ents(t):
        return [] if t in ('_', '') else [ent(x) for x in t.split(',')]
    head, _, ops_s = line.partition(' OPS=')
    f = dict(kv.split('=', 1) for kv in head.split(' '))
    base, n = map(int, f['W'].split(','))
    ops = []
    for o in filter(None, ops_s.replace(' complement', '').split(';')):
        name, arg = o.strip().split(' ', 1)
        ops.append((name, ent(arg) if name in ('add', 'disc') else
                    ((ents(arg), False) if name in ('upd', 'dupd') else ents(arg))))
    return base, n, ents(f['I']), ops


def replay(run: Run) -> int:
    import json
    data = json.loads(open(run.replay).read())
    fi = data.get('failing_input')
    if not fi or not isinstance(fi.get('case'), str):
        print('replay file names no concrete input:', data.get('broken'))
        return 1
    case = parse_line(fi['case'])
    compare(run, [case])
    bad = [d for d in run.disagreements if not (d.kind == 'violation' and 'F13' in d.tags)]
    for d in bad:
        print('REPRODUCED', d.to_json())
    print('replayed', fi['case'], '->', 'still failing' if bad else 'no longer failing')
    return 1 if bad else 0


def body(run: Run) -> int:
    if getattr(run, 'replay', None):
        return replay(run)
    info = translate_tables(run)
    run.stats.extra['tables'] = info
    run.trusted_base += ['translator harness/c13.py::translate_tables (prints live tables as Lean literals)',
                         'unicodedata of the running CPython as the category oracle']
    run.assumptions += ['Python set/int semantics in the harness', 'string arguments of update() only over letters/CJK (no escapes): iterparse_character_subset escapes are not modelled']
    run.prove(['EPV.Props.C13', 'EPV.Props.C13Tables'], ['EPV.Spec.SetSpec'])
    table_viol = []
    for k, cps in info['python_side_table_diffs']:
        # a code point on which the installed table and unicodedata.category disagree
        table_viol.append(Disagreement({'category': k, 'codepoints': cps},
                                       impl=f'in-table({k})', spec=f'unicodedata', what='category-table',
                                       site='unicode_categories'))
    for d in table_viol:
        run.disagree(d)
    try:
        correspond(run)
    except DriverError as e:
        run.broken.append('driver:C13 ' + str(e)[:300])
    return run.finish('proof', shrink=shrink, search=search)


if __name__ == '__main__':
    cli(PROP, body, translate=translate_tables)

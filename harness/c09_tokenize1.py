"""C09 extension: the one-argument form of fn:tokenize (XPath 3.1, F&O 3.1 5.6.4) — a pure string function.

Real code  : elementpath/xpath2/_xpath2_functions.py evaluate__tokenize, branch `len(self) == 1`
Lean model : EPV.Strings.fnTokenize1       (EPV/Model/StringsTokenize1.lean)
Lean spec  : EPV.FOStrings.fnTokenize1     (= tokenize(normalize-space($s), ' ')), second reading `maxRuns`
Theorems   : EPV/Props/C09Tokenize1.lean
Driver op  : `tok1|<code points or ->`  ->  model|spec|holds FF/VT|spec(max runs)|branch

Every case (a string, or the empty sequence) is evaluated with XPath31Parser in several forms and compared
with model and spec; the law `tokenize($s) = tokenize(normalize-space($s), ' ')` is also evaluated by the
engine itself and compared with the spec (this ties the `' '` regex step, which the model takes as
`str.split(' ')`).  F09o (FF / VT treated as white space) is FIXED (branch fix-c09-5): nothing is tagged, the
theorem `tokenize1_eq_spec` holds for every string; the flag `hasFfVt` only feeds the input histogram.
"""
from __future__ import annotations

from harness.common import Run, Disagreement

SITE = 'elementpath/xpath2/_xpath2_functions.py evaluate__tokenize (one-argument form)'

LETTERS = [97, 98, 120, 65, 49]
XMLWS = [32, 32, 32, 9, 10, 13]
FFVT = [0x0C, 0x0B]
OTHERWS = [0xA0, 0x2003, 0x3000, 0x85, 0x2028, 0x2029, 0x1C, 0x1D, 0x1E, 0x1F, 0x200B, 0x1680, 0x202F, 0xFEFF]
ODD = [0x1F600, 0x10FFFF, 0x301, 0, 0xD800, 0xFFFE, 0x7F, 8]

CORPUS = ['', ' ', '\t\r\n ', 'a', 'abc', ' a  b\tc\n', '\r\n x ', 'a b', ' a', 'a ', 'a  b', 'a\x0cb', '\x0b', ' \x0c ',
          '\x0ca', 'a\x0b', 'a \x0c b', 'a\xa0b', 'a b c', '　a ', 'a\x85b', 'a b c', ' \xa0 ',
          'a\x1cb', 'a\x1fb', 'a\x1db \x1e', 'red green  blue', 'a\x00b c', '\U0001F600 \U0001F600', None]


def gen(rng):
    r = rng.random()
    if r < 0.03:
        return None
    alpha = list(rng.sample(LETTERS, rng.randint(1, 3))) + list(rng.sample(XMLWS, rng.randint(1, 4)))
    if rng.random() < 0.22:
        alpha += rng.sample(FFVT, rng.randint(1, 2))
    if rng.random() < 0.35:
        alpha += rng.sample(OTHERWS, rng.randint(1, 3))
    if rng.random() < 0.12:
        alpha += rng.sample(ODD, rng.randint(1, 2))
    n = rng.choice([0, 1, 1, 2, 2, 3, 3, 4, 5, 6, 8, 10, 12, 16])
    return ''.join(chr(rng.choice(alpha)) for _ in range(n))


def line_of(s) -> str:
    return 'tok1|' + ('-' if s is None else ' '.join(str(ord(c)) for c in s))


def show(v) -> str:
    if isinstance(v, str):
        v = [v]
    if isinstance(v, list) and all(isinstance(x, str) for x in v):
        return 'T:' + (';'.join(' '.join(str(ord(c)) for c in t) for t in v) if v else '-')
    return 'OTHER:' + type(v).__name__ + ':' + repr(v)[:80]


def forms(s):
    """(name, expression, kind) — kind 'var' uses $s, 'node' uses an element whose text is s"""
    out = [('tokenize($s)', 'tokenize($s)', 'var'),
           ('tokenize#1($s)', 'tokenize#1($s)', 'var'),
           ('fn:tokenize($s)[true()]', 'fn:tokenize($s)[true()]', 'var'),
           ('token.evaluate', 'tokenize($s)', 'tok')]
    if s is not None:
        out.append(('$s ! tokenize(.)', '$s ! tokenize(.)', 'var'))
        out.append(('tokenize(.) on element', 'tokenize(.)', 'node'))
        out.append(('for $t in tokenize($s) return $t', 'for $t in tokenize($s) return $t', 'var'))
    else:
        out.append(('tokenize(())', 'tokenize(())', 'var'))
    return out


def make_eval(err_canon):
    import xml.etree.ElementTree as ET
    import elementpath
    from elementpath.xpath31 import XPath31Parser
    root = ET.XML('<a/>')

    def ev(s, expr, kind):
        try:
            var = {'s': [] if s is None else s}
            if kind == 'node':
                e = ET.Element('w')
                e.text = s
                r = elementpath.select(e, expr, parser=XPath31Parser)
            elif kind == 'tok':
                tok = XPath31Parser().parse(expr)
                r = tok.evaluate(elementpath.XPathContext(root, variables=var))
            else:
                r = elementpath.select(root, expr, parser=XPath31Parser, variables=var)
            return show(r)
        except Exception as ex:  # every exception is observed behaviour
            return err_canon(ex)
    return ev


def check_cases(run: Run, cases: list, ev, count: bool = True) -> list:
    """compare; returns the list of (case string, what) that disagreed (used by the local shrink)"""
    answers = run.driver('C09', [line_of(s) for s in cases])
    bad = []
    st = run.stats
    for s, a in zip(cases, answers):
        f = a.split('|')
        if len(f) != 5:
            run.broken.append('driver:C09 tok1 bad answer ' + a[:80])
            continue
        model, spec, trig, runs, branch = f
        trig = trig == '1'
        case = {'op': 'tok1', 'args': [None if s is None else [ord(c) for c in s]]}
        if count:
            st.case(case, nontrivial=bool(s))
            st.count('tok1:branch:' + branch)
            st.count('tok1:holds-FF-or-VT' if trig else 'tok1:no-FF-VT')
            if s and any(ord(c) in OTHERWS for c in s):
                st.count('tok1:has-non-XML-space-character')
        if spec != runs:
            run.broken.append('spec:C09 tokenize#1 two readings differ on ' + line_of(s))
        if model != spec:   # theorem tokenize1_eq_spec
            run.broken.append('model:C09 tok1 model differs from spec on ' + line_of(s))
        for name, expr, kind in forms(s):
            impl = ev(s, expr, kind)
            if count:
                st.evaluations += 1
                st.count('tok1:form:' + name)
            c2 = dict(case, form=name, expr=expr, string=s)
            if impl != spec:
                run.disagree(Disagreement(c2, impl, model, spec, what='tokenize-1-arg', site=SITE))
                bad.append((s, name))
            elif impl != model:
                run.disagree(Disagreement(c2, impl, model, spec, what='tokenize-1-arg-model', site=SITE))
                bad.append((s, name))
        # the law, evaluated by the engine itself, must be the spec (inside the trigger too)
        law = ev(s, "tokenize(normalize-space($s), ' ')", 'var')
        if count:
            st.evaluations += 1
            st.count('tok1:form:law tokenize(normalize-space($s), " ")')
        if law != spec:
            run.disagree(Disagreement(dict(case, form='law', expr="tokenize(normalize-space($s), ' ')", string=s),
                                      law, None, spec, what='tokenize-law-vs-spec', site=SITE))
            bad.append((s, 'law'))
    return bad


def shrink_local(run: Run, s: str, ev) -> None:
    """greedy character deletion of a failing string; the shrunk case is reported first"""
    if not s:
        return
    cur = s
    for _ in range(20):
        cands = [cur[:i] + cur[i + 1:] for i in range(len(cur))]
        cands = list(dict.fromkeys(cands))
        sub = Run(run.prop, run.tier, run.seed)
        bad = check_cases(sub, cands, ev, count=False)
        nxt = next((b[0] for b in bad), None)
        if nxt is None:
            break
        cur = nxt
    if cur != s:
        sub = Run(run.prop, run.tier, run.seed)
        check_cases(sub, [cur], ev, count=False)
        run.disagreements[:0] = list(sub.disagreements)


def tokenize1_pass(run: Run, n: int, err_canon) -> None:
    ev = make_eval(err_canon)
    rng = run.rng
    cases = list(CORPUS) + [gen(rng) for _ in range(n)]
    bad = check_cases(run, cases, ev)
    # XPath 3.0 and 2.0 have no one-argument form
    from elementpath import XPath2Parser, select
    from elementpath.xpath30 import XPath30Parser
    import xml.etree.ElementTree as ET
    for P in (XPath2Parser, XPath30Parser):
        try:
            got = show(select(ET.XML('<a/>'), 'tokenize($s)', parser=P, variables={'s': 'a b'}))
        except Exception as ex:
            got = err_canon(ex)
        run.stats.count('tok1:no-one-argument-form-before-3.1')
        if got != 'ERR:XPST0017':
            run.disagree(Disagreement({'op': 'tok1', 'parser': P.__name__, 'expr': 'tokenize($s)'}, got, None, 'ERR:XPST0017',
                                      what='tokenize-1-arg-before-3.1', site=SITE))
    if bad:
        shrink_local(run, min((b[0] for b in bad if b[0]), key=len, default=''), ev)


def tokenize1_search(run: Run, err_canon) -> list:
    """exhaustive small scope: every string over {a, SP, TAB, FF, NBSP} up to length 5 (3906 strings) + ()"""
    from itertools import product
    ev = make_eval(err_canon)
    sub = Run(run.prop, run.tier, run.seed)
    strs = [''.join(p) for k in range(6) for p in product('a \t\x0c\xa0', repeat=k)]
    check_cases(sub, strs + [None], ev, count=False)
    run.notes.append(f'search: tokenize#1 on {len(strs) + 1} exhaustive small-scope strings, '
                     f'{len(sub.disagreements)} disagreements')
    return sub.disagreements

"""
C03 — parse and evaluate fail only with ElementPathError; parsers stay reusable.

 translate : live symbol tables (special symbols, labels) of the four parsers, the class graph of
             elementpath/exceptions.py, XPATH_ERROR_CODES, the AST shape of Parser.parse /
             XPath1Parser.parse (what is reset in `finally`), the writers of the cursor attributes
             -> lean/EPV/Gen/C03Tables.lean   (theorems over them: EPV/Props/C03Tables.lean)
 prove     : EPV.Props.C03 (parse_resets, history_independent, advance_total, xpath_error_total ...)
 correspond: (a) histories of parse calls on ONE instance vs fresh instances vs the Lean cursor model
             (b) every tokenizer match of generated sources: real Parser.advance vs Lean lexer model
             (t) xpath_error() on table/mutated codes vs the Lean model of its decision tree
 explore   : (c) malformed / ill-typed stream, oracle "returns or raises coded ElementPathError, no hang"
             -- exploration, reported as such in the evidence, not a proof
"""
from __future__ import annotations

import json
import os
import select as _select
import signal
import subprocess
import sys
import threading
import time
import traceback
from pathlib import Path

sys.path.insert(0, str(Path(__file__).resolve().parent.parent))
from harness.common import (Run, Disagreement, cli, LEAN, VERIF, REPO, DriverError)  # noqa: E402
from harness import c03_gen as G  # noqa: E402

PROP = 'C03'
VERSIONS = G.VERSIONS
SPEC_OK = 'ElementPathError-or-value'
CALL_TIMEOUT = 5.0            # seconds per guarded call (in-process alarm)
KILL_TIMEOUT = 12.0           # seconds before the parent kills a silent worker


def parser_class(v: str):
    if v == '1.0':
        from elementpath import XPath1Parser
        return XPath1Parser
    if v == '2.0':
        from elementpath import XPath2Parser
        return XPath2Parser
    if v == '3.0':
        from elementpath.xpath30 import XPath30Parser
        return XPath30Parser
    from elementpath.xpath31 import XPath31Parser
    return XPath31Parser


def new_parser(v: str):
    return parser_class(v)(namespaces=dict(G.NAMESPACES))


# --------------------------------------------------------------------------------------
# the oracle: run one call under a watchdog, canonicalise what came out
# --------------------------------------------------------------------------------------
class Hang(BaseException):
    pass


def _on_alarm(signum, frame):
    raise Hang()


def innermost_site(exc: BaseException) -> str:
    """innermost frame that lies in the elementpath package: `<file>:<function>`"""
    site = ''
    tb = exc.__traceback__
    while tb is not None:
        fn = tb.tb_frame.f_code.co_filename
        if '/elementpath/' in fn:
            rel = fn.split('/elementpath/', 1)[1]
            site = f'{rel}:{tb.tb_frame.f_code.co_name}'
        tb = tb.tb_next
    return site


def classify(exc: BaseException) -> str:
    from elementpath import ElementPathError
    if isinstance(exc, Hang):
        return 'ERR:OTHER:Hang'
    if isinstance(exc, ElementPathError):
        code = exc.code
        if not code or not isinstance(code, str):
            return f'ERR:NOCODE:{type(exc).__name__}'
        return 'ERR:' + code.split(':')[-1].split('}')[-1]
    return f'ERR:OTHER:{type(exc).__name__}'


def guarded(fn):
    """-> (canonical outcome, site, value).  Outcome 'ok' or 'ERR:...'"""
    signal.signal(signal.SIGALRM, _on_alarm)
    signal.setitimer(signal.ITIMER_REAL, CALL_TIMEOUT)
    try:
        try:
            val = fn()
        finally:
            signal.setitimer(signal.ITIMER_REAL, 0)
        return 'ok', '', val
    except BaseException as e:   # noqa: every exception of the implementation is an observation
        signal.setitimer(signal.ITIMER_REAL, 0)
        if isinstance(e, KeyboardInterrupt):
            raise
        out = classify(e)
        site = innermost_site(e) if out.startswith(('ERR:OTHER', 'ERR:NOCODE')) else ''
        if isinstance(e, RecursionError) or isinstance(e, Hang):
            e.__traceback__ = None
        return out, site, None


_DOCS: dict = {}


def documents():
    if not _DOCS:
        import xml.etree.ElementTree as ET
        _DOCS['et'] = ET.ElementTree(ET.XML(G.DOC_XML))
        try:
            import lxml.etree as LET
            _DOCS['lxml'] = LET.ElementTree(LET.XML(G.DOC_XML))
        except Exception:   # lxml is optional
            _DOCS['lxml'] = _DOCS['et']
    return _DOCS


def variables(v: str) -> dict:
    from elementpath import datatypes as dt
    et = documents()['et']
    var = {'s': 'abc', 'n': 3, 'd': 1.5, 'b': True, 'node': et.getroot()}
    if v != '1.0':
        var.update({'seq': [1, 2, 3], 'e': [], 'u': dt.UntypedAtomic('12'),
                    'dt': dt.DateTime10.fromstring('2001-02-03T04:05:06Z'),
                    'q': dt.QName('http://p', 'p:q')})
    return var


def make_context(v: str, kind: str, parser=None):
    from elementpath import XPathContext
    docs = documents()
    var = variables(v)
    ns = dict(G.NAMESPACES)
    if v >= '3.0' and parser is not None:
        try:
            var['f'] = parser.parse('function($x) { $x + 1 }').evaluate(XPathContext(docs['et']))
            if v >= '3.1':
                c0 = XPathContext(docs['et'])
                var['m'] = parser.parse("map{'a': 1, 2: 'b'}").evaluate(c0)
                var['arr'] = parser.parse("[1, (2, 3), 'x']").evaluate(c0)
        except Exception:   # the context just lacks $f/$m/$arr then
            pass
    if kind == 'doc':
        return XPathContext(docs['et'], namespaces=ns, variables=var)
    if kind == 'lxml':
        return XPathContext(docs['lxml'], namespaces=ns, variables=var)
    if kind == 'elem':
        return XPathContext(docs['et'], namespaces=ns, item=docs['et'].getroot()[1], variables=var)
    if kind == 'attr':
        ctx = XPathContext(docs['et'], namespaces=ns, variables=var)
        for node in ctx.root.iter_lazy() if hasattr(ctx.root, 'iter_lazy') else ctx.root.iter():
            if type(node).__name__ == 'AttributeNode':
                ctx.item = node
                break
        return ctx
    if kind == 'atom':
        return XPathContext(docs['et'], namespaces=ns, item=7, variables=var)
    if kind == 'noroot':
        return XPathContext(root=None, item='ctx', namespaces=ns, variables=var)
    raise ValueError(kind)


def consume(val):
    """force lazily produced results (generators) so that late exceptions surface"""
    if val is None or isinstance(val, (str, int, float, bool, list, tuple)):
        return val
    if hasattr(val, '__next__'):
        return list(val)
    return val


def explore_one(v: str, src: str, kind: str) -> dict:
    """parse with a fresh parser; if parsed: evaluate(ctx), get_results(ctx), select(ctx), evaluate(None)"""
    res: dict = {'v': v, 's': src, 'c': kind}
    holder = {}

    def do_parse():
        holder['p'] = new_parser(v)
        return holder['p'].parse(src)

    out, site, tok = guarded(do_parse)
    res['parse'] = out
    res['steps'] = [('parse', out, site)]
    if out != 'ok':
        return res
    try:
        res['tree'] = tok.tree[:200]
    except BaseException as e:   # noqa
        res['steps'].append(('tree', classify(e), innermost_site(e)))
    p = holder['p']
    out, site, ctx = guarded(lambda: make_context(v, kind, p))
    if out != 'ok':
        res['steps'].append(('context', out, site))
        return res
    from copy import copy
    for name, fn in (('evaluate', lambda: consume(tok.evaluate(copy(ctx)))),
                     ('get_results', lambda: consume(tok.get_results(copy(ctx)))),
                     ('select', lambda: list(tok.select(copy(ctx)))),
                     ('evaluate-again', lambda: consume(tok.evaluate(copy(ctx)))),
                     ('evaluate-nocontext', lambda: consume(tok.evaluate(None)))):
        out, site, _ = guarded(fn)
        res['steps'].append((name, out, site))
    return res


# --------------------------------------------------------------------------------------
# worker process (so that a call that hangs inside C code can be killed)
# --------------------------------------------------------------------------------------
def worker_main() -> None:
    from harness.common import use_repo
    use_repo()
    import warnings
    warnings.simplefilter('ignore')
    sys.setrecursionlimit(1000)
    devnull = open(os.devnull, 'w')
    out = os.fdopen(os.dup(1), 'w')
    os.dup2(devnull.fileno(), 1)          # fn:trace and friends print to stdout
    sys.stdout = devnull
    for line in sys.stdin:
        req = json.loads(line)
        try:
            res = explore_one(req['v'], req['s'], req['c'])
        except BaseException as e:   # noqa
            res = {'v': req['v'], 's': req['s'], 'c': req['c'],
                   'steps': [('harness', f'ERR:OTHER:{type(e).__name__}', 'harness:' + str(e)[:100])]}
        out.write(json.dumps(res) + '\n')
        out.flush()


class Worker:
    def __init__(self):
        self.start()

    def start(self):
        env = dict(os.environ, PYTHONHASHSEED=os.environ.get('PYTHONHASHSEED', '0'), C03_WORKER='1')
        self.p = subprocess.Popen([sys.executable, str(Path(__file__).resolve())], stdin=subprocess.PIPE,
                                  stdout=subprocess.PIPE, stderr=subprocess.DEVNULL, env=env, text=True,
                                  bufsize=1)

    def ask(self, req: dict) -> dict:
        try:
            self.p.stdin.write(json.dumps(req) + '\n')
            self.p.stdin.flush()
            r, _, _ = _select.select([self.p.stdout], [], [], KILL_TIMEOUT)
            line = self.p.stdout.readline() if r else ''
        except (BrokenPipeError, OSError):
            line = ''
        if not line:
            died = self.p.poll()
            self.p.kill()
            self.p.wait()
            self.start()
            what = 'ERR:OTHER:Hang' if died is None else f'ERR:OTHER:ProcessDied({died})'
            return dict(req, steps=[('call', what, 'worker')])
        return json.loads(line)

    def close(self):
        try:
            self.p.stdin.close()
            self.p.wait(timeout=5)
        except Exception:   # noqa
            self.p.kill()


def explore_many(cases: list[dict], nworkers: int = 4) -> list[dict]:
    results: list = [None] * len(cases)

    def work(k: int):
        w = Worker()
        try:
            for i in range(k, len(cases), nworkers):
                results[i] = w.ask(cases[i])
        finally:
            w.close()

    threads = [threading.Thread(target=work, args=(k,)) for k in range(nworkers)]
    for t in threads:
        t.start()
    for t in threads:
        t.join()
    return results


if os.environ.get('C03_WORKER') == '1' and __name__ == '__main__':
    worker_main()
    sys.exit(0)


# --------------------------------------------------------------------------------------
# translator: live classes / AST  ->  lean/EPV/Gen/C03Tables.lean
# --------------------------------------------------------------------------------------
CURSOR_ATTRS = ('source', 'tokens', 'next_match', 'token', 'next_token', 'parse_arguments')


def lean_str(s: str) -> str:
    out = ['"']
    for ch in s:
        o = ord(ch)
        if ch == '"':
            out.append('\\"')
        elif ch == '\\':
            out.append('\\\\')
        elif 32 <= o < 127:
            out.append(ch)
        else:
            out.append('\\u{%x}' % o)
    out.append('"')
    return ''.join(out)


def label_text(label) -> str:
    """`label == 'function'` is what wrong_syntax tests; a MultiLabel equals each of its values"""
    vals = getattr(label, 'values', None)
    return '|'.join(vals) if vals is not None else str(label)


def scan_cursor_writers() -> list[tuple[str, str, str]]:
    """every (file, function, attribute) that assigns one of the cursor attributes of a parser:
    `self.X = ` inside a class whose name ends with `Parser`, or `<expr>.parser.X = ` anywhere
    (plain / augmented / annotated assignment, `for` target, `with … as`, walrus)"""
    import ast
    pkg = REPO / 'elementpath'
    found = []

    def targets_of(node):
        if isinstance(node, ast.Assign):
            return node.targets
        if isinstance(node, (ast.AugAssign, ast.AnnAssign, ast.For, ast.AsyncFor, ast.NamedExpr)):
            return [node.target]
        if isinstance(node, (ast.With, ast.AsyncWith)):
            return [i.optional_vars for i in node.items if i.optional_vars is not None]
        return []

    def flat(t):
        if isinstance(t, (ast.Tuple, ast.List)):
            for e in t.elts:
                yield from flat(e)
        elif isinstance(t, ast.Starred):
            yield from flat(t.value)
        else:
            yield t

    def visit(node, cls, func, rel):
        for child in ast.iter_child_nodes(node):
            c2, f2 = cls, func
            if isinstance(child, ast.ClassDef):
                c2 = child.name
            elif isinstance(child, (ast.FunctionDef, ast.AsyncFunctionDef)):
                f2 = child.name
            for t in targets_of(child):
                for a in flat(t):
                    if isinstance(a, ast.Attribute) and a.attr in CURSOR_ATTRS:
                        base = a.value
                        on_self_parser = (isinstance(base, ast.Name) and base.id == 'self'
                                          and (c2 or '').endswith('Parser'))
                        on_parser = (isinstance(base, ast.Attribute) and base.attr == 'parser') or \
                                    (isinstance(base, ast.Name) and base.id == 'parser')
                        if on_self_parser or on_parser:
                            found.append((rel, f2 or '<module>', a.attr))
            visit(child, c2, f2, rel)

    for path in sorted(pkg.rglob('*.py')):
        rel = str(path.relative_to(pkg))
        try:
            tree = ast.parse(path.read_text())
        except SyntaxError:
            found.append((rel, '<unparsable>', 'source'))
            continue
        visit(tree, None, None, rel)
    return sorted(set(found))


def parse_shape(func) -> dict:
    """shape of a `parse` method: for the outermost try/finally — the attribute assignments of the
    `finally` block (in order), the kinds of the statements before the `try`, whether a call of
    `advance`/`expression`/`super().parse` sits inside the try body"""
    import ast
    import inspect
    import textwrap
    tree = ast.parse(textwrap.dedent(inspect.getsource(func)))
    fdef = tree.body[0]
    shape = {'finally': [], 'before': [], 'calls_in_try': [], 'after': []}
    tries = [s for s in fdef.body if isinstance(s, ast.Try) and s.finalbody]
    if not tries:
        return shape
    t = tries[0]
    idx = fdef.body.index(t)
    for s in fdef.body[:idx]:
        if isinstance(s, ast.Expr) and isinstance(s.value, ast.Constant) and isinstance(s.value.value, str):
            continue
        shape['before'].append(type(s).__name__ + ((':' + ast.unparse(s.test)[:40]) if isinstance(s, ast.If) else ''))
    for s in fdef.body[idx + 1:]:
        shape['after'].append(type(s).__name__)
    for s in t.finalbody:
        if isinstance(s, ast.Assign):
            for tg in s.targets:
                if isinstance(tg, ast.Attribute) and isinstance(tg.value, ast.Name) and tg.value.id == 'self':
                    shape['finally'].append((tg.attr, ast.unparse(s.value)))
                else:
                    shape['finally'].append(('?' + ast.unparse(tg), ast.unparse(s.value)))
        else:
            shape['finally'].append(('?' + type(s).__name__, ast.unparse(s)[:60]))
    for n in ast.walk(ast.Module(body=t.body, type_ignores=[])):
        if isinstance(n, ast.Call):
            txt = ast.unparse(n.func)
            if txt in ('self.advance', 'self.expression', 'super().parse', 'self.next_token.expected',
                       'self.tokenizer.finditer'):
                shape['calls_in_try'].append(txt)
    return shape


def translate_tables(run: Run) -> dict:
    import elementpath.exceptions as exc_mod
    import elementpath.tdop as tdop
    from elementpath import XPath1Parser
    info: dict = {}
    out = ['/- GENERATED by harness/c03.py from the live elementpath package -- do not edit -/',
           'import EPV.Model.Lexer', 'import EPV.Model.XPathError', 'namespace EPV.Gen.C03', '']
    # ---- symbol tables
    tnames = []
    for v in VERSIONS:
        cls = parser_class(v)
        p = cls()
        rows = sorted((k, label_text(t.label)) for k, t in cls.symbol_table.items())
        name = 'table_v' + v.replace('.', '')
        tnames.append((v, name))
        out.append(f'def {name} : EPV.Lexer.Table := [' +
                   ', '.join(f'({lean_str(k)}, {lean_str(l)})' for k, l in rows) + ']')
        info[f'symbols_{v}'] = len(rows)
        # the tokenizer really is the 5-alternative pattern with 4 groups
        tk = p.tokenizer
        out.append(f'def tokenizerGroups_v{v.replace(".", "")} : Nat := {tk.groups}')
        out.append(f'def tokenizerTail_v{v.replace(".", "")} : Bool := '
                   f'{"true" if tk.pattern.endswith(chr(124) + "(" + chr(92) + "S)|" + chr(92) + "s+") else "false"}')
    out.append('def tables : List (String × EPV.Lexer.Table) := [' +
               ', '.join(f'({lean_str(v)}, {n})' for v, n in tnames) + ']')
    out.append('def tokenizerShapes : List (Nat × Bool) := [' +
               ', '.join(f'(tokenizerGroups_v{v.replace(".", "")}, tokenizerTail_v{v.replace(".", "")})'
                         for v in VERSIONS) + ']')
    out.append('def specialSymbolsOfTdop : List String := [' +
               ', '.join(lean_str(s) for s in sorted(tdop.SPECIAL_SYMBOLS)) + ']')
    # ---- exception class graph and code map
    import inspect
    classes = [(n, c) for n, c in vars(exc_mod).items()
               if inspect.isclass(c) and issubclass(c, BaseException) and c.__module__ == exc_mod.__name__]
    out.append('def classGraph : EPV.XErr.Graph := [' + ', '.join(
        f'({lean_str(n)}, [' + ', '.join(lean_str(b.__name__) for b in c.__bases__) + '])'
        for n, c in classes) + ']')
    codes = [(k, v[0].__name__) for k, v in exc_mod.XPATH_ERROR_CODES.items()]
    out.append('def codeMap : EPV.XErr.CodeMap := [' +
               ', '.join(f'({lean_str(k)}, {lean_str(c)})' for k, c in codes) + ']')
    info['exception_classes'] = len(classes)
    info['error_codes'] = len(codes)
    # python-side check used only to LOCATE a failing code when the closure theorem breaks
    from elementpath import ElementPathError
    info['codes_not_closed'] = [k for k, v in exc_mod.XPATH_ERROR_CODES.items()
                                if not (inspect.isclass(v[0]) and issubclass(v[0], ElementPathError))]
    # ---- AST shapes
    sh = parse_shape(tdop.Parser.parse)
    sh1 = parse_shape(XPath1Parser.parse)

    def pairs(l):
        return '[' + ', '.join(f'({lean_str(a)}, {lean_str(b)})' for a, b in l) + ']'

    def strs(l):
        return '[' + ', '.join(lean_str(a) for a in l) + ']'

    out.append(f'def parseFinally : List (String × String) := {pairs(sh["finally"])}')
    out.append(f'def parseBeforeTry : List String := {strs(sh["before"])}')
    out.append(f'def parseCallsInTry : List String := {strs(sorted(set(sh["calls_in_try"])))}')
    out.append(f'def xp1ParseFinally : List (String × String) := {pairs(sh1["finally"])}')
    out.append(f'def xp1ParseBeforeTry : List String := {strs(sh1["before"])}')
    out.append(f'def xp1ParseCallsInTry : List String := {strs(sorted(set(sh1["calls_in_try"])))}')
    writers = scan_cursor_writers()
    out.append('def cursorWriters : List (String × String × String) := [' +
               ', '.join(f'({lean_str(a)}, {lean_str(b)}, {lean_str(c)})' for a, b, c in writers) + ']')
    info['cursor_writers'] = len(writers)
    info['parse_shape'] = sh
    info['xp1_parse_shape'] = sh1
    out.append('end EPV.Gen.C03')
    gen = LEAN / 'EPV' / 'Gen' / 'C03Tables.lean'
    gen.parent.mkdir(exist_ok=True)
    text = '\n'.join(out) + '\n'
    if not gen.exists() or gen.read_text() != text:
        gen.write_text(text)
    return info

"""
C03 — parse and evaluate fail only with ElementPathError; parsers stay reusable.

 translate : live symbol tables (special symbols, labels) of the four parsers, the class graph of
             elementpath/exceptions.py, XPATH_ERROR_CODES, the AST shape of Parser.parse /
             XPath1Parser.parse (what is reset in `finally`), the writers of the cursor attributes
             -> lean/EPV/Gen/C03Tables.lean   (theorems over them: EPV/Props/C03Tables.lean)
 prove     : EPV.Props.C03 (parse_resets, history_independent, advance_total, xpath_error_total ...)
 correspond: (a) histories of parse calls on ONE instance vs fresh instances vs the Lean cursor model
             (b) every tokenizer match of generated sources: real Parser.advance vs Lean lexer model
             (t) xpath_error() on table/mutated codes vs the Lean model of its decision tree
 explore   : (c) malformed / ill-typed stream, oracle "returns or raises coded ElementPathError, no hang"
             -- exploration, reported as such in the evidence, not a proof
"""
from __future__ import annotations

import json
import os
import select as _select
import signal
import subprocess
import sys
import threading
import time
import traceback
from pathlib import Path

sys.path.insert(0, str(Path(__file__).resolve().parent.parent))
from harness.common import (Run, Disagreement, cli, LEAN, VERIF, REPO, DriverError)  # noqa: E402
from harness import c03_gen as G  # noqa: E402

PROP = 'C03'
VERSIONS = G.VERSIONS
SPEC_OK = 'ElementPathError-or-value'
CALL_TIMEOUT = 5.0            # seconds per guarded call (in-process alarm)
KILL_TIMEOUT = 12.0           # seconds before the parent kills a silent worker
MAX_HANGS = 24                # after that many hanging inputs the rest of an exploration batch is skipped
_INPROC_HANGS = [0]


def parser_class(v: str):
    if v == '1.0':
        from elementpath import XPath1Parser
        return XPath1Parser
    if v == '2.0':
        from elementpath import XPath2Parser
        return XPath2Parser
    if v == '3.0':
        from elementpath.xpath30 import XPath30Parser
        return XPath30Parser
    from elementpath.xpath31 import XPath31Parser
    return XPath31Parser


PARSER_VARIANTS = ['default', 'non-strict', 'compat', 'default-ns', 'var-types', 'xsd10', 'schema', 'base-uri']
_SCHEMA: dict = {}


def schema_proxy():
    if 'p' not in _SCHEMA:
        import xmlschema
        from xmlschema.xpath import XMLSchemaProxy
        xsd = ('<xs:schema xmlns:xs="http://www.w3.org/2001/XMLSchema"><xs:element name="a"><xs:complexType mixed="true">'
               '<xs:sequence><xs:element name="b" type="xs:string" maxOccurs="unbounded"/><xs:element name="c" type="xs:decimal" '
               'minOccurs="0"/></xs:sequence><xs:attribute name="id" type="xs:string"/>'
               '<xs:anyAttribute processContents="lax"/></xs:complexType></xs:element></xs:schema>')
        _SCHEMA['p'] = XMLSchemaProxy(xmlschema.XMLSchema(xsd))
    return _SCHEMA['p']


def new_parser(v: str, variant: str = 'default', default_collation: str | None = None):
    """a new parser instance; `variant` selects constructor options (used by the reuse histories)"""
    cls = parser_class(v)
    ns = dict(G.NAMESPACES)
    if default_collation is not None and v != '1.0':
        return cls(namespaces=ns, default_collation=default_collation)
    p = _new_parser_variant(cls, v, ns, variant)
    p._c03_variant = variant
    return p


def _new_parser_variant(cls, v: str, ns: dict, variant: str):
    if variant == 'non-strict':
        return cls(namespaces=ns, strict=False)
    if v == '1.0' or variant == 'default':
        return cls(namespaces=ns)
    if variant == 'compat':
        return cls(namespaces=ns, compatibility_mode=True)
    if variant == 'default-ns':
        return cls(namespaces=ns, default_namespace='http://p')
    if variant == 'var-types':
        return cls(namespaces=ns, variable_types={'s': 'xs:string', 'n': 'xs:integer', 'seq': 'xs:integer*'})
    if variant == 'xsd10':
        return cls(namespaces=ns, xsd_version='1.0')
    if variant == 'base-uri':
        return cls(namespaces=ns, base_uri='http://example.test/base/')
    if variant == 'schema':
        return cls(namespaces=ns, schema=schema_proxy())
    return cls(namespaces=ns)


# --------------------------------------------------------------------------------------
# the oracle: run one call under a watchdog, canonicalise what came out
# --------------------------------------------------------------------------------------
class Hang(BaseException):
    pass


def _on_alarm(signum, frame):
    raise Hang()


def innermost_site(exc: BaseException) -> str:
    """innermost frame that lies in the elementpath package: `<file>:<function>`"""
    site = ''
    tb = exc.__traceback__
    while tb is not None:
        fn = tb.tb_frame.f_code.co_filename
        if '/elementpath/' in fn:
            rel = fn.split('/elementpath/', 1)[1]
            site = f'{rel}:{tb.tb_frame.f_code.co_name}'
        tb = tb.tb_next
    return site


def classify(exc: BaseException) -> str:
    from elementpath import ElementPathError
    if isinstance(exc, Hang):
        return 'ERR:OTHER:Hang'
    if isinstance(exc, ElementPathError):
        code = exc.code
        if not code or not isinstance(code, str):
            return f'ERR:NOCODE:{type(exc).__name__}'
        return 'ERR:' + code.split(':')[-1].split('}')[-1]
    return f'ERR:OTHER:{type(exc).__name__}'


def guarded(fn):
    """-> (canonical outcome, site, value).  Outcome 'ok' or 'ERR:...'"""
    signal.signal(signal.SIGALRM, _on_alarm)
    signal.setitimer(signal.ITIMER_REAL, CALL_TIMEOUT)
    try:
        try:
            val = fn()
        finally:
            signal.setitimer(signal.ITIMER_REAL, 0)
        return 'ok', '', val
    except BaseException as e:   # noqa: every exception of the implementation is an observation
        signal.setitimer(signal.ITIMER_REAL, 0)
        if isinstance(e, KeyboardInterrupt):
            raise
        out = classify(e)
        site = innermost_site(e) if out.startswith(('ERR:OTHER', 'ERR:NOCODE')) else ''
        if isinstance(e, RecursionError) or isinstance(e, Hang):
            e.__traceback__ = None
        return out, site, None


_DOCS: dict = {}


def documents():
    if not _DOCS:
        import xml.etree.ElementTree as ET
        _DOCS['et'] = ET.ElementTree(ET.XML(G.DOC_XML))
        try:
            import lxml.etree as LET
            _DOCS['lxml'] = LET.ElementTree(LET.XML(G.DOC_XML))
        except Exception:   # lxml is optional
            _DOCS['lxml'] = _DOCS['et']
    return _DOCS


def variables(v: str) -> dict:
    from elementpath import datatypes as dt
    et = documents()['et']
    var = {'s': 'abc', 'n': 3, 'd': 1.5, 'b': True, 'node': et.getroot()}
    var.update(G.magnitude_variables())
    if v != '1.0':
        var.update({'seq': [1, 2, 3], 'e': [], 'u': dt.UntypedAtomic('12'),
                    'dt': dt.DateTime10.fromstring('2001-02-03T04:05:06Z'),
                    'q': dt.QName('http://p', 'p:q')})
    return var


def make_context(v: str, kind: str, parser=None):
    from elementpath import XPathContext
    docs = documents()
    var = variables(v)
    ns = dict(G.NAMESPACES)
    if v >= '3.0' and parser is not None:
        try:
            var['fn1'] = parser.parse('function($x) { $x + 1 }').evaluate(XPathContext(docs['et']))
            if v >= '3.1':
                c0 = XPathContext(docs['et'])
                var['map1'] = parser.parse("map{'a': 1, 2: 'b'}").evaluate(c0)
                var['arr1'] = parser.parse("[1, (2, 3), 'x']").evaluate(c0)
        except Exception:   # the context just lacks $fn1/$map1/$arr1 then
            pass
    if kind == 'doc':
        return XPathContext(docs['et'], namespaces=ns, variables=var)
    if kind == 'lxml':
        return XPathContext(docs['lxml'], namespaces=ns, variables=var)
    if kind == 'elem':
        return XPathContext(docs['et'], namespaces=ns, item=docs['et'].getroot()[1], variables=var)
    if kind == 'attr':
        ctx = XPathContext(docs['et'], namespaces=ns, variables=var)
        for node in ctx.root.iter_lazy() if hasattr(ctx.root, 'iter_lazy') else ctx.root.iter():
            if type(node).__name__ == 'AttributeNode':
                ctx.item = node
                break
        return ctx
    if kind == 'atom':
        return XPathContext(docs['et'], namespaces=ns, item=7, variables=var)
    if kind == 'noroot':
        return XPathContext(root=None, item='ctx', namespaces=ns, variables=var)
    raise ValueError(kind)


def consume(val):
    """force lazily produced results (generators) so that late exceptions surface"""
    if val is None or isinstance(val, (str, int, float, bool, list, tuple)):
        return val
    if hasattr(val, '__next__'):
        return list(val)
    return val


def explore_one(v: str, src: str, kind: str, dc: str | None = None, pv: str = 'default') -> dict:
    """parse with a fresh parser; if parsed: evaluate(ctx), get_results(ctx), select(ctx), evaluate(None)"""
    res: dict = {'v': v, 's': src, 'c': kind}
    if dc is not None:
        res['dc'] = dc
    if pv != 'default':
        res['pv'] = pv
    holder = {}

    def do_parse():
        holder['p'] = new_parser(v, pv, default_collation=dc)
        return holder['p'].parse(src)

    out, site, tok = guarded(do_parse)
    res['parse'] = out
    res['steps'] = [('parse', out, site)]
    if out != 'ok':
        return res
    try:
        res['tree'] = tok.tree[:200]
    except BaseException as e:   # noqa
        res['steps'].append(('tree', classify(e), innermost_site(e)))
    p = holder['p']
    out, site, ctx = guarded(lambda: make_context(v, kind, p))
    if out != 'ok':
        res['steps'].append(('context', out, site))
        return res
    from copy import copy
    for name, fn in (('evaluate', lambda: consume(tok.evaluate(copy(ctx)))),
                     ('get_results', lambda: consume(tok.get_results(copy(ctx)))),
                     ('select', lambda: list(tok.select(copy(ctx)))),
                     ('evaluate-again', lambda: consume(tok.evaluate(copy(ctx)))),
                     ('evaluate-nocontext', lambda: consume(tok.evaluate(None)))):
        out, site, _ = guarded(fn)
        res['steps'].append((name, out, site))
    return res


# --------------------------------------------------------------------------------------
# coverage derived from the CODE: every `except` clause and every `raise <coded error>` site of the
# package, and which of them (with which caught exception class) the exploration stream reached
# --------------------------------------------------------------------------------------
def scan_error_sites() -> dict:
    """{'handlers': {site: {'file','line','body_line','classes'}}, 'raises': {site: {'file','line','code'}}}
    site = '<file>:<function>:<line>'"""
    import ast
    pkg = REPO / 'elementpath'
    handlers, raises = {}, {}

    def names_of(t):
        if t is None:
            return ['<bare>']
        if isinstance(t, ast.Tuple):
            return [n for e in t.elts for n in names_of(e)]
        return [ast.unparse(t).split('.')[-1]]

    def visit(node, func, rel):
        for child in ast.iter_child_nodes(node):
            f2 = child.name if isinstance(child, (ast.FunctionDef, ast.AsyncFunctionDef)) else func
            if isinstance(child, ast.ExceptHandler) and child.body:
                site = f'{rel}:{func or "<module>"}:{child.lineno}'
                handlers[site] = {'file': rel, 'line': child.lineno, 'body_line': child.body[0].lineno,
                                  'classes': names_of(child.type)}
            if isinstance(child, ast.Raise) and isinstance(child.exc, ast.Call):
                fn = ast.unparse(child.exc.func)
                last = fn.split('.')[-1]
                if last in ('error', 'xpath_error', 'wrong_syntax', 'wrong_type', 'wrong_value', 'missing_context',
                            'wrong_context_type', 'wrong_sequence_type', 'unknown_atomic_type',
                            'unknown_namespace') or last.startswith('ElementPath') or last in (
                            'MissingContextError', 'UnsupportedFeatureError', 'XMLResourceForbidden'):
                    code = ''
                    if child.exc.args and isinstance(child.exc.args[0], ast.Constant) and isinstance(child.exc.args[0].value, str):
                        code = child.exc.args[0].value if last in ('error', 'xpath_error') else ''
                    raises[f'{rel}:{func or "<module>"}:{child.lineno}'] = {'file': rel, 'line': child.lineno, 'code': code,
                                                                          'call': last}
            visit(child, f2, rel)

    for path in sorted(pkg.rglob('*.py')):
        rel = str(path.relative_to(pkg))
        try:
            visit(ast.parse(path.read_text()), None, rel)
        except SyntaxError:
            pass
    return {'handlers': handlers, 'raises': raises}


class SiteMonitor:
    """sys.monitoring LINE events: records (handler site, class of the exception being handled) and raise
    sites; every other line location is disabled after its first event, so the overhead vanishes"""

    def __init__(self):
        self.new: list[str] = []
        self.seen: set = set()
        sites = scan_error_sites()
        pkg = str((REPO / 'elementpath').resolve())
        self.hlines = {(f'{pkg}/{h["file"]}', h['body_line']): site for site, h in sites['handlers'].items()}
        self.rlines = {(f'{pkg}/{r["file"]}', r['line']): site for site, r in sites['raises'].items()}
        mon = sys.monitoring
        self.tool = mon.PROFILER_ID
        mon.use_tool_id(self.tool, 'c03-sites')
        mon.register_callback(self.tool, mon.events.LINE, self.on_line)
        mon.set_events(self.tool, mon.events.LINE)

    def on_line(self, code, line):
        key = (code.co_filename, line)
        site = self.hlines.get(key)
        if site is not None:
            exc = sys.exception()
            rec = f'H|{site}|' + ('/'.join(c.__name__ for c in type(exc).__mro__[:-2]) if exc is not None else '?')
            if rec not in self.seen:
                self.seen.add(rec)
                self.new.append(rec)
            return None                       # stay enabled: another class may arrive later
        site = self.rlines.get(key)
        if site is not None:
            rec = f'R|{site}'
            if rec not in self.seen:
                self.seen.add(rec)
                self.new.append(rec)
        return sys.monitoring.DISABLE

    def drain(self) -> list[str]:
        out, self.new = self.new, []
        return out


# --------------------------------------------------------------------------------------
# worker process (so that a call that hangs inside C code can be killed)
# --------------------------------------------------------------------------------------
def worker_main() -> None:
    from harness.common import use_repo
    use_repo()
    import warnings
    warnings.simplefilter('ignore')
    sys.setrecursionlimit(1000)
    try:   # a runaway allocation (e.g. `1 to 2147483648`) must fail fast instead of exhausting the host
        import resource
        resource.setrlimit(resource.RLIMIT_AS, (3 << 30, 3 << 30))
    except Exception:   # noqa
        pass
    devnull = open(os.devnull, 'w')
    out = os.fdopen(os.dup(1), 'w')
    os.dup2(devnull.fileno(), 1)          # fn:trace and friends print to stdout
    sys.stdout = devnull
    monitor = None
    if os.environ.get('C03_SITES', '1') == '1' and hasattr(sys, 'monitoring'):
        try:
            monitor = SiteMonitor()
        except Exception:   # noqa  (tool id taken, ...): run without site coverage
            monitor = None
    for line in sys.stdin:
        req = json.loads(line)
        try:
            res = explore_one(req['v'], req['s'], req['c'], req.get('dc'), req.get('pv', 'default'))
        except BaseException as e:   # noqa
            res = {'v': req['v'], 's': req['s'], 'c': req['c'],
                   'steps': [('harness', f'ERR:OTHER:{type(e).__name__}', 'harness:' + str(e)[:100])]}
        if monitor is not None:
            res['hits'] = monitor.drain()
        out.write(json.dumps(res) + '\n')
        out.flush()


class Worker:
    def __init__(self):
        self.start()

    def start(self):
        env = dict(os.environ, PYTHONHASHSEED=os.environ.get('PYTHONHASHSEED', '0'), C03_WORKER='1')
        self.p = subprocess.Popen([sys.executable, str(Path(__file__).resolve())], stdin=subprocess.PIPE,
                                  stdout=subprocess.PIPE, stderr=subprocess.DEVNULL, env=env, text=True,
                                  bufsize=1)

    def ask(self, req: dict) -> dict:
        res = self.ask_once(req, KILL_TIMEOUT)
        if any(st[1] == 'ERR:OTHER:Hang' for st in res['steps']):
            # confirm in a fresh process with a longer leash: a loaded host must not be reported as a hang
            res = self.ask_once(req, 2 * KILL_TIMEOUT)
        return res

    def ask_once(self, req: dict, kill_after: float) -> dict:
        try:
            self.p.stdin.write(json.dumps(req) + '\n')
            self.p.stdin.flush()
            r, _, _ = _select.select([self.p.stdout], [], [], kill_after)
            line = self.p.stdout.readline() if r else ''
        except (BrokenPipeError, OSError):
            line = ''
        if not line:
            died = self.p.poll()
            self.p.kill()
            self.p.wait()
            self.start()
            what = 'ERR:OTHER:Hang' if died is None else f'ERR:OTHER:ProcessDied({died})'
            return dict(req, steps=[('call', what, 'worker')])
        res = json.loads(line)
        if any(st[1] == 'ERR:OTHER:Hang' for st in res['steps']):
            # after a hang the process may hold process-global state (e.g. a collation lock left held): later
            # calls would hang for reasons unrelated to their input -> fresh process (ask() then confirms the hang)
            self.p.kill()
            self.p.wait()
            self.start()
        return res

    def close(self):
        try:
            self.p.stdin.close()
            self.p.wait(timeout=5)
        except Exception:   # noqa
            self.p.kill()


def explore_many(cases: list[dict], nworkers: int = 4) -> list[dict]:
    results: list = [None] * len(cases)

    hangs = [0]

    def work(k: int):
        w = Worker()
        try:
            for i in range(k, len(cases), nworkers):
                if hangs[0] >= MAX_HANGS:      # verdict is already certain; do not spend 5 s on each further hang
                    results[i] = dict(cases[i], steps=[])
                    continue
                results[i] = w.ask(cases[i])
                if any(st[1] == 'ERR:OTHER:Hang' for st in results[i]['steps']):
                    hangs[0] += 1
        finally:
            w.close()

    threads = [threading.Thread(target=work, args=(k,)) for k in range(nworkers)]
    for t in threads:
        t.start()
    for t in threads:
        t.join()
    return results


if os.environ.get('C03_WORKER') == '1' and __name__ == '__main__':
    worker_main()
    sys.exit(0)


# --------------------------------------------------------------------------------------
# translator: live classes / AST  ->  lean/EPV/Gen/C03Tables.lean
# --------------------------------------------------------------------------------------
CURSOR_ATTRS = ('source', 'tokens', 'next_match', 'token', 'next_token', 'parse_arguments')


def lean_str(s: str) -> str:
    out = ['"']
    for ch in s:
        o = ord(ch)
        if ch == '"':
            out.append('\\"')
        elif ch == '\\':
            out.append('\\\\')
        elif 32 <= o < 127:
            out.append(ch)
        else:
            out.append('\\u{%x}' % o)
    out.append('"')
    return ''.join(out)


def label_text(label) -> str:
    """`label == 'function'` is what wrong_syntax tests; a MultiLabel equals each of its values"""
    vals = getattr(label, 'values', None)
    return '|'.join(vals) if vals is not None else str(label)


def scan_cursor_writers(all_attrs: bool = False) -> list[tuple[str, str, str]]:
    """every (file, function, attribute) that assigns one of the cursor attributes of a parser:
    `self.X = ` inside a class whose name ends with `Parser`, or `<expr>.parser.X = ` anywhere
    (plain / augmented / annotated assignment, `for` target, `with … as`, walrus)"""
    import ast
    pkg = REPO / 'elementpath'
    found = []

    def targets_of(node):
        if isinstance(node, ast.Assign):
            return node.targets
        if isinstance(node, (ast.AugAssign, ast.AnnAssign, ast.For, ast.AsyncFor, ast.NamedExpr)):
            return [node.target]
        if isinstance(node, (ast.With, ast.AsyncWith)):
            return [i.optional_vars for i in node.items if i.optional_vars is not None]
        return []

    def flat(t):
        if isinstance(t, (ast.Tuple, ast.List)):
            for e in t.elts:
                yield from flat(e)
        elif isinstance(t, ast.Starred):
            yield from flat(t.value)
        else:
            yield t

    def visit(node, cls, func, rel):
        for child in ast.iter_child_nodes(node):
            c2, f2 = cls, func
            if isinstance(child, ast.ClassDef):
                c2 = child.name
            elif isinstance(child, (ast.FunctionDef, ast.AsyncFunctionDef)):
                f2 = child.name
            for t in targets_of(child):
                for a in flat(t):
                    if isinstance(a, ast.Subscript):     # self.parser.x[k] = v  mutates attribute x
                        a = a.value
                    if isinstance(a, ast.Attribute) and (all_attrs or a.attr in CURSOR_ATTRS):
                        base = a.value
                        on_self_parser = (isinstance(base, ast.Name) and base.id == 'self'
                                          and (c2 or '').endswith('Parser'))
                        on_parser = (isinstance(base, ast.Attribute) and base.attr == 'parser') or \
                                    (isinstance(base, ast.Name) and base.id == 'parser')
                        if on_self_parser or on_parser:
                            found.append((rel, f2 or '<module>', a.attr))
            if all_attrs and isinstance(child, ast.Call) and isinstance(child.func, ast.Attribute) and \
                    child.func.attr in ('append', 'add', 'update', 'pop', 'clear', 'setdefault', 'extend', 'insert',
                                        'remove', 'discard', 'popitem', 'sort', 'reverse'):
                b = child.func.value      # self.parser.x.update(...) / self.x.append(...) in a *Parser class
                if isinstance(b, ast.Attribute):
                    bb = b.value
                    if (isinstance(bb, ast.Name) and bb.id == 'self' and (c2 or '').endswith('Parser')) or \
                            (isinstance(bb, ast.Attribute) and bb.attr == 'parser'):
                        found.append((rel, f2 or '<module>', b.attr))
            visit(child, c2, f2, rel)

    for path in sorted(pkg.rglob('*.py')):
        rel = str(path.relative_to(pkg))
        try:
            tree = ast.parse(path.read_text())
        except SyntaxError:
            found.append((rel, '<unparsable>', 'source'))
            continue
        visit(tree, None, None, rel)
    return sorted(set(found))


ARITH_FILES = ['xpath1/_xpath1_operators.py', 'xpath2/_xpath2_operators.py', 'xpath_tokens/tokens.py',
               'xpath1/_xpath1_functions.py', 'xpath2/_xpath2_functions.py', 'xpath30/_xpath30_functions.py',
               'xpath31/_xpath31_functions.py', 'xpath2/_xpath2_constructors.py', 'xpath31/_xpath31_operators.py',
               'xpath30/_xpath30_operators.py']


def scan_arith_tries() -> list[tuple[str, str, list[str], list[str]]]:
    """(file, function, arithmetic operation kinds in the try body, handler class names) of every
    try/except of the operator and function modules whose body contains arithmetic"""
    import ast
    opk = {ast.Div: 'div', ast.FloorDiv: 'floordiv', ast.Mod: 'mod', ast.Pow: 'pow', ast.Mult: 'mul',
           ast.Add: 'add', ast.Sub: 'sub'}
    rows = []

    def names_of(t):
        if t is None:
            return ['BaseException']
        if isinstance(t, ast.Tuple):
            return [n for e in t.elts for n in names_of(e)]
        return [ast.unparse(t).split('.')[-1]]

    def ops_in(stmts):
        ops = set()

        def walk(n):
            if isinstance(n, (ast.FunctionDef, ast.Lambda, ast.AsyncFunctionDef)):
                return
            if isinstance(n, ast.Try):      # a nested try protects its own body
                for h in n.handlers:
                    for c in h.body:
                        walk(c)
                for c in n.orelse + n.finalbody:
                    walk(c)
                return
            if isinstance(n, ast.BinOp) and type(n.op) in opk:
                if not (isinstance(n.op, ast.Mod) and isinstance(n.left, ast.Constant) and isinstance(n.left.value, str)):
                    ops.add(opk[type(n.op)])
            if isinstance(n, ast.Call):
                f = ast.unparse(n.func)
                if f in ('int', 'float', 'Decimal', 'decimal.Decimal', 'round'):
                    ops.add(f.split('.')[-1] + '()')
                elif f.startswith('math.'):
                    ops.add('math()')
            for c in ast.iter_child_nodes(n):
                walk(c)
        for st in stmts:
            walk(st)
        return sorted(ops)

    def visit(node, func, rel):
        for ch in ast.iter_child_nodes(node):
            f2 = ch.name if isinstance(ch, (ast.FunctionDef, ast.AsyncFunctionDef)) else func
            if isinstance(ch, ast.Try) and ch.handlers:
                ops = ops_in(ch.body)
                if ops:
                    rows.append((rel, func or '<module>', ops,
                                 sorted({n for h in ch.handlers for n in names_of(h.type)})))
            visit(ch, f2, rel)

    for rel in ARITH_FILES:
        path = REPO / 'elementpath' / rel
        if path.exists():
            visit(ast.parse(path.read_text()), None, rel)
    return rows


GUARD_FILES = ARITH_FILES + ['xpath_tokens/base.py', 'xpath_tokens/functions.py']
LOOKUP_TABLES = ('namespaces', 'variables', 'documents', 'collections', 'text_resources', 'symbol_table',
                 'decimal_formats', 'variable_types')


def scan_unguarded_sites() -> list[tuple[str, str, str]]:
    """(file, method, kind): int()/float()/Decimal() calls, .encode()/.decode()/codecs.* calls and subscript
    look-ups in per-call tables inside evaluate*/select*/cast*/nud*/led* methods of the operator / function /
    token modules that are not inside the body of any try-with-handlers of that method"""
    import ast
    found = set()

    def kind_of(n):
        if isinstance(n, ast.Call):
            f = ast.unparse(n.func)
            if f in ('int', 'float', 'Decimal', 'decimal.Decimal'):
                return f.split('.')[-1] + '()'
            if isinstance(n.func, ast.Attribute) and n.func.attr in ('encode', 'decode'):
                return n.func.attr + '()'
            if f.startswith('codecs.'):
                return 'codecs'
        if isinstance(n, ast.Subscript) and isinstance(n.ctx, ast.Load):
            b = ast.unparse(n.value).split('.')[-1]
            if b in LOOKUP_TABLES:
                return 'lookup:' + b
        return None

    def walk(node, func, guarded, rel):
        for ch in ast.iter_child_nodes(node):
            if isinstance(ch, (ast.FunctionDef, ast.AsyncFunctionDef)):
                walk(ch, ch.name, False, rel)
                continue
            if isinstance(ch, ast.Try) and ch.handlers:
                for st in ch.body:
                    check(st, func, True, rel)
                for part in list(ch.handlers) + ch.orelse + ch.finalbody:
                    check(part, func, guarded, rel)
                continue
            check(ch, func, guarded, rel)

    def check(node, func, guarded, rel):
        k = kind_of(node)
        if k and not guarded and func and func.startswith(('evaluate', 'select', 'cast', 'nud', 'led')):
            found.add((rel, func, k))
        if isinstance(node, ast.Try) and node.handlers:
            for st in node.body:
                check(st, func, True, rel)
            for part in list(node.handlers) + node.orelse + node.finalbody:
                check(part, func, guarded, rel)
            return
        if isinstance(node, (ast.FunctionDef, ast.AsyncFunctionDef)):
            walk(node, node.name, False, rel)
            return
        walk(node, func, guarded, rel)

    for rel in sorted(set(GUARD_FILES)):
        path = REPO / 'elementpath' / rel
        if path.exists():
            walk(ast.parse(path.read_text()), None, False, rel)
    return sorted(found)


def scan_lookup_sites() -> list[tuple[str, str, str, str]]:
    """(file, method, table, handler classes of the innermost enclosing try — '' if none) for every subscript
    look-up in the per-call tables (LOOKUP_TABLES) inside the operator / function / token modules"""
    import ast
    found = set()

    def names_of(t):
        if t is None:
            return ['BaseException']
        if isinstance(t, ast.Tuple):
            return [n for e in t.elts for n in names_of(e)]
        return [ast.unparse(t).split('.')[-1]]

    def walk(node, func, handlers, rel):
        for ch in ast.iter_child_nodes(node):
            if isinstance(ch, (ast.FunctionDef, ast.AsyncFunctionDef)):
                walk(ch, ch.name, '', rel)
                continue
            if isinstance(ch, ast.Try) and ch.handlers:
                hs = ','.join(sorted({n for h in ch.handlers for n in names_of(h.type)}))
                for st in ch.body:
                    visit(st, func, hs, rel)
                for part in list(ch.handlers) + ch.orelse + ch.finalbody:
                    visit(part, func, handlers, rel)
                continue
            visit(ch, func, handlers, rel)

    def visit(node, func, handlers, rel):
        if isinstance(node, ast.Subscript) and isinstance(node.ctx, ast.Load):
            b = ast.unparse(node.value).split('.')[-1]
            if b in LOOKUP_TABLES and func:
                found.add((rel, func, b, handlers))
        if isinstance(node, ast.Try) and node.handlers:
            hs = ','.join(sorted({n for h in node.handlers for n in names_of(h.type)}))
            for st in node.body:
                visit(st, func, hs, rel)
            for part in list(node.handlers) + node.orelse + node.finalbody:
                visit(part, func, handlers, rel)
            return
        if isinstance(node, (ast.FunctionDef, ast.AsyncFunctionDef)):
            walk(node, node.name, '', rel)
            return
        walk(node, func, handlers, rel)

    for rel in sorted(set(GUARD_FILES)):
        path = REPO / 'elementpath' / rel
        if path.exists():
            walk(ast.parse(path.read_text()), None, '', rel)
    return sorted(found)


def scan_while_loops() -> list[tuple[str, str, str]]:
    import ast
    pkg = REPO / 'elementpath'
    out = []

    def visit(node, func, rel):
        for ch in ast.iter_child_nodes(node):
            f2 = ch.name if isinstance(ch, (ast.FunctionDef, ast.AsyncFunctionDef)) else func
            if isinstance(ch, ast.While):
                out.append((rel, func or '<module>', ast.unparse(ch.test)))
            visit(ch, f2, rel)

    for path in sorted(pkg.rglob('*.py')):
        try:
            visit(ast.parse(path.read_text()), None, str(path.relative_to(pkg)))
        except SyntaxError:
            out.append((str(path.relative_to(pkg)), '<unparsable>', '?'))
    return sorted(set(out))


def parse_shape(func) -> dict:
    """shape of a `parse` method: for the outermost try/finally — the attribute assignments of the
    `finally` block (in order), the kinds of the statements before the `try`, whether a call of
    `advance`/`expression`/`super().parse` sits inside the try body"""
    import ast
    import inspect
    import textwrap
    tree = ast.parse(textwrap.dedent(inspect.getsource(func)))
    fdef = tree.body[0]
    shape = {'finally': [], 'before': [], 'calls_in_try': [], 'after': []}
    tries = [s for s in fdef.body if isinstance(s, ast.Try) and s.finalbody]
    if not tries:
        return shape
    t = tries[0]
    idx = fdef.body.index(t)
    for s in fdef.body[:idx]:
        if isinstance(s, ast.Expr) and isinstance(s.value, ast.Constant) and isinstance(s.value.value, str):
            continue
        shape['before'].append(type(s).__name__ + ((':' + ast.unparse(s.test)[:40]) if isinstance(s, ast.If) else ''))
    for s in fdef.body[idx + 1:]:
        shape['after'].append(type(s).__name__)
    for s in t.finalbody:
        if isinstance(s, ast.Assign):
            for tg in s.targets:
                if isinstance(tg, ast.Attribute) and isinstance(tg.value, ast.Name) and tg.value.id == 'self':
                    shape['finally'].append((tg.attr, ast.unparse(s.value)))
                else:
                    shape['finally'].append(('?' + ast.unparse(tg), ast.unparse(s.value)))
        else:
            shape['finally'].append(('?' + type(s).__name__, ast.unparse(s)[:60]))
    for n in ast.walk(ast.Module(body=t.body, type_ignores=[])):
        if isinstance(n, ast.Call):
            txt = ast.unparse(n.func)
            if txt in ('self.advance', 'self.expression', 'super().parse', 'self.next_token.expected',
                       'self.tokenizer.finditer'):
                shape['calls_in_try'].append(txt)
    return shape


def translate_tables(run: Run) -> dict:
    import elementpath.exceptions as exc_mod
    import elementpath.tdop as tdop
    from elementpath import XPath1Parser
    info: dict = {}
    out = ['/- GENERATED by harness/c03.py from the live elementpath package -- do not edit -/',
           'import EPV.Model.Lexer', 'import EPV.Model.XPathError', 'namespace EPV.Gen.C03', '']
    # ---- symbol tables
    tnames = []
    for v in VERSIONS:
        cls = parser_class(v)
        p = cls()
        rows = sorted((k, label_text(t.label)) for k, t in cls.symbol_table.items())
        name = 'table_v' + v.replace('.', '')
        tnames.append((v, name))
        out.append(f'def {name} : EPV.Lexer.Table := [' +
                   ', '.join(f'({lean_str(k)}, {lean_str(l)})' for k, l in rows) + ']')
        info[f'symbols_{v}'] = len(rows)
        # the tokenizer really is the 5-alternative pattern with 4 groups
        tk = p.tokenizer
        out.append(f'def tokenizerGroups_v{v.replace(".", "")} : Nat := {tk.groups}')
        out.append(f'def tokenizerTail_v{v.replace(".", "")} : Bool := '
                   f'{"true" if tk.pattern.endswith(chr(124) + "(" + chr(92) + "S)|" + chr(92) + "s+") else "false"}')
    out.append('def tables : List (String × EPV.Lexer.Table) := [' +
               ', '.join(f'({lean_str(v)}, {n})' for v, n in tnames) + ']')
    out.append('def tokenizerShapes : List (Nat × Bool) := [' +
               ', '.join(f'(tokenizerGroups_v{v.replace(".", "")}, tokenizerTail_v{v.replace(".", "")})'
                         for v in VERSIONS) + ']')
    out.append('def specialSymbolsOfTdop : List String := [' +
               ', '.join(lean_str(s) for s in sorted(tdop.SPECIAL_SYMBOLS)) + ']')
    # ---- exception class graph and code map
    import inspect
    classes = [(n, c) for n, c in vars(exc_mod).items()
               if inspect.isclass(c) and issubclass(c, BaseException) and c.__module__ == exc_mod.__name__]
    out.append('def classGraph : EPV.XErr.Graph := [' + ', '.join(
        f'({lean_str(n)}, [' + ', '.join(lean_str(b.__name__) for b in c.__bases__) + '])'
        for n, c in classes) + ']')
    codes = [(k, v[0].__name__) for k, v in exc_mod.XPATH_ERROR_CODES.items()]
    out.append('def codeMap : EPV.XErr.CodeMap := [' +
               ', '.join(f'({lean_str(k)}, {lean_str(c)})' for k, c in codes) + ']')
    info['exception_classes'] = len(classes)
    info['error_codes'] = len(codes)
    # python-side check used only to LOCATE a failing code when the closure theorem breaks
    from elementpath import ElementPathError
    info['codes_not_closed'] = [k for k, v in exc_mod.XPATH_ERROR_CODES.items()
                                if not (inspect.isclass(v[0]) and issubclass(v[0], ElementPathError))]
    # ---- AST shapes
    sh = parse_shape(tdop.Parser.parse)
    sh1 = parse_shape(XPath1Parser.parse)

    def pairs(l):
        return '[' + ', '.join(f'({lean_str(a)}, {lean_str(b)})' for a, b in l) + ']'

    def strs(l):
        return '[' + ', '.join(lean_str(a) for a in l) + ']'

    out.append(f'def parseFinally : List (String × String) := {pairs(sh["finally"])}')
    out.append(f'def parseBeforeTry : List String := {strs(sh["before"])}')
    out.append(f'def parseCallsInTry : List String := {strs(sorted(set(sh["calls_in_try"])))}')
    out.append(f'def xp1ParseFinally : List (String × String) := {pairs(sh1["finally"])}')
    out.append(f'def xp1ParseBeforeTry : List String := {strs(sh1["before"])}')
    out.append(f'def xp1ParseCallsInTry : List String := {strs(sorted(set(sh1["calls_in_try"])))}')
    rows = scan_arith_tries()
    out.append('def tryTable : List (String × String × List String × List String) := [' + ', '.join(
        f'({lean_str(a)}, {lean_str(b)}, {strs(c)}, {strs(d)})' for a, b, c, d in rows) + ']')
    info['arith_try_blocks'] = len(rows)
    ung = scan_unguarded_sites()
    out.append('def unguardedSites : List (String × String × String) := [' +
               ', '.join(f'({lean_str(a)}, {lean_str(b)}, {lean_str(c)})' for a, b, c in ung) + ']')
    lk = scan_lookup_sites()
    out.append('def lookupSites : List (String × String × String × String) := [' +
               ', '.join(f'({lean_str(a)}, {lean_str(b)}, {lean_str(c)}, {lean_str(d)})' for a, b, c, d in lk) + ']')
    info['lookup_sites'] = len(lk)
    wl = scan_while_loops()
    out.append('def whileLoops : List (String × String × String) := [' +
               ', '.join(f'({lean_str(a)}, {lean_str(b)}, {lean_str(c)})' for a, b, c in wl) + ']')
    info['unguarded_sites'] = len(ung)
    info['while_loops'] = len(wl)
    writers = scan_cursor_writers()
    out.append('def cursorWriters : List (String × String × String) := [' +
               ', '.join(f'({lean_str(a)}, {lean_str(b)}, {lean_str(c)})' for a, b, c in writers) + ']')
    allw = [w for w in scan_cursor_writers(all_attrs=True) if w[1] != '__init__']
    out.append('def parserAttrWriters : List (String × String × String) := [' +
               ', '.join(f'({lean_str(a)}, {lean_str(b)}, {lean_str(c)})' for a, b, c in allw) + ']')
    info['parser_attr_writers'] = len(allw)
    info['cursor_writers'] = len(writers)
    info['parse_shape'] = sh
    info['xp1_parse_shape'] = sh1
    out.append('end EPV.Gen.C03')
    gen = LEAN / 'EPV' / 'Gen' / 'C03Tables.lean'
    gen.parent.mkdir(exist_ok=True)
    text = '\n'.join(out) + '\n'
    if not gen.exists() or gen.read_text() != text:
        gen.write_text(text)
    return info


# --------------------------------------------------------------------------------------
# protocol helpers
# --------------------------------------------------------------------------------------
def enc(s: str) -> str:
    return '.'.join(str(ord(c)) for c in s) if s else '_'


def h8(s: str) -> str:
    import hashlib
    return hashlib.blake2b(s.encode('utf-8', 'surrogatepass'), digest_size=5).hexdigest()


def in_process_guard(fn):
    """guarded() for calls made in the main process (histories, lexer, taxonomy); after several hangs
    further calls are answered `ERR:OTHER:Hang-skipped` at once (the verdict is certain by then)"""
    if _INPROC_HANGS[0] >= 8:
        return 'ERR:OTHER:Hang', 'skipped-after-8-hangs', None
    r = guarded(fn)
    if r[0] == 'ERR:OTHER:Hang':
        _INPROC_HANGS[0] += 1
    return r


# --------------------------------------------------------------------------------------
# (a) parser reuse: histories on ONE instance
# --------------------------------------------------------------------------------------
NONSTR = [None, 5, b'ab', ['a']]

HISTORY_CORPUS = [
    ('3.1', ['abs(-1)', '1 => (', 'abs(-1)']),                       # F03c
    ('3.1', ["'a' => concat(", "xs:int('1')", '1 => f(', 'count((1, 2))']),
    ('3.0', ['1 +', '2 * 3', '(', 'a/b']),
    ('2.0', ['(: open', '1', 'empty-sequence() and lt', '1 to 3', None, 'a']),
    ('1.0', ['a[', 'a[1]', "'unterminated", '//b', 5, '//b', '1' * 4400, '2']),
    ('2.0', ['1 + "a"', '1 + 1', 'xs:int("x")', 'xs:int("1")', b'ab', None, 'b']),
    ('3.1', ['map{', 'map{1:2}', '[1', '[1]', 'Q{', 'Q{u}a', '1 => abs(', 'abs(1)']),
]


HISTORY_ESCAPES: list = []     # (version, source, outcome, site) of non-ElementPathError outcomes seen in histories


def outcome_text(out: str, val, exc_msg: str | None) -> str:
    if out == 'ok':
        try:
            return 'ok-' + h8(val.tree)
        except BaseException as e:   # noqa
            return 'ok-treeERR-' + type(e).__name__
    return out.replace(':', '-') + ('-' + h8(exc_msg) if exc_msg is not None else '')


def parse_observed(p, src):
    """(canonical outcome, token or None) of p.parse(src); the message is part of the outcome"""
    from elementpath import ElementPathError
    holder = {}

    def call():
        try:
            return p.parse(src)
        except ElementPathError as e:
            import re as _re
            # repr() of objects: addresses; values of current-time() etc.: every digit run is masked
            holder['msg'] = _re.sub(r'[0-9]+', '#', _re.sub(r' at 0x[0-9a-fA-F]+', '', str(e.message)))
            raise

    out, site, tok = in_process_guard(call)
    if out.startswith(('ERR:OTHER', 'ERR:NOCODE')) and isinstance(src, str) and not site.startswith('skipped'):
        HISTORY_ESCAPES.append((getattr(p, 'version', '?'), src, out, site, getattr(p, '_c03_variant', 'default')))
    return outcome_text(out, tok, holder.get('msg')), tok


def cursor_text(p) -> str:
    rem = list(p.tokens)
    p.tokens = iter(rem)
    t = '(start)' if p.token is p._start_token else 'tok-' + str(p.token.symbol)
    nt = '(start)' if p.next_token is p._start_token else 'tok-' + str(p.next_token.symbol)
    src = p.source if isinstance(p.source, str) else '?'
    return (f'src={enc(src)},tokens={len(rem)},nm={0 if p.next_match is None else 1},t={t},nt={nt},'
            f'pa={1 if getattr(p, "parse_arguments", True) else 0}')


def gen_history(rng, v: str, g: 'G.Gen', tokenizer, symbols) -> list:
    n = rng.randint(2, 12)
    calls: list = []
    for _ in range(n):
        r = rng.random()
        if r < 0.30:
            s = g.expr(rng.randint(0, 2))
        elif r < 0.60:
            s, _k = G.mutate(rng, tokenizer, symbols, g.expr(rng.randint(0, 2)))
        elif r < 0.70:
            s = rng.choice(G.KNOWN_NASTIES)
            if len(s) > 200:
                s = s[:40]
        elif r < 0.78:
            s = rng.choice(['1 => (', "'a' => concat(", '1 => f(', '1 => abs(', '(1, 2) => count() => (',
                            '1 => fn:abs(', '$f => (', '1 => Q{', "1 => xs:int('", '1 => $'])
        elif r < 0.84:
            s = rng.choice(NONSTR)
        elif r < 0.92 and calls:
            s = rng.choice(calls)
        else:
            s = G.illtyped_call(g)
        if isinstance(s, str):   # lone surrogates are not Lean `Char`s (the driver could not echo `source`)
            s = ''.join(c for c in s if not 0xD800 <= ord(c) < 0xE000)
        calls.append(s)
    return calls


def history_line(v: str, calls: list, variant: str = 'default'):
    """runs the history on ONE instance and each call on a fresh one; returns (protocol line, impl text)"""
    p = new_parser(v, variant)
    impl_parts, proto_parts = [], []
    for src in calls:
        fresh = new_parser(v, variant)
        f_out, _ = parse_observed(fresh, src)
        i_out, _ = parse_observed(p, src)
        impl_parts.append(f'{i_out}#{cursor_text(p)}')
        if isinstance(src, str):
            proto_parts.append(f'S:{enc(src)}:{f_out}')
        else:
            proto_parts.append(f'O:{NONSTR.index(src)}:{f_out}')
    return 'H ' + '|'.join(proto_parts), '|'.join(impl_parts)


def canon_value(val) -> str:
    def one(x):
        if isinstance(x, float):
            return 'f:' + x.hex()
        if isinstance(x, (list, tuple)):
            return '[' + ','.join(one(y) for y in x) + ']'
        name = type(x).__name__
        if hasattr(x, 'position') and hasattr(x, 'parent'):
            return f'{name}@{x.position}'
        try:
            import re as _re
            return f'{name}:' + _re.sub(r' at 0x[0-9a-f]+', '', str(x))
        except Exception:   # noqa
            return name
    try:
        return one(consume(val))[:300]
    except BaseException as e:   # noqa
        return 'ERR-in-canon-' + type(e).__name__


def eval_reuse_case(v: str, src: str):
    """evaluate after a failed evaluate on the same token == evaluate on a fresh token"""
    p = new_parser(v)
    out, _s, tok = in_process_guard(lambda: p.parse(src))
    if out != 'ok':
        return None
    out2, _s, tok2 = in_process_guard(lambda: new_parser(v).parse(src))
    if out2 != 'ok':
        return None
    from copy import copy
    good = make_context(v, 'doc', p)
    res = []
    # the SAME token over a sequence of different contexts (documents, items, variable maps) must answer each
    # like a token parsed for that context alone
    import elementpath
    et2 = documents()['et']
    for kind in ('lxml', 'elem', 'doc', 'attr', 'doc'):
        ctx = make_context(v, kind, p)
        if kind == 'attr':
            ctx.variables['s'] = 'zzz'
            ctx.variables['n'] = 99
        o1, _s, v1 = in_process_guard(lambda: consume(tok.evaluate(copy(ctx))))
        fresh_tok = new_parser(v).parse(src)
        o2, _s, v2 = in_process_guard(lambda: consume(fresh_tok.evaluate(copy(ctx))))
        o3, _s, v3 = in_process_guard(lambda: list(tok.select(copy(ctx))))
        o4, _s, v4 = in_process_guard(lambda: list(fresh_tok.select(copy(ctx))))
        res.append(('seq-' + kind, 'ok', o1 + '/' + (canon_value(v1) if o1 == 'ok' else ''),
                    o2 + '/' + (canon_value(v2) if o2 == 'ok' else '')))
        res.append(('seq-select-' + kind, 'ok', o3 + '/' + (canon_value(v3) if o3 == 'ok' else ''),
                    o4 + '/' + (canon_value(v4) if o4 == 'ok' else '')))
    # Selector object reused over two roots vs the one-shot select() / iter_select()
    try:
        sel = elementpath.Selector(src, namespaces=dict(G.NAMESPACES), parser=parser_class(v))
    except Exception:   # noqa  (the Selector constructor parses: failures are the parse stream's business)
        sel = None
    if sel is not None:
        import xml.etree.ElementTree as ET
        other = ET.XML('<a><b>9</b><z/></a>')
        for root_name, root in (('doc', et2.getroot()), ('other', other), ('doc', et2.getroot())):
            o1, _s, v1 = in_process_guard(lambda: consume(sel.select(root, namespaces=dict(G.NAMESPACES))))
            o2, _s, v2 = in_process_guard(lambda: consume(elementpath.select(root, src, namespaces=dict(G.NAMESPACES),
                                                                              parser=parser_class(v))))
            o3, _s, v3 = in_process_guard(lambda: list(sel.iter_select(root, namespaces=dict(G.NAMESPACES))))
            o4, _s, v4 = in_process_guard(lambda: list(elementpath.iter_select(root, src, namespaces=dict(G.NAMESPACES),
                                                                               parser=parser_class(v))))
            res.append(('selector-' + root_name, 'ok', o1 + '/' + (canon_value(v1) if o1 == 'ok' else ''),
                        o2 + '/' + (canon_value(v2) if o2 == 'ok' else '')))
            res.append(('selector-iter-' + root_name, 'ok', o3 + '/' + (canon_value(v3) if o3 == 'ok' else ''),
                        o4 + '/' + (canon_value(v4) if o4 == 'ok' else '')))
    for bad_kind in ('none', 'atom', 'noroot'):
        bad = None if bad_kind == 'none' else make_context(v, bad_kind, p)
        o_bad, _s, _v = in_process_guard(lambda: consume(tok.evaluate(copy(bad) if bad is not None else None)))
        o1, _s, v1 = in_process_guard(lambda: consume(tok.evaluate(copy(good))))
        o2, _s, v2 = in_process_guard(lambda: consume(tok2.evaluate(copy(good))))
        res.append((bad_kind, o_bad, o1 + '/' + (canon_value(v1) if o1 == 'ok' else ''),
                    o2 + '/' + (canon_value(v2) if o2 == 'ok' else '')))
    return res


def correspond_histories(run: Run, n: int) -> None:
    rng = run.rng
    ft = {v: G.function_table(v, parser_class(v)) for v in VERSIONS}
    lines, impls, cases = [], [], []
    todo = list(HISTORY_CORPUS)
    for _ in range(n):
        v = rng.choice(VERSIONS)
        p0 = new_parser(v)
        syms = [k for k in parser_class(v).symbol_table if not k.startswith('(') or k == '(:']
        g = G.Gen(rng, v, ft[v])
        todo.append((v, gen_history(rng, v, g, p0.tokenizer, syms)))
    schema_histories = 0
    for k, (v, calls) in enumerate(todo):
        variant = 'default' if k < len(HISTORY_CORPUS) else rng.choice(PARSER_VARIANTS)
        if variant == 'schema':      # a schema-bound parser is expensive to construct: few, short histories
            schema_histories += 1
            if schema_histories > run.scale(6, 40):
                variant = 'default'
            else:
                calls = calls[:5]
        line, impl = history_line(v, calls, variant)
        lines.append(line)
        impls.append(impl)
        run.stats.count('history:parser-variant:' + variant)
        cases.append({'kind': 'history', 'v': v, 'variant': variant, 'calls': [c if isinstance(c, str) else f'<non-str {NONSTR.index(c)}>'
                                                            for c in calls]})
    answers = run.driver('C03', lines)
    st = run.stats
    # an escape (foreign exception, hang) seen during a history is judged like one of the exploration stream
    esc = sorted(set(HISTORY_ESCAPES))
    del HISTORY_ESCAPES[:]
    if esc:
        xs = run.driver('C03', [trigger_line(v, s, out, site) for v, s, out, site, _pv in esc])
        for (v, s, out, site, pv), ans in zip(esc, xs):
            tag = accept_tag(ans)
            st.count('history:escape:' + out.split(':')[-1] + ('' if tag == '-' else f'[{tag}]'))
            run.disagree(Disagreement(dict({'kind': 'explore', 'v': v, 's': s, 'c': 'doc', 'step': 'parse'},
                                           **({'parser_variant': pv} if pv != 'default' else {})), out, None,
                                      SPEC_OK, what='escape', site=site, tags=[] if tag == '-' else [tag]))
    for case, impl, ans in zip(cases, impls, answers):
        if not ans.startswith('model='):
            run.disagree(Disagreement(case, 'driver:' + ans, what='protocol'))
            continue
        if 'ERR-OTHER-Hang' in impl:
            continue     # reported above as an escape; cursor comparison after a watchdog abort is meaningless
        model, spec = ans[len('model='):].split(' spec=')
        fails = impl.count('ERR-')
        st.case(case, nontrivial=0 < fails < len(case['calls']))
        st.count(f'history:len={len(case["calls"])//4*4}+')
        st.count('history:calls', len(case['calls']))
        st.count('history:failing-calls', fails)
        if 'ERR-OTHER' in impl:
            st.count('history:with-non-ElementPathError')
        if impl != spec:
            # first call at which the reused instance differs from a fresh one
            k = next((i for i, (a, b) in enumerate(zip(impl.split('|'), spec.split('|'))) if a != b), 0)
            run.disagree(Disagreement(dict(case, first_difference_at_call=k), impl.split('|')[k],
                                      model.split('|')[k] if k < len(model.split('|')) else None,
                                      spec.split('|')[k], what='parser-reuse', site='Parser.parse'))
        elif impl != model:
            run.disagree(Disagreement(case, impl, model, what='parser-reuse-model'))
    # evaluate after failed evaluate on the same token
    for _ in range(max(20, n // 4)):
        v = rng.choice(VERSIONS)
        g = G.Gen(rng, v, ft[v])
        src = g.expr(rng.randint(0, 2)) if rng.random() < 0.6 else G.illtyped_call(g)
        r = eval_reuse_case(v, src)
        if r is None:
            continue
        st.count('eval-reuse:tokens')
        volatile = any(w in src for w in ('current-', 'random-number', 'generate-id', 'environment-variable'))
        for bad_kind, o_bad, reused, fresh in r:
            if volatile:       # clock / random / identity values legitimately differ: compare the outcome kind only
                reused, fresh = reused.split('/')[0], fresh.split('/')[0]
            st.case({'kind': 'eval-reuse', 'v': v, 's': src, 'bad': bad_kind}, nontrivial=o_bad != 'ok')
            if o_bad != 'ok':
                st.count('eval-reuse:after-failed-evaluate')
            if reused != fresh:
                run.disagree(Disagreement({'kind': 'eval-reuse', 'v': v, 's': src, 'bad_context': bad_kind},
                                          reused, None, fresh, what='evaluate-after-failed-evaluate',
                                          site='XPathToken.evaluate'))


# --------------------------------------------------------------------------------------
# (b) lexer: real Parser.advance vs Lean model on the real tokenizer's matches
# --------------------------------------------------------------------------------------
def match_text(p, m) -> str:
    """protocol text of one tokenizer match: <group letter><name_pattern flag>:<code points>:<end offset>"""
    lit, sym, name, unk = m.groups()
    if sym is not None:
        return ('s1' if p.name_pattern.match(sym) is not None else 's0') + ':' + enc(sym) + f':{m.end()}'
    if lit is not None:
        return 'l0:' + enc(lit) + f':{m.end()}'
    if name is not None:
        return 'n0:' + enc(name) + f':{m.end()}'
    if unk is not None:
        return 'u0:' + enc(unk) + f':{m.end()}'
    return 'w0:' + enc(m.group()) + f':{m.end()}'


def lexer_case(v: str, src: str, own: bool = False):
    """own=False: the base `Parser.advance`; own=True: the parser class's own `advance` (for 2.0+ the
    comment-skipping `XPath2Parser.advance`)"""
    import elementpath.tdop as tdop
    from elementpath import ElementPathError
    p = new_parser(v)
    matches = list(p.tokenizer.finditer(src))
    parts = [match_text(p, m) for m in matches]
    line = f'L v={v} a={2 if own else 1} m=' + ';'.join(parts)
    if own:
        # the live XPath2Parser.advance scans comments on the raw source and re-tokenizes after them: the model
        # gets the source and, for every offset p just after a `:)`, what tokenizer.finditer(source, p) returns
        retok = []
        pos = src.find(':)')
        seen_p = set()
        while pos >= 0 and len(seen_p) < 200:
            q = pos + 2
            if q not in seen_p:
                seen_p.add(q)
                retok.append(f'{q}@' + ';'.join(match_text(p, m) for m in p.tokenizer.finditer(src, q)))
            pos = src.find(':)', pos + 1)
        line += f' src={enc(src)} r=' + '~'.join(retok)
    p.source = src
    p.tokens = iter(matches)
    syms, err = [], '-'
    registered = True
    for _ in range(len(matches) + len(src) + 2):   # (re-tokenization after a comment can yield more tokens)
        try:
            out, _site, _v = in_process_guard((lambda: p.advance()) if own else (lambda: tdop.Parser.advance(p)))
        finally:
            pass
        if out != 'ok':
            err = out
            break
        tk = p.next_token
        syms.append(tk.symbol)
        if p.symbol_table.get(tk.lookup_name) is not type(tk) and p.symbol_table.get(tk.symbol) is not type(tk):
            registered = False
        if tk.symbol == '(end)':
            break
    impl = f'{",".join(syms)};err={err};last={p.next_token.symbol}'
    return line, impl, registered, len(matches)


def correspond_lexer(run: Run, sources: list) -> None:
    lines, impls, cases, regs = [], [], [], []
    for v, src in sources:
        if any(0xD800 <= ord(c) < 0xE000 for c in src) or ',' in src and False:
            continue   # lone surrogates are not Lean `Char`s: not representable on the model side
        for own in ((False, True) if v != '1.0' else (False,)):
            line, impl, reg, nm = lexer_case(v, src, own)
            lines.append(line)
            impls.append(impl)
            regs.append(reg)
            cases.append({'kind': 'lexer', 'v': v, 'advance': 'own' if own else 'base',
                          's': src[:300] + ('…' if len(src) > 300 else ''), 'matches': nm})
    answers = run.driver('C03', lines)
    st = run.stats
    for case, impl, reg, ans in zip(cases, impls, regs, answers):
        if not ans.startswith('model='):
            run.disagree(Disagreement(case, 'driver:' + ans, what='protocol'))
            continue
        body, pat = ans.rsplit(' pat=', 1)
        model, spec = body[len('model='):].split(' spec=')
        st.case(case, nontrivial=case['matches'] > 1)
        st.count('lexer:sources:' + case['advance'])
        st.count('lexer:matches', case['matches'])
        err = impl.split(';err=')[1].split(';')[0]
        st.count('lexer:outcome:' + ('end-of-source' if err == '-' else err))
        for sym in impl.split(';err=')[0].split(','):
            if sym in ('(string)', '(float)', '(decimal)', '(integer)', '(name)', '(unknown)', '(invalid)', '(end)'):
                st.count('lexer:special:' + sym)
        impl_class = 'ok' if (reg and (err == '-' or (err.startswith('ERR:') and not err.startswith('ERR:OTHER')
                                                      and not err.startswith('ERR:NOCODE')))) else 'bad'
        if pat != '1':
            run.disagree(Disagreement(case, 'match-not-from-5-alternative-pattern', None, None,
                                      what='tokenizer-shape'))
        if impl_class != 'ok' or spec != 'ok':
            run.disagree(Disagreement(case, impl if impl_class != 'ok' else 'ok', model, 'ok' if spec == 'ok' else model,
                                      what='lexer-escape', site='Parser.advance'))
        elif impl != model:
            run.disagree(Disagreement(case, impl, model, what='lexer-tokens', site='Parser.advance'))


# --------------------------------------------------------------------------------------
# (t) taxonomy: xpath_error() vs model
# --------------------------------------------------------------------------------------
XQT = 'http://www.w3.org/2005/xqt-errors'
NS_VARIANTS = [None, {}, {'err': XQT}, {'e': XQT}, {'': XQT}, {'err': 'http://other'},
               {'err': 'http://other', 'z': XQT}, {'a': 'http://a', 'err': XQT}]


def taxonomy_cases(rng, n: int):
    import elementpath.exceptions as exc_mod
    codes = list(exc_mod.XPATH_ERROR_CODES)
    out = []
    for c in codes:
        out.append((None, 's', c))
        out.append((rng.choice(NS_VARIANTS), 's', rng.choice(['err:', 'e:', 'z:', '', '{%s}' % XQT]) + c))
    junk = ['', ':', 'err:', 'XPST9999', 'foo:XPST0003', 'err:err:XPST0003', '{bad}XPST0003', '{a}b}c', '{', '}',
            '{%s}' % XQT, '{%s}NOPE0000' % XQT, 'err:NOPE0000', 'e:XPST0003', ':XPST0003', 'xpst0003', 'XPST0003 ',
            'err:XPST0003:', '{}XPST0003', 'Q{%s}XPST0003' % XQT]
    for j in junk:
        for ns in NS_VARIANTS:
            out.append((ns, 's', j))
    for _ in range(n):
        c = rng.choice(codes)
        k = rng.random()
        if k < 0.3:
            c = c[:rng.randrange(len(c))] + rng.choice('XxA0:{}e ') + c[rng.randrange(len(c)):]
        elif k < 0.5:
            c = rng.choice(['err:', 'e:', 'z:', 'a:', ':']) + c
        elif k < 0.6:
            c = '{' + rng.choice([XQT, 'http://x', '']) + '}' + c
        out.append((rng.choice(NS_VARIANTS), 's', c))
    for uri in (XQT, 'http://x', ''):
        for qn in ('err:XPST0003', 'XPST0003', 'p:custom', 'x', 'err:NOPE0000', 'FOER0000'):
            out.append((rng.choice(NS_VARIANTS), 'q', (uri, qn)))
    return out


def correspond_taxonomy(run: Run, n: int) -> None:
    from elementpath import ElementPathError
    from elementpath.exceptions import xpath_error
    from elementpath.datatypes import QName
    lines, impls, cases = [], [], []
    for ns, kind, arg in taxonomy_cases(run.rng, n):
        nstxt = ';'.join(f'{enc(k)}~{enc(u)}' for k, u in (ns or {}).items())
        if kind == 's':
            if any(0xD800 <= ord(c) < 0xE000 for c in arg):
                continue
            line = f'E ns={nstxt} k=s code={enc(arg)}'
            call = (lambda a=arg, n_=ns: xpath_error(a, None, None, n_))
        else:
            uri, qn = arg
            pfx, _, local = qn.rpartition(':')
            line = f'E ns={nstxt} k=q uri={enc(uri)} p={enc(pfx)} l={enc(local)}'
            if not uri and pfx:
                continue    # QName('', 'p:x') is rejected by the QName constructor itself
            call = (lambda u=uri, q=qn, n_=ns: xpath_error(QName(u, q), None, None, n_))
        try:
            e = call()
            raised = 0
        except BaseException as ex:   # noqa
            e, raised = ex, 1
        if isinstance(e, ElementPathError):
            impl = f'{type(e).__name__},{enc(e.code or "")},{raised}'
            ok = bool(e.code)
        else:
            impl = f'OTHER:{type(e).__name__},_,{raised}'
            ok = False
        lines.append(line)
        impls.append((impl, ok))
        cases.append({'kind': 'xpath_error', 'namespaces': ns, 'arg': arg})
    answers = run.driver('C03', lines)
    st = run.stats
    for case, (impl, ok), ans in zip(cases, impls, answers):
        if not ans.startswith('model='):
            run.disagree(Disagreement(case, 'driver:' + ans, what='protocol'))
            continue
        model, spec = ans[len('model='):].split(' spec=')
        st.case(case)
        st.count('xpath_error:calls')
        st.count('xpath_error:class:' + impl.split(',')[0])
        if not ok or spec != 'ok':
            run.disagree(Disagreement(case, impl, model, 'ElementPathError-with-code' if spec == 'ok' else model,
                                      what='taxonomy', site='exceptions.xpath_error'))
        elif impl != model:
            run.disagree(Disagreement(case, impl, model, what='xpath_error-model', site='exceptions.xpath_error'))


# --------------------------------------------------------------------------------------
# (c) exploration stream: malformed / ill-typed inputs, oracle = coded ElementPathError or value
# --------------------------------------------------------------------------------------
def gen_explore_cases(rng, n: int, matrix: str = 'classes') -> list[dict]:
    ft = {v: G.function_table(v, parser_class(v)) for v in VERSIONS}
    tk = {v: new_parser(v).tokenizer for v in VERSIONS}
    syms = {v: [k for k in parser_class(v).symbol_table if not k.startswith('(') or k == '(:'] for v in VERSIONS}
    cases = []
    for s in G.KNOWN_NASTIES:
        for v in VERSIONS:
            cases.append({'v': v, 's': s, 'c': 'doc', 'g': 'corpus'})
    if matrix != 'none':
        tnames = G.all_type_names([parser_class(v) for v in VERSIONS])
        for v in VERSIONS:
            for s, tag in G.typed_function_cases(v, tnames, full=(matrix == 'pool')):
                cases.append({'v': v, 's': s, 'c': 'doc', 'g': tag})
        for v in VERSIONS:
            for s, tag in G.name_cases(v):
                cases.append({'v': v, 's': s, 'c': 'doc', 'g': tag})
        for v in (VERSIONS if matrix == 'pool' else ['3.1']):
            for s, tag, dc in G.collation_cases(v):
                case = {'v': v, 's': s, 'c': 'doc', 'g': tag}
                if dc is not None:
                    case['dc'] = dc
                cases.append(case)
        for v in (VERSIONS if matrix == 'pool' else ['3.1']):
            for s, tag in G.magnitude_cases(v):
                cases.append({'v': v, 's': s, 'c': 'doc', 'g': tag})
        # quick: operators/functions are shared code between the versions -> the matrices are run with the
        # 1.0 parser (compatibility mode) and the 3.1 parser (everything); thorough: all four, full pool
        for v in (VERSIONS if matrix == 'pool' else ['1.0', '3.1']):
            for s, tag in G.matrix_cases(v, ft[v], full_pool=(matrix == 'pool')):
                cases.append({'v': v, 's': s, 'c': rng.choice(['doc', 'doc', 'elem', 'atom', 'noroot']), 'g': tag})
    for _ in range(n):
        v = rng.choice(VERSIONS)
        g = G.Gen(rng, v, ft[v])
        r = rng.random()
        if r < 0.30:
            s, kind = G.illtyped_call(g), 'illtyped-call'
        elif r < 0.40:
            s, kind = G.illtyped_op(g), 'illtyped-op'
        elif r < 0.58:
            s, kind = g.expr(rng.randint(1, 3)), 'grammar'
        elif r < 0.90:
            s = g.expr(rng.randint(1, 3)) if rng.random() < 0.7 else G.illtyped_call(g)
            kinds = []
            for _k in range(rng.choice([1, 1, 2])):
                s, k = G.mutate(rng, tk[v], syms[v], s)
                kinds.append(k)
            kind = 'mutation:' + kinds[0]
        else:
            s, kind = G.random_string(rng), 'random-unicode'
        cases.append({'v': v, 's': s, 'c': rng.choice(G.CTX_KINDS), 'g': kind})
    return cases


_TOKENIZERS: dict = {}


def source_symbols(v: str, src: str) -> tuple[list[str], int]:
    if v not in _TOKENIZERS:
        _TOKENIZERS[v] = new_parser(v).tokenizer
    syms, n = [], 0
    for m in _TOKENIZERS[v].finditer(src):
        lit, sym, name, unk = m.groups()
        if m.group().isspace():
            continue
        n += 1
        if sym is not None:
            syms.append(sym.strip())
        elif name is not None:
            syms.append(name)
    return sorted(set(syms)), n


def trigger_line(v: str, src: str, out: str, site: str) -> str:
    syms, n = source_symbols(v, src)
    syms = [s for s in syms if not any(0xD800 <= ord(c) < 0xE000 for c in s)]
    cls = out.split(':')[-1]
    return f'X cls={cls} site={site or "-"} n={n} syms={",".join(enc(s) for s in syms)}'


def accept_tag(ans: str) -> str:
    """`inK=<id>#<row>` counts only if that row's witness escaped in this run (LIVE_ROWS)"""
    if not ans.startswith('inK=') or '#' not in ans:
        return '-'
    fid, _, row = ans[len('inK='):].partition('#')
    return fid if int(row) in LIVE_ROWS else '-'


def judge_explored(run: Run, results: list[dict], count: bool = True) -> list[Disagreement]:
    """turn worker results into statistics and disagreements (tagged by the Lean trigger predicate)"""
    st = run.stats
    pending = []   # (case, out, site)
    for r in results:
        case = {'kind': 'explore', 'v': r['v'], 's': r['s'], 'c': r['c']}
        if r.get('dc') is not None:
            case['default_collation'] = r['dc']
        if r.get('pv'):
            case['parser_variant'] = r['pv']
        if count:
            st.case(case, nontrivial=len(r['steps']) > 1)
            st.count('explore:gen:' + r.get('g', '?').split(':')[0])
            st.count('explore:version:' + r['v'])
        seen = set()
        first_eval = None
        for name, out, site in r['steps']:
            cls = 'value' if out == 'ok' else ('coded-error' if not out.startswith(('ERR:OTHER', 'ERR:NOCODE')) else out)
            if count:
                st.count(f'explore:{name}:{cls if cls in ("value", "coded-error") else "ESCAPE"}')
                if cls == 'coded-error':
                    st.count('explore:code:' + out[4:])
            if name == 'evaluate':
                first_eval = out
            esc_pair = (first_eval or '').startswith(('ERR:OTHER', 'ERR:NOCODE')) or out.startswith(('ERR:OTHER', 'ERR:NOCODE'))
            if name == 'evaluate-again' and first_eval is not None and out != first_eval and not esc_pair:
                # (a pair involving an escape is reported as that escape, below)
                pending.append((dict(case, step='evaluate-twice'), 'second:' + out, 'first:' + first_eval))
            if cls not in ('value', 'coded-error') and (out, site) not in seen:
                seen.add((out, site))
                pending.append((dict(case, step=name), out, site))
    lines = [trigger_line(c['v'], c['s'], out, site) for c, out, site in pending if not out.startswith('second:')]
    answers = iter(run.driver('C03', lines)) if lines else iter(())
    ds = []
    for c, out, site in pending:
        if out.startswith('second:'):
            ds.append(Disagreement(c, out, None, site.replace('first:', 'second:'), what='evaluate-not-repeatable',
                                   site='XPathToken.evaluate'))
            continue
        ans = next(answers)
        tag = accept_tag(ans)
        if count:
            st.count('explore:escape:' + out.split(':')[-1] + ('' if tag == '-' else f'[{tag}]'))
        ds.append(Disagreement(c, out, None, SPEC_OK, what='escape', site=site, tags=[] if tag == '-' else [tag]))
    return ds


def explore(run: Run, n: int) -> list[dict]:
    wit = witness_cases()
    cases = wit + gen_explore_cases(run.rng, n, matrix='classes' if run.quick else 'pool')
    t0 = time.time()
    results = explore_many(cases, nworkers=int(os.environ.get('C03_WORKERS', '4')))
    check_row_witnesses(run, results[:len(wit)])
    run.log(f'{len(LIVE_ROWS)} of {len(ROW_WITNESS)} trigger rows live')
    for c, r in zip(cases, results):
        r['g'] = c.get('g', '?')
    run.log(f'explored {len(cases)} inputs in {time.time() - t0:.1f}s')
    for d in judge_explored(run, results):
        run.disagree(d)
    site_coverage(run, results)
    return cases


def site_coverage(run: Run, results: list[dict]) -> None:
    """evidence: how many `except` clauses / coded `raise` sites of the package this run's stream reached,
    and which (handler, declared class) pairs it did not"""
    hits = set()
    for r in results:
        hits.update(r.get('hits', ()))
    if not hits:
        run.stats.extra['error_sites'] = 'site monitoring unavailable'
        return
    sites = scan_error_sites()
    caught: dict[str, set] = {}
    for h in hits:
        parts = h.split('|')
        if parts[0] == 'H':
            caught.setdefault(parts[1], set()).update(parts[2].split('/'))
    raised = {h.split('|')[1] for h in hits if h.startswith('R|')}
    pairs = [(site, cls) for site, hd in sites['handlers'].items() for cls in hd['classes']]
    reached_pairs = [(s_, c) for s_, c in pairs if c in caught.get(s_, ()) or (c == '<bare>' and s_ in caught)]
    unreached = sorted(f'{s_}:{c}' for s_, c in pairs if (s_, c) not in set(reached_pairs))
    arith = ('InvalidOperation', 'DivisionByZero', 'DecimalException', 'Overflow', 'OverflowError', 'ZeroDivisionError',
             'ArithmeticError', 'UnicodeError', 'UnicodeDecodeError', 'UnicodeEncodeError', 'KeyError', 'IndexError',
             'LookupError', 'ValueError')
    ev = {
        'how': 'ast scan of elementpath/**/*.py; sys.monitoring LINE events in the exploration workers; a handler '
               'pair (site, class) is reached when an exception whose MRO contains the class entered that handler',
        'except_handlers': len(sites['handlers']), 'except_handlers_reached': len([s_ for s_ in sites['handlers'] if s_ in caught]),
        'handler_class_pairs': len(pairs), 'handler_class_pairs_reached': len(reached_pairs),
        'coded_raise_sites': len(sites['raises']), 'coded_raise_sites_reached': len(raised & set(sites['raises'])),
        'unreached_handler_pairs_arithmetic_lookup_unicode_value':
            [u for u in unreached if u.rsplit(':', 1)[1] in arith],
        'unreached_handler_pairs_other': [u for u in unreached if u.rsplit(':', 1)[1] not in arith],
        'unreached_raise_sites': sorted(f'{s_}[{sites["raises"][s_]["code"]}]' for s_ in sites['raises'] if s_ not in raised),
    }
    run.stats.extra['error_sites'] = ev
    run.stats.count('sites:except-handlers-reached', ev['except_handlers_reached'])
    run.stats.count('sites:except-handlers-total', ev['except_handlers'])
    run.stats.count('sites:handler-class-pairs-reached', ev['handler_class_pairs_reached'])
    run.stats.count('sites:handler-class-pairs-total', ev['handler_class_pairs'])
    run.stats.count('sites:coded-raise-sites-reached', ev['coded_raise_sites_reached'])
    run.stats.count('sites:coded-raise-sites-total', ev['coded_raise_sites'])


# --------------------------------------------------------------------------------------
# failing-input search and shrinking
# --------------------------------------------------------------------------------------
def search(run: Run):
    """something broke (a theorem over the generated tables, the build, or a tie): look for a concrete
    failing input with a wider net — exhaustive reuse pairs, every registered symbol through the
    lexer, every error code, and a second exploration stream"""
    sub = Run(PROP, run.tier, run.seed + 7919)
    if not LIVE_ROWS and ROW_WITNESS:
        check_row_witnesses(sub)
    sub.rng.seed(f'search/{run.seed}')
    # (a) every failing source followed by every succeeding source, per version, on one instance
    bad = ['1 +', '(', "'x", '(: c', '1 => (', "'a' => concat(", 'a[', '$', 'Q{', 'map{', '1 + "a"', 'xs:int("x")',
           'abs(', 'for $x in', 'if (1) then', '1 cast as', 'a/', None, 5]
    good = ['1', 'abs(-1)', 'a/b[1]', "xs:int('1')", 'count((1, 2))', '1 + 1', "concat('a', 'b')", '//b', '$s']
    lines, impls, cases = [], [], []
    for v in VERSIONS:
        for b in bad:
            for g in good:
                calls = [g, b, g, b, b, g]
                line, impl = history_line(v, calls)
                lines.append(line)
                impls.append(impl)
                cases.append({'kind': 'history', 'v': v, 'calls': [c if isinstance(c, str) else '<non-str>' for c in calls]})
    for case, impl, ans in zip(cases, impls, sub.driver('C03', lines)):
        model, spec = ans[len('model='):].split(' spec=')
        if impl != spec:
            k = next((i for i, (a, b) in enumerate(zip(impl.split('|'), spec.split('|'))) if a != b), 0)
            sub.disagree(Disagreement(dict(case, first_difference_at_call=k), impl.split('|')[k], None,
                                      spec.split('|')[k], what='parser-reuse', site='Parser.parse'))
    # (b) every registered symbol and every literal form through the lexer
    srcs = []
    for v in VERSIONS:
        keys = [k for k in parser_class(v).symbol_table if not k.startswith('(')]
        srcs.append((v, ' '.join(keys)))
        srcs += [(v, s) for s in ['1', '1.5', '.5', '1.', '1e3', '1E-3', '.5e+2', "'a'", '"b"', "'it''s'", '1' * 4301,
                                  '1' * 4301 + '.5', '1' * 400 + 'e1', '#', 'é', 'foo(', 'foo', '\t\n ', '',
                                  '1 2', '$a', 'a:b', '`', '~', '^', '&', '%', '\\']]
    correspond_lexer(sub, srcs)
    # (t) every error code
    correspond_taxonomy(sub, 500)
    # (c) a second, larger exploration stream
    for d in judge_explored(sub, explore_many(gen_explore_cases(sub.rng, run.scale(15000, 60000), matrix='classes'),
                                              nworkers=int(os.environ.get('C03_WORKERS', '4'))), count=False):
        sub.disagree(d)
    run.notes.append(f'search: {len(lines)} reuse histories, {len(srcs)} lexer sources, all error codes, '
                     f'second exploration stream; {len(sub.disagreements)} disagreements')
    return sub.disagreements


def shrink(d: Disagreement) -> Disagreement:
    case = d.case
    if not isinstance(case, dict):
        return d
    if str(case.get('kind', '')).startswith('loop:') and 'alphabet-table' not in case:
        from harness.c03_loops import shrink_loop
        from harness.common import run_driver
        return shrink_loop(run_driver, d)
    if case.get('kind') == 'explore':
        v, src, kind, step = case['v'], case['s'], case['c'], case.get('step')
        tk = new_parser(v).tokenizer

        def fails(s: str) -> bool:
            r = explore_many([dict({'v': v, 's': s, 'c': kind}, **({'dc': case['default_collation']} if case.get('default_collation') is not None else {}), **({'pv': case['parser_variant']} if case.get('parser_variant') else {}))], nworkers=1)[0]
            return any(out == d.impl and site == d.site for _n, out, site in r['steps'])

        toks = [m.group() for m in tk.finditer(src)]
        changed = True
        budget = 150
        while changed and budget > 0:
            changed = False
            for i in range(len(toks)):
                budget -= 1
                if budget <= 0:
                    break
                cand = toks[:i] + toks[i + 1:]
                if cand and fails(''.join(cand)):
                    toks = cand
                    changed = True
                    break
        small = ''.join(toks)
        if small != src and fails(small):
            return Disagreement(dict(case, s=small, original=src[:500]), d.impl, d.model, d.spec, d.what, d.site, d.tags)
    if case.get('kind') == 'history':
        return d   # reported with the index of the first differing call; calls before it are the cause
    return d


# --------------------------------------------------------------------------------------
ROW_WITNESS: dict = {}     # row index -> (finding id, class, site, witness case)
LIVE_ROWS: set = set()      # rows whose own witness still escapes in this run (only these may tag)


def witness_cases() -> list[dict]:
    return [dict(w[3], g='row-witness') for _k, w in sorted(ROW_WITNESS.items()) if w[3]]


def check_row_witnesses(run: Run, results=None) -> None:
    """every trigger row must earn its keep in every run: its witness input is replayed first; a row whose
    witness no longer produces (class, site) is DEACTIVATED for this run (it tags nothing) and reported"""
    LIVE_ROWS.clear()
    items = sorted(ROW_WITNESS.items())
    if results is None:
        cases = witness_cases()
        results = explore_many(cases, nworkers=int(os.environ.get('C03_WORKERS', '4'))) if cases else []
    it = iter(results)
    stale = []
    for k, (fid, cls, site, wit) in items:
        r = next(it) if wit else None
        ok = r is not None and any(out.split(':')[-1] == cls and EPVsite(site, st_site)
                                   for _n, out, st_site in r['steps'] if out.startswith(('ERR:OTHER', 'ERR:NOCODE')))
        if ok:
            LIVE_ROWS.add(k)
        else:
            stale.append(f'{fid} row {k} {cls} @ {site}')
    run.stats.count('trigger-rows:live', len(LIVE_ROWS))
    run.stats.count('trigger-rows:stale', len(stale))
    if stale:
        run.notes.append('trigger rows whose witness no longer escapes (deactivated in this run; remove them): ' + '; '.join(stale))


def EPVsite(pat: str, site: str) -> bool:
    if pat == '*' or pat == site:
        return True
    if pat.startswith(':') and pat.endswith('*'):
        return (site.split(':')[1] if ':' in site else '').startswith(pat[1:-1])
    return False


def check_trigger_table(run: Run) -> None:
    """findings/C03.json and the Lean trigger table must describe the same rows"""
    f = VERIF / 'findings' / 'C03.json'
    if not f.exists():
        return
    data = json.loads(f.read_text())
    want = set()
    for fd in data.get('findings', []):
        for row in fd.get('sites', []):
            want.add((fd['id'], row['class'], row['site'], ','.join(row.get('any_symbol', [])), str(row.get('min_tokens', 0))))
            ROW_WITNESS[int(row['row'])] = (fd['id'], row['class'], row['site'], row.get('witness'))
    dump = run.driver('C03', ['T'])[0]
    have = {tuple(r.split(';')) for r in dump.split('|') if r}
    if want != have:
        raise RuntimeError('findings/C03.json and EPV.C03Esc.rows differ: only-json=%r only-lean=%r'
                           % (sorted(want - have)[:5], sorted(have - want)[:5]))


def replay(run: Run) -> int:
    data = json.loads(Path(run.replay).read_text())
    fi = data.get('failing_input')
    if not fi:
        print('replay file has no failing input (broken obligations: %s)' % data.get('broken'))
        return 1
    case = fi['case']
    print('replaying', json.dumps(case)[:400])
    if case.get('kind') == 'explore':
        r = explore_many([dict({'v': case['v'], 's': case['s'], 'c': case['c']}, **({'dc': case['default_collation']} if case.get('default_collation') is not None else {}), **({'pv': case['parser_variant']} if case.get('parser_variant') else {}))], nworkers=1)[0]
        print('steps:', r['steps'])
        bad = [s for s in r['steps'] if s[1].startswith(('ERR:OTHER', 'ERR:NOCODE'))]
        return 1 if bad else 0
    if case.get('kind') == 'history':
        calls = [c if not c.startswith('<non-str') else None for c in case['calls']]
        line, impl = history_line(case['v'], calls, case.get('variant', 'default'))
        ans = run.driver('C03', [line])[0]
        spec = ans.split(' spec=')[1]
        for a, b in zip(impl.split('|'), spec.split('|')):
            print(('   ' if a == b else '!! ') + a + ('' if a == b else '   fresh: ' + b))
        return 0 if impl == spec else 1
    if case.get('kind') == 'lexer':
        line, impl, reg, _ = lexer_case(case['v'], case['s'], case.get('advance') == 'own')
        print(impl, run.driver('C03', [line])[0])
        return 1
    if str(case.get('kind', '')).startswith('loop:'):
        from harness.c03_loops import replay_loop
        return replay_loop(run, case)
    print('unsupported replay kind')
    return 2


def body(run: Run) -> int:
    if getattr(run, 'replay', None):
        return replay(run)
    import warnings
    warnings.simplefilter('ignore')
    info = translate_tables(run)
    run.stats.extra['tables'] = {k: v for k, v in info.items() if k not in ('parse_shape', 'xp1_parse_shape')}
    run.trusted_base += [
        'translator harness/c03.py::translate_tables (symbol tables, exception class graph, XPATH_ERROR_CODES, '
        'ast of Parser.parse / XPath1Parser.parse, ast scan of cursor-attribute assignments, printed as Lean literals)',
        'the `re` engine (which matches the tokenizer pattern produces for a source is observed, not modelled)',
        'float()/Decimal()/int() of CPython: abstract oracles in the theorems, CPython 3.12 behaviour in the driver']
    run.assumptions += [
        'a parser instance has no mutable per-instance state read by parsing other than the six modelled '
        'attributes (checked by the generated table of attribute writers, theorem cursor_written_at_parse_time_only)',
        'PARTIAL: "no other exception type escapes from any parse/evaluate call" is NOT proved; it is explored by '
        'the malformed/ill-typed input stream (counts under explore:* in the histogram); proved are parser reuse, '
        'lexer totality and the closure of the error taxonomy',
        'class-level state (symbol_table, tokenizer) is shared by all instances and not part of the reuse statement']
    run.stats.extra['partial'] = ('part (c) "no other exception type escapes from ANY parse/evaluate, no hang" is NOT '
                                  'proved: histogram keys explore:* are an exploration (failing-input search), '
                                  'the theorems cover parser reuse, lexer totality/termination and the error taxonomy')
    run.prove(['EPV.Props.C03', 'EPV.Props.C03Tables', 'EPV.Props.C03Loops', 'EPV.Props.C03Loops2'], ['EPV.Spec.EscapeTriggers'])
    for code in info.get('codes_not_closed', []):
        run.disagree(Disagreement({'kind': 'error-code', 'code': code}, 'class-not-ElementPathError', None,
                                  'subclass-of-ElementPathError', what='taxonomy', site='exceptions.XPATH_ERROR_CODES'))
    run.log('proofs built and audited')
    try:
        check_trigger_table(run)
        cases = explore(run, run.scale(14000, 150000))      # (replays the row witnesses first)
        correspond_histories(run, run.scale(250, 2500))
        run.log('histories done')
        lex_sources = [(c['v'], c['s']) for c in cases[::run.scale(6, 12)]]
        lex_sources += [(v, ' '.join(k for k in parser_class(v).symbol_table if not k.startswith('('))) for v in VERSIONS]
        lex_sources += [(VERSIONS[i % 4], s) for i, s in enumerate(G.KNOWN_NASTIES) if len(s) <= 300]
        lex_sources += [(v, s) for v in VERSIONS for s in ('.1.', '.1.5e3', '1.2.3', '1' * 4301, '1' * 4301 + '.5', "'it''s'", '(: c :) 1',
                                                             '1 (: a (: b :) c :) 2', '(: x', '(: (: :)', ':)', '1 (::) 2',
                                                             'a:(: c :)b', '(: :) :x', '(:(:(:', '1 (: :) (: :) 2', '(: "x :) 1')]
        correspond_lexer(run, lex_sources)
        correspond_taxonomy(run, run.scale(600, 6000))
        from harness.c03_loops import correspond_loops
        correspond_loops(run, run.scale(60, 400))
        run.log('loops done')
    except DriverError as e:
        run.broken.append('driver:C03 ' + str(e)[:300])
    run.stats.rule = (
        'histories: 2..12 interleaved failing/succeeding parse() calls (grammar-derived, one-token mutations, known '
        'nasties, failing `=>` operands, non-string sources) on ONE parser instance per version, after every call the '
        'outcome (tree / code+message) and the six cursor attributes are compared with a fresh instance and with the '
        'Lean cursor model; evaluate after failed evaluate on the same token. lexer: every tokenizer match of sampled '
        'sources through the real base Parser.advance vs the Lean model. xpath_error: all codes, prefixed/braced/'
        'mutated, QNames, 8 namespace maps. explore: grammar-derived, mutated, ill-typed, random-Unicode expressions x 4 '
        'parser versions x 6 contexts, each parsed and evaluated 5 ways under a 5 s watchdog. loops (loop:*): '
        'int_to_alphabetic on the live alphabets and on injected ones (empty, repeated, astral, unary) x boundary and '
        'random big numbers; get_argument_tokens on every token of parsed comma trees and on trees with a damaged '
        "',' token; ElementNode.iter_descendants on element nodes of ElementTree/lxml node trees (deep, wide, text, "
        'comments, PIs) and on hand-edited children lists; the parent walks of iter_ancestors / iter_preceding / iter_followings / lang() (1.0, 2.0) on every kind of item x document / element / fragment contexts and on contexts whose root was moved inside the tree; live = Lean loop model = recursive spec. distinct = distinct '
        'request cases; non-trivial = history with both failing and succeeding calls / source with >1 token / parsed '
        'expression')
    return run.finish('proof', shrink=shrink, search=search)


if __name__ == '__main__':
    cli(PROP, body, translate=translate_tables)

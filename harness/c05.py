"""
C05 — evaluation is pure and repeatable; variable bindings are lexically scoped.

 prove     : EPV.Props.C05 (eval_env_unchanged, eval_heap_unchanged, repeatable, eval_eq_sem_partial, ...)
 correspond: generated programs (nested / shadowing for, let, some, every, inline functions and calls,
             xs:dateTime arithmetic with the implicit timezone) x HISTORIES of 3..8 evaluations of ONE
             parsed token / Selector over 2..3 documents (ElementTree and lxml), different variable maps
             and implicit timezones.  After every step:
               result (real code) == Lean model == Lean spec == freshly parsed expression on a fresh context,
               tostring(root) unchanged, caller's variables dict / objects (tzinfo!) unchanged,
               namespaces dict unchanged, select == list(iter_select),
             and the token tree the real parser built is the expression the model evaluated.
 search    : systematic scope templates (every binder kind inside every binder kind, shadowing a caller's
             variable or not, followed by a reference after the scope) + a larger random batch.
"""
from __future__ import annotations

import copy as _copy
import datetime
import re
import sys
from pathlib import Path

sys.path.insert(0, str(Path(__file__).resolve().parent.parent))
from harness.common import (Run, Disagreement, cli, DriverError)  # noqa: E402
from harness import c05_focus  # noqa: E402

PROP = 'C05'
EPOCH = datetime.datetime(2000, 1, 1)
NS = {'p': 'urn:c05:p', 'xs': 'http://www.w3.org/2001/XMLSchema'}
DOCVARS = {90: 'count(//b)', 91: 'count(/*/*)', 92: '/*/string-length#0()'}
BINDERS = ('L', 'F', 'O', 'Y')
KW = {'L': ('let', ':=', 'return'), 'F': ('for', 'in', 'return'),
      'O': ('some', 'in', 'satisfies'), 'Y': ('every', 'in', 'satisfies')}

DOCS = [
    ('et', '<a><b>1</b><b>2</b><c/></a>'),
    ('et', '<a n="3"><b/><d><b/><b/></d><b/></a>'),
    ('lxml', '<a xmlns:p="urn:c05:p"><p:b/><c><b>x</b></c></a>'),
    ('lxml', '<r><b/><b/><b/><b/><b/></r>'),
    ('et', '<a/>'),
    ('et', '<a><b>1</b>t1<b>2</b>t2<c/>t3</a>'),
    ('lxml', '<a><b>x</b>tail<!--c--><?pi y?><b/>end</a>'),
    ('et', '<a><b>x&#13;y</b>t&#13;<c>&#13;</c>z<b/></a>'),
    ('et', '<a xml:lang="en-US"><b><c>x</c></b><d xml:lang="de"><b/><e/></d></a>'),
    ('lxml', '<a xml:lang="en"><b xml:lang="fr-CA"><c><b>x</b></c></b><d/></a>'),      # U+000D in text and tail (fn:serialize marks it in a deep copy)
]


# ------------------------------------------------------------------------------- AST helpers
def wrap_operand(e):
    """operands of infix operators, ranges, let values, arguments: anything that is not primary gets ( )"""
    return ('P', e) if e[0] in ('S', 'A', 'M', 'Q', 'L', 'F', 'O', 'Y') else e


def wrap_body(e):
    return ('P', e) if e[0] == 'S' else e


def mk_seq(items):
    """left-nested `,` spine as the real parser builds it; every element is an operand"""
    items = [wrap_operand(x) for x in items]
    if not items:
        return ('E',)
    if len(items) == 1:
        return items[0]
    acc = ('S', items[0], items[1])
    for x in items[2:]:
        acc = ('S', acc, x)
    return ('P', acc)


def mk_call(f, args):
    f = f if f[0] in ('V', 'N', 'P', 'C', 'C0') else ('P', f)
    if not args:
        return ('C0', f)
    args = [wrap_operand(a) for a in args]
    acc = args[0]
    for x in args[1:]:
        acc = ('S', acc, x)
    return ('C', f, acc)


def encode(e) -> str:
    t = e[0]
    if t == 'I':
        return f'I {e[1]}'
    if t == 'V':
        return f'V {e[1]}'
    if t == 'E':
        return 'E'
    if t in ('P', 'Z', 'C0', 'J'):
        return f'{t} {encode(e[1])}'
    if t == 'K':
        return f'K {e[1]}'
    if t in ('S', 'A', 'M', 'Q', 'C', 'J2'):
        return f'{t} {encode(e[1])} {encode(e[2])}'
    if t == 'D':
        return f'D {e[1]} {"n" if e[2] is None else e[2]}'
    if t in BINDERS:
        return f'{t} {e[1]} {encode(e[2])} {encode(e[3])}'
    if t == 'N':
        return f'N {len(e[1])} ' + ''.join(f'{p} ' for p in e[1]) + encode(e[2])
    raise ValueError(e)


def tz_text(z):
    if z is None:
        return ''
    sign = '-' if z < 0 else '+'
    z = abs(z)
    return f'{sign}{z // 60:02d}:{z % 60:02d}'


def dt_text(loc, tz):
    return (EPOCH + datetime.timedelta(seconds=loc)).strftime('%Y-%m-%dT%H:%M:%S') + tz_text(tz)


def dur_text(secs: int) -> str:
    sign = '-' if secs < 0 else ''
    a = abs(secs)
    return f'{sign}PT{a // 3600}H{a // 60 % 60}M{a % 60}S' if a else 'PT0S'


def render(e, merge=False) -> str:
    t = e[0]
    if t == 'I':
        return str(e[1])
    if t == 'V':
        return DOCVARS.get(e[1]) or f'$v{e[1]}'
    if t == 'E':
        return '()'
    if t == 'P':
        return f'({render(e[1], merge)})'
    if t == 'S':
        return f'{render(e[1], merge)}, {render(e[2], merge)}'
    if t in ('A', 'M', 'Q'):
        return f'{render(e[1], merge)} {"+-="["AMQ".index(t)]} {render(e[2], merge)}'
    if t == 'D':
        return f"xs:dateTime('{dt_text(e[1], e[2])}')"
    if t == 'Z':
        return f'timezone-from-dateTime({render(e[1], merge)})'
    if t == 'K':
        return f"xs:dayTimeDuration('{dur_text(e[1])}')"
    if t == 'J':
        return f'adjust-dateTime-to-timezone({render(e[1], merge)})'
    if t == 'J2':
        return f'adjust-dateTime-to-timezone({render(e[1], merge)}, {render(e[2], merge)})'
    if t in BINDERS:
        kw, mid, fin = KW[t]
        clauses = [(e[1], e[2])]
        body = e[3]
        while merge and body[0] == t:
            clauses.append((body[1], body[2]))
            body = body[3]
        cl = ', '.join(f'$v{x} {mid} {render(r, merge)}' for x, r in clauses)
        return f'{kw} {cl} {fin} {render(body, merge)}'
    if t == 'N':
        return 'function(' + ', '.join(f'$v{p}' for p in e[1]) + ') { ' + render(e[2], merge) + ' }'
    if t == 'C0':
        return f'{render(e[1], merge)}()'
    if t == 'C':
        return f'{render(e[1], merge)}({render(e[2], merge)})'
    raise ValueError(e)


def names_in(e, acc=None):
    """every variable name that occurs in e (references and binders)"""
    acc = set() if acc is None else acc
    t = e[0]
    if t == 'V':
        acc.add(e[1])
    elif t in BINDERS:
        acc.add(e[1])
        names_in(e[2], acc)
        names_in(e[3], acc)
    elif t == 'N':
        acc.update(e[1])
        names_in(e[2], acc)
    else:
        for c in e[1:]:
            if isinstance(c, tuple):
                names_in(c, acc)
    return acc


def size_of(e) -> int:
    return 1 + sum(size_of(c) for c in e[1:] if isinstance(c, tuple) and c and isinstance(c[0], str))


def kinds_in(e, acc=None):
    acc = {} if acc is None else acc
    acc[e[0]] = acc.get(e[0], 0) + 1
    for c in e[1:]:
        if isinstance(c, tuple) and c and isinstance(c[0], str):
            kinds_in(c, acc)
    return acc


def shadow_depth(e, bound=frozenset()) -> int:
    """number of binders/parameters that re-bind a name already bound around them"""
    t = e[0]
    if t in BINDERS:
        return (1 if e[1] in bound else 0) + shadow_depth(e[2], bound) + shadow_depth(e[3], bound | {e[1]})
    if t == 'N':
        return sum(1 for p in e[1] if p in bound) + shadow_depth(e[2], bound | set(e[1]))
    return sum(shadow_depth(c, bound) for c in e[1:] if isinstance(c, tuple) and c and isinstance(c[0], str))


# -------------------------------------------------------------------------------- generator
class Gen:
    """typed construction: int (one integer), seq (integers), bool, dt (one dateTime), dur (0..1 durations),
    ('fn', k, ret) functions of k integer parameters.  Everything generated here is error-free; errors
    (references after the end of a scope) are added by `program` at strict top-level positions only."""

    POOL = list(range(6))

    def __init__(self, rng, globals_):
        self.rng = rng
        self.globals = dict(globals_)      # name -> type

    def pick_name(self, scope, avoid=()):
        cands = [n for n in self.POOL if n not in avoid]
        if not cands:
            cands = [n for n in range(6, 12) if n not in avoid]
        inscope = [n for n in cands if n in scope]
        if inscope and self.rng.random() < 0.55:
            return self.rng.choice(inscope)      # shadowing
        return self.rng.choice(cands)

    def vars_of(self, scope, ty):
        return [n for n, t in scope.items() if t == ty]

    def any_type(self, d):
        r = self.rng.random()
        if r < 0.4:
            return 'int'
        if r < 0.65:
            return 'seq'
        if r < 0.75:
            return 'bool'
        if r < 0.85 and d > 0:
            k = self.rng.choice([0, 1, 1, 2])
            return ('fn', k, self.rng.choice(['int', 'int', 'seq']))
        if r < 0.93:
            return 'dt'
        return 'int'

    def gen(self, ty, scope, d):
        if ty == 'int':
            return self.g_int(scope, d)
        if ty == 'seq':
            return self.g_seq(scope, d)
        if ty == 'bool':
            return self.g_bool(scope, d)
        if ty == 'dt':
            return self.g_dt(scope, d)
        if ty == 'dur':
            return self.g_dur(scope, d)
        return self.g_fn(ty, scope, d)

    def binder_let(self, ty, scope, d):
        vt = self.any_type(d - 1)
        val = self.gen(vt, scope, d - 1)
        x = self.pick_name(scope)
        body = self.gen(ty, {**scope, x: vt}, d - 1)
        return ('L', x, wrap_operand(val), wrap_body(body))

    def call_of(self, ret, scope, d):
        """a call of some function whose result type is `ret`"""
        k = self.rng.choice([0, 1, 1, 2])
        fty = ('fn', k, ret)
        f = self.g_fn(fty, scope, d - 1)
        args = [self.g_int(scope, d - 1) for _ in range(k)]
        return mk_call(f, args)

    def g_int(self, scope, d):
        rng = self.rng
        opts = ['lit']
        vs = self.vars_of(scope, 'int')
        if vs:
            opts += ['var'] * 3
        opts += ['doc']
        if d > 0:
            opts += ['add', 'add', 'sub', 'let', 'let', 'call', 'call', 'paren']
        o = rng.choice(opts)
        if o == 'lit':
            return ('I', rng.randrange(0, 12))
        if o == 'var':
            return ('V', rng.choice(vs))
        if o == 'doc':
            return ('V', rng.choice([90, 91, 92]))
        if o in ('add', 'sub'):
            a, b = self.g_int(scope, d - 1), self.g_int(scope, d - 1)
            return ('A' if o == 'add' else 'M', wrap_operand(a), wrap_operand(b))
        if o == 'let':
            return self.binder_let('int', scope, d)
        if o == 'call':
            return self.call_of('int', scope, d)
        return ('P', self.g_int(scope, d - 1))

    def g_seq(self, scope, d):
        rng = self.rng
        opts = ['empty', 'int']
        vs = self.vars_of(scope, 'seq')
        if vs:
            opts += ['var'] * 3
        if d > 0:
            opts += ['list', 'list', 'for', 'for', 'for', 'let', 'call', 'emptyarith']
        o = rng.choice(opts)
        if o == 'emptyarith':
            # get_operands: an empty operand makes the result empty, the other operand is (not) evaluated
            other = wrap_operand(self.g_int(scope, d - 1))
            op = rng.choice(['A', 'M'])
            return (op, ('E',), other) if rng.random() < 0.5 else (op, other, ('E',))
        if o == 'empty':
            return ('E',)
        if o == 'int':
            return self.g_int(scope, d)
        if o == 'var':
            return ('V', rng.choice(vs))
        if o == 'list':
            n = rng.randrange(2, 4)
            return mk_seq([self.gen(rng.choice(['int', 'int', 'seq']), scope, d - 1) for _ in range(n)])
        if o == 'for':
            return self.binder_loop('F', scope, d, rng.choice(['int', 'seq']))
        if o == 'let':
            return self.binder_let('seq', scope, d)
        return self.call_of('seq', scope, d)

    def binder_loop(self, kind, scope, d, body_ty):
        rng_e = self.g_seq(scope, d - 1)
        # the parser rejects a loop variable that occurs (anywhere) in its own range expression
        x = self.pick_name(scope, avoid=names_in(rng_e))
        body = self.gen(body_ty, {**scope, x: 'int'}, d - 1)
        return (kind, x, wrap_operand(rng_e), wrap_body(body))

    def g_bool(self, scope, d):
        rng = self.rng
        opts = ['eq']
        if d > 0:
            opts += ['eq', 'some', 'every', 'some', 'every']
        o = rng.choice(opts)
        if o == 'eq':
            return ('Q', wrap_operand(self.g_seq(scope, max(d - 1, 0))), wrap_operand(self.g_seq(scope, max(d - 1, 0))))
        return self.binder_loop('O' if o == 'some' else 'Y', scope, d, rng.choice(['bool', 'bool', 'int']))

    def g_dt(self, scope, d):
        rng = self.rng
        vs = self.vars_of(scope, 'dt')
        if rng.random() < 0.04:
            return ('E',)       # xs:dateTime? : the empty sequence as operand / argument
        if vs and rng.random() < 0.65:
            return ('V', rng.choice(vs))
        if d > 0 and rng.random() < 0.25:
            return self.binder_let('dt', scope, d)
        if d > 0 and rng.random() < 0.35:
            # fn:adjust-dateTime-to-timezone, 1- and 2-argument forms, `()` / literal / timezone-from-dateTime as target
            inner = self.g_dt(scope, d - 1)
            r = rng.random()
            if r < 0.4:
                return ('J', wrap_operand(inner))
            if r < 0.6:
                z = ('E',)
            elif r < 0.85:
                z = ('K', rng.randrange(-28, 29) * 1800)
            else:
                z = ('Z', wrap_operand(self.g_dt(scope, d - 1)))
            return ('J2', wrap_operand(inner), z)
        loc = rng.randrange(-5 * 86400, 5 * 86400)
        tz = None if rng.random() < 0.45 else rng.randrange(-28, 29) * 30
        return ('D', loc, tz)

    def g_dur(self, scope, d):
        if self.rng.random() < 0.3:
            return ('Z', self.g_dt(scope, d - 1))
        return ('M', wrap_operand(self.g_dt(scope, d - 1)), wrap_operand(self.g_dt(scope, d - 1)))

    def g_fn(self, ty, scope, d):
        rng = self.rng
        _, k, ret = ty
        vs = self.vars_of(scope, ty)
        if vs and rng.random() < 0.6:
            return ('V', rng.choice(vs))
        if d > 0 and rng.random() < 0.2:
            return ('P', self.binder_let(ty, scope, d))
        if d > 1 and rng.random() < 0.12:
            # a function that returns this function:  function($n){ function(..){..} }(arg)
            outer = ('fn', 1, ty)
            p = self.pick_name(scope)
            inner = self.g_fn(ty, {**scope, p: 'int'}, d - 1)
            if inner[0] != 'N':
                inner = wrap_operand(inner)
            return mk_call(('N', (p,), inner), [self.g_int(scope, d - 1)])
        ps = []
        for _ in range(k):
            ps.append(self.pick_name(scope, avoid=ps))
        body = self.gen(ret, {**scope, **{p: 'int' for p in ps}}, max(d - 1, 0))
        return ('N', tuple(ps), body)


def gen_program(rng, globals_, depth):
    """returns (ast, flavour)"""
    g = Gen(rng, globals_)
    scope = dict(globals_)
    comps = []
    flavour = 'plain'
    n = rng.choice([1, 1, 2, 2, 3, 4])
    for _ in range(n):
        ty = rng.choice(['int', 'int', 'seq', 'seq', 'bool', 'dur', 'dur', ('fn', 1, 'int'), 'dt'])
        if ty in ('dur', 'dt') and not any(t == 'dt' for t in scope.values()) and rng.random() < 0.5:
            ty = 'int'
        dts = [n_ for n_, t in scope.items() if t == 'dts']
        if dts and rng.random() < 0.5:
            # a loop over a caller's sequence of dateTime objects
            rv = rng.choice(dts)
            x = g.pick_name(scope, avoid=(rv,))      # `for $x in $x` is rejected by the parser
            inner = {**scope, x: 'dt'}
            body = g.g_dur(inner, 1) if rng.random() < 0.7 else ('M', ('V', x), wrap_operand(g.g_dt(inner, 1)))
            comps.append(('F', x, ('V', rv), wrap_body(body)))
            continue
        comps.append(g.gen(ty, scope, depth))
    r = rng.random()
    if r < 0.30:
        # reference after the end of a scope: (..., BINDER x ..., $x)
        kind = rng.choice(['L', 'F', 'O', 'Y', 'call', 'nested'])
        outer_int = [n_ for n_, t in scope.items() if t == 'int']
        if rng.random() < 0.6 and outer_int:
            x = rng.choice(outer_int)
            flavour = 'after-scope:restored'
        else:
            x = rng.choice([n_ for n_ in Gen.POOL + [6, 7] if n_ not in scope])
            flavour = 'after-scope:unbound'
        inner_scope = {**scope, x: 'int'}
        if kind == 'L':
            b = ('L', x, wrap_operand(g.g_int(scope, 1)), wrap_body(g.g_int(inner_scope, depth - 1)))
        elif kind in ('F', 'O', 'Y'):
            rg = mk_seq([g.g_int({k: v for k, v in scope.items() if k != x}, 0) for _ in range(rng.randrange(1, 4))])
            if x in names_in(rg):
                rg = mk_seq([('I', 1), ('I', 2)])
            body = g.gen('int' if kind == 'F' else 'bool', inner_scope, depth - 1)
            b = (kind, x, wrap_operand(rg), wrap_body(body))
        elif kind == 'call':
            b = mk_call(('N', (x,), g.g_int(inner_scope, depth - 1)), [g.g_int(scope, 1)])
        else:
            inner = mk_call(('N', (x,), g.g_int(inner_scope, 1)), [g.g_int(inner_scope, 0)])
            b = ('L', x, wrap_operand(g.g_int(scope, 0)), mk_seq([inner, ('V', x)]))
        comps.append(b)
        comps.append(('V', x))
    elif r < 0.36:
        # dynamic-scope probe (finding F05c): a function body refers to a variable that is only bound where
        # the function is CALLED
        y = rng.choice([n_ for n_ in Gen.POOL + [6, 7] if n_ not in scope])
        f = rng.choice([n_ for n_ in Gen.POOL + [6, 7] if n_ not in scope and n_ != y])
        body = ('A', ('V', y), ('I', rng.randrange(5)))
        callsite = rng.choice(['L', 'F'])
        if callsite == 'L':
            inner = ('L', y, ('I', rng.randrange(9)), mk_call(('V', f), []))
        else:
            inner = ('F', y, mk_seq([('I', 3), ('I', 4)]), mk_call(('V', f), []))
        comps.append(('L', f, ('N', (), body), inner))
        flavour = 'dynamic-scope'
    elif r < 0.46:
        # several function items created by ONE inline function expression and called afterwards
        free = [n_ for n_ in Gen.POOL + [6, 7] if n_ not in scope]
        i, fs, f, a = rng.sample(free, 4)
        rg = mk_seq([g.g_int(scope, 1) for _ in range(rng.randrange(2, 4))])
        if i in names_in(rg):
            rg = mk_seq([('I', 1), ('I', 2)])
        body = g.g_int({**scope, i: 'int', a: 'int'}, 1)
        body = ('A', wrap_operand(body), ('P', ('A', ('V', i), ('V', a))))
        if rng.random() < 0.5:
            mk = ('F', i, wrap_operand(rg), ('N', (a,), body))
            use = ('F', f, ('V', fs), mk_call(('V', f), [g.g_int({**scope, f: 'x'}, 1)]))
            comps.append(('L', fs, ('P', mk), wrap_body(use)))
        else:
            p_, q_ = rng.sample([n_ for n_ in free if n_ not in (i, fs, f, a)] + [8, 9], 2)
            mk = ('N', (i,), ('N', (a,), body))
            use = mk_seq([mk_call(('V', p_), [('I', rng.randrange(9))]), mk_call(('V', q_), [('I', rng.randrange(9))]),
                          mk_call(mk_call(('V', fs), [('I', 7)]), [('I', 1)])])
            comps.append(('L', fs, mk, ('L', p_, mk_call(('V', fs), [g.g_int(scope, 1)]),
                                        ('L', q_, mk_call(('V', fs), [g.g_int(scope, 1)]), use))))
        flavour = 'closures-from-one-expression'
    elif r < 0.5 or (r < 0.53 and not any(t == 'dt' for t in scope.values())):
        # a date/time VALUE held by a variable is re-read after a function returned a modified copy of it:
        # adjust-dateTime-to-timezone (1 / 2 arguments, `()`), subtraction, timezone-from-dateTime on the same variable
        src_dt = rng.choice([v for v, t in scope.items() if t == 'dt'] or [None])
        x = g.pick_name(scope, avoid=() if src_dt is None else (src_dt,))   # `for $x in $x` is rejected by the parser
        val = ('V', src_dt) if src_dt is not None and rng.random() < 0.5 else \
            ('D', rng.randrange(-3 * 86400, 3 * 86400), rng.choice([None, rng.randrange(-24, 25) * 30, rng.randrange(-24, 25) * 30]))
        target = rng.choice([('E',), ('E',), ('K', rng.randrange(-20, 21) * 1800), None])
        adj = ('J', ('V', x)) if target is None else ('J2', ('V', x), target)
        uses = [adj, ('V', x), ('Z', ('V', x)), ('M', ('V', x), ('V', x)), adj]
        rng.shuffle(uses)
        uses = uses[:rng.randrange(2, 5)]
        if ('V', x) not in uses:
            uses.append(('V', x))
        body = mk_seq(uses)
        comps.append(('L', x, val, body) if rng.random() < 0.5 else ('F', x, val, body))
        flavour = 'value-reread'
    elif r < 0.54 and any(t == 'dt' for t in scope.values()):
        # fn:adjust-dateTime-to-timezone with a $timezone outside -14:00..+14:00 / not a whole number of minutes
        # (FODT0003), as a strict top-level component after other components
        bad = rng.choice([54000, -54060, 90, 50430])
        comps.append(('J2', ('V', rng.choice([n_ for n_, t in scope.items() if t == 'dt'])), ('K', bad)))
        flavour = 'invalid-timezone'
    elif r < 0.58:
        # an evaluation that RAISES in the middle of a binder / function body, after sub-evaluations that touch the
        # caller's objects: the caller's state must be as before (theorem failing_eval_state_unchanged)
        x = g.pick_name(scope)
        u = rng.choice([n_ for n_ in Gen.POOL + [6, 7] if n_ not in scope and n_ != x])
        pre = g.gen(rng.choice(['dur', 'dt', 'int']), {**scope, x: 'int'}, 1)
        body = mk_seq([pre, ('V', u)])
        kind = rng.choice(['L', 'F', 'O', 'call'])
        if kind == 'L':
            b = ('L', x, ('I', rng.randrange(5)), body)
        elif kind in ('F', 'O'):
            b = (kind, x, mk_seq([('I', 1), ('I', 2)]), body)
        else:
            b = mk_call(('N', (x,), body), [('I', 3)])
        comps.append(b)
        flavour = 'raises-inside-binder'
    rng.shuffle(comps) if flavour == 'plain' else None
    return mk_seq(comps) if len(comps) > 1 or rng.random() < 0.5 else comps[0], flavour


def gen_case(rng, quick=True):
    # caller's variables (the same names and types in every step, different values)
    globals_ = {}
    pool = [0, 1, 2, 3, 4, 5]
    rng.shuffle(pool)
    for n in pool[:rng.choice([0, 1, 2, 2, 3])]:
        globals_[n] = rng.choice(['int', 'int', 'seq', 'dt', 'dt', 'dts'])
    ndt = sum(1 for t in globals_.values() if t in ('dt', 'dts'))
    heap = []
    for _ in range(ndt + (1 if ndt and rng.random() < 0.3 else 0)):
        heap.append((rng.randrange(-3 * 86400, 3 * 86400), None if rng.random() < 0.7 else rng.randrange(-20, 21) * 30))
    ast, flavour = gen_program(rng, globals_, rng.choice([1, 2, 2, 3] if quick else [2, 3, 3, 4]))
    docs = rng.sample(range(len(DOCS)), rng.choice([2, 3]))
    steps = []
    nsteps = rng.randrange(3, 9)
    tzs = [None] + [rng.randrange(-24, 25) * 30 for _ in range(2)]
    var_sets = []
    for _ in range(rng.choice([1, 2, 3])):
        vs = {}
        refs = list(range(len(heap)))
        for n, t in globals_.items():
            if t == 'int':
                vs[n] = [('i', rng.randrange(-3, 30))]
            elif t == 'seq':
                vs[n] = [('i', rng.randrange(0, 9)) for _ in range(rng.randrange(0, 4))]
            elif t == 'dt':
                vs[n] = [('r', rng.choice(refs))]
            else:
                vs[n] = [('r', rng.choice(refs)) for _ in range(rng.randrange(0, 4))]
        var_sets.append(vs)
    for _ in range(nsteps):
        steps.append({'doc': rng.choice(docs), 'tz': rng.choice(tzs), 'vars': rng.randrange(len(var_sets)),
                      'api': rng.choice(['token', 'selector', 'selector', 'evaluate']),
                      'root': rng.choice(['element', 'element', 'tree'])})
    return {'ast': ast, 'merge': rng.random() < 0.5, 'heap': heap, 'var_sets': var_sets, 'steps': steps,
            'flavour': flavour, 'xsd': rng.choice(['1.0', '1.1']), 'match_cls': rng.random() < 0.67}


def case_src(case) -> str:
    return render(case['ast'], case['merge'])


def doc_counts(i):
    import xml.etree.ElementTree as ET
    root = ET.XML(DOCS[i][1])
    nb = sum(1 for e in root.iter() if e.tag == 'b')
    return {90: nb, 91: len(list(root)), 92: len(''.join(root.itertext()))}


def line_of(case) -> str:
    heap = ';'.join(f'{l}:{"n" if z is None else z}' for l, z in case['heap']) or '_'
    steps = []
    for s in case['steps']:
        vs = dict(case['var_sets'][s['vars']])
        kv = []
        for n, items in vs.items():
            kv.append(f'{n}:' + ('.'.join(f'{k}{v}' for k, v in items) if items else 'e'))
        for n, c in doc_counts(s['doc']).items():
            kv.append(f'{n}:i{c}')
        steps.append(f'{"n" if s["tz"] is None else s["tz"]}#' + (','.join(kv) or '_'))
    return f'H={heap} STEPS={"|".join(steps)} E={encode(case["ast"])}'


# ------------------------------------------------------------------------- the real code
def canon_item(x) -> str:
    from elementpath.datatypes import AbstractDateTime, DayTimeDuration, Duration
    from elementpath.xpath_tokens import XPathFunction
    if isinstance(x, bool):
        return 'b1' if x else 'b0'
    if isinstance(x, int):
        return f'i{x}'
    if isinstance(x, AbstractDateTime):
        dt = x._dt
        loc = dt.replace(tzinfo=None) - EPOCH
        secs = loc.days * 86400 + loc.seconds
        tz = x.tzinfo
        z = 'n' if tz is None else str(int(tz.offset.total_seconds()) // 60)
        return f'd{secs}@{z}'
    if isinstance(x, (DayTimeDuration, Duration)):
        s = x.seconds
        return f'u{int(s)}' if s == int(s) and not x.months else f'u?{x}'
    if isinstance(x, XPathFunction):
        return f'f{x.arity}'
    return f'?{type(x).__name__}:{x!r}'[:60]


def canon_result(res) -> str:
    if not isinstance(res, list):
        res = [res]
    return ','.join(canon_item(x) for x in res) if res else '()'


def canon_error(e: BaseException) -> str:
    from elementpath.exceptions import ElementPathError
    if isinstance(e, ElementPathError):
        code = (getattr(e, 'code', None) or '').split(':')[-1]
        if code == 'XPST0008':
            return 'ERR:unbound'
        if code in ('XPTY0004', 'FORG0006', 'FOTY0013', 'FODT0003'):
            return 'ERR:type'
        return f'ERR:{code or "nocode"}'
    return f'ERR:OTHER:{type(e).__name__}'


def guarded(f):
    try:
        return canon_result(f())
    except RecursionError as e:   # keep the interpreter usable
        return canon_error(e)
    except Exception as e:  # noqa: every exception of the implementation is a result
        return canon_error(e)


def make_doc(i):
    kind, text = DOCS[i]
    if kind == 'lxml':
        import lxml.etree as LE
        root = LE.XML(text.encode())
        return root, (lambda: LE.tostring(root))
    import xml.etree.ElementTree as ET
    root = ET.XML(text)
    return root, (lambda: ET.tostring(root))


def as_tree(root):
    if hasattr(root, 'getroottree'):
        return root.getroottree()
    import xml.etree.ElementTree as ET
    return ET.ElementTree(root)


def heap_state(objs) -> str:
    out = []
    for o in objs:
        c = canon_item(o)       # d<loc>@<tz>
        loc, z = c[1:].split('@')
        out.append(f'{loc}:{z}')
    return ';'.join(out) or '_'


def token_shape(tk) -> str:
    """the real token tree in the driver's prefix code (multi-clause binders nested)"""
    sym = tk.symbol
    src = tk.source
    for n, text in DOCVARS.items():
        if src == text:
            return f'V {n}'
    if sym == '(integer)':
        return f'I {tk.value}'
    if sym == '$':
        return f'V {str(tk[0].value)[1:]}'
    if sym == '(':
        if len(tk) == 0:
            return 'E'
        if len(tk) == 1:
            return ('P ' if tk[0].span[0] > tk.span[0] else 'C0 ') + token_shape(tk[0])
        return f'C {token_shape(tk[0])} {token_shape(tk[1])}'
    if sym in (',', '+', '-', '=') and len(tk) == 2:
        return f'{ {",": "S", "+": "A", "-": "M", "=": "Q"}[sym]} {token_shape(tk[0])} {token_shape(tk[1])}'
    if sym in ('let', 'for', 'some', 'every'):
        code = {'let': 'L', 'for': 'F', 'some': 'O', 'every': 'Y'}[sym]
        out = token_shape(tk[-1])
        for k in range(len(tk) - 3, -1, -2):
            out = f'{code} {str(tk[k][0].value)[1:]} {token_shape(tk[k + 1])} {out}'
        return out
    if sym == 'function' and getattr(tk, 'body', None) is not None:
        ps = [str(v)[1:] for v in (tk.varnames or [])]
        return f'N {len(ps)} ' + ''.join(p + ' ' for p in ps) + token_shape(tk.body)
    if src.startswith('xs:dateTime('):
        from elementpath.datatypes import DateTime
        return 'D ' + canon_item(DateTime.fromstring(src[13:-2]))[1:].replace('@', ' ')
    if src.startswith('xs:dayTimeDuration('):
        from elementpath.datatypes import DayTimeDuration
        return f'K {int(DayTimeDuration.fromstring(src[20:-2]).seconds)}'
    if src.startswith('adjust-dateTime-to-timezone('):
        return ('J ' if len(tk) == 1 else 'J2 ') + ' '.join(token_shape(c) for c in tk)
    if src.startswith('timezone-from-dateTime('):
        return 'Z ' + token_shape(tk[0] if sym != ':' else tk[1][0])
    return f'?{sym}'


def run_impl(case):
    """one parsed token and one Selector, evaluated once per step.  Returns per step a dict of canonical strings."""
    import elementpath
    from elementpath import XPathContext, Selector
    from elementpath.xpath31 import XPath31Parser
    from elementpath.datatypes import DateTime
    src = case_src(case)
    ns = dict(NS)
    out = {'parse': 'ok', 'shape': '', 'steps': []}
    try:
        xsd = case.get('xsd', '1.0')
        parser = XPath31Parser(namespaces=ns, xsd_version=xsd)
        token = parser.parse(src)
        sel = Selector(src, namespaces=ns, parser=XPath31Parser, xsd_version=xsd)
        try:
            out['shape'] = token_shape(token)
        except Exception as e:  # noqa
            out['shape'] = f'?shape:{type(e).__name__}'
    except Exception as e:  # noqa
        out['parse'] = canon_error(e) + ':' + str(e)[-80:]
        return out
    from elementpath.datatypes import DateTime10
    # the caller's objects: of the class of the parser's XSD version (then no conversion copies them) or of the other one
    dt_cls = (DateTime10 if xsd == '1.0' else DateTime) if case.get('match_cls', False) else (DateTime if xsd == '1.0' else DateTime10)
    objs = [dt_cls.fromstring(dt_text(l, z)) for l, z in case['heap']]
    docs = {}
    var_dicts = {}

    def build_vars(k, shared=True):
        vs = {}
        for n, items in case['var_sets'][k].items():
            vals = [v if kind == 'i' else
                    (objs[v] if shared else dt_cls.fromstring(dt_text(*case['heap'][v]))) for kind, v in items]
            vs[f'v{n}'] = vals[0] if len(vals) == 1 else vals
        return vs

    for s in case['steps']:
        if s['doc'] not in docs:
            docs[s['doc']] = make_doc(s['doc'])
        root, tostr = docs[s['doc']]
        if s.get('root') == 'tree':       # the same document handed over as ElementTree / lxml _ElementTree (document node)
            root = as_tree(root)
        if s['vars'] not in var_dicts:
            var_dicts[s['vars']] = build_vars(s['vars'])
        variables = var_dicts[s['vars']]
        before_xml = tostr()
        before_vars = {k: (id(v), [id(x) for x in v] if isinstance(v, list) else None,
                           canon_result(v)) for k, v in variables.items()}
        before_ns = (dict(ns), dict(parser.namespaces), dict(sel.namespaces))
        tz = None if s['tz'] is None else tz_text(s['tz'])
        rec = {}
        if s['api'] == 'token':
            rec['impl'] = guarded(lambda: token.get_results(
                XPathContext(root, namespaces=ns, variables=variables, timezone=tz)))
        elif s['api'] == 'evaluate':
            rec['impl'] = guarded(lambda: token.evaluate(
                XPathContext(root, namespaces=ns, variables=variables, timezone=tz)))
        else:
            rec['impl'] = guarded(lambda: sel.select(root, namespaces=ns, variables=variables, timezone=tz))
            it = guarded(lambda: list(sel.iter_select(root, namespaces=ns, variables=variables, timezone=tz)))
            if it != rec['impl']:
                rec['iter'] = it
        # purity, observed on the caller's side
        pur = []
        if tostr() != before_xml:
            pur.append('xml-tree-changed')
        after_vars = {k: (id(v), [id(x) for x in v] if isinstance(v, list) else None,
                          canon_result(v)) for k, v in variables.items()}
        if after_vars != before_vars:
            pur.append('variables-changed:' + ','.join(sorted(
                k for k in set(before_vars) | set(after_vars) if before_vars.get(k) != after_vars.get(k))))
        if (dict(ns), dict(parser.namespaces), dict(sel.namespaces)) != before_ns:
            pur.append('namespaces-changed')
        rec['purity'] = ';'.join(pur)
        rec['heap'] = heap_state(objs)
        # a freshly parsed expression on a fresh context, fresh document, fresh objects
        froot, _ = make_doc(s['doc'])
        if s.get('root') == 'tree':
            froot = as_tree(froot)
        fvars = build_vars(s['vars'], shared=False)
        rec['fresh'] = guarded(lambda: elementpath.select(froot, src, namespaces=dict(NS), parser=XPath31Parser,
                                                          variables=fvars, timezone=tz, xsd_version=xsd))
        fit = guarded(lambda: list(elementpath.iter_select(froot, src, namespaces=dict(NS), parser=XPath31Parser,
                                                           variables=fvars, timezone=tz, xsd_version=xsd)))
        if fit != rec['fresh'] and 'iter' not in rec:
            rec['iter'] = fit
        out['steps'].append(rec)
    return out


# ----------------------------------------------------------------------- correspondence
def parse_answer(ans: str):
    recs = []
    for part in ans.split('|'):
        d = {}
        for kv in part.split(' '):
            k, _, v = kv.partition('=')
            d[k] = v
        recs.append(d)
    return recs


def public_case(case, upto=None):
    steps = case['steps'] if upto is None else case['steps'][:upto + 1]
    return {'xpath': case_src(case), 'expr_code': encode(case['ast']), 'heap': case['heap'],
            'var_sets': case['var_sets'], 'steps': steps, 'flavour': case.get('flavour', ''),
            'merge': case['merge'], 'ast': case['ast'], 'xsd': case.get('xsd', '1.0'), 'match_cls': case.get('match_cls', False)}


def _group_rss_mb(pgid: int) -> int:
    """resident memory of all processes of one process group (reads /proc)"""
    import os
    total = 0
    for d in os.listdir('/proc'):
        if not d.isdigit():
            continue
        try:
            if os.getpgid(int(d)) != pgid:
                continue
            with open(f'/proc/{d}/statm') as f:
                total += int(f.read().split()[1]) * 4096 // (1 << 20)
        except (OSError, ValueError, IndexError):
            continue
    return total


def limited_driver(run: Run, lines, cap_mb: int = 8000, timeout: int = 900):
    """the C05 driver with a memory watchdog: a runaway evaluation must become a harness fault (exit 2), not
    take the shared machine down.  Same contract as harness.common.run_driver."""
    import os
    import signal
    import subprocess
    import tempfile
    import time
    from harness.common import LEAN
    if getattr(run, 'driver_override', None) is not None:
        return run.driver_override(lines)
    if not lines:
        return []
    with tempfile.TemporaryFile('w+') as fin, tempfile.TemporaryFile('w+') as fout, tempfile.TemporaryFile('w+') as ferr:
        fin.write('\n'.join(lines) + '\n')
        fin.seek(0)
        p = subprocess.Popen(['lake', 'env', 'lean', '--run', 'Drivers/C05.lean'], cwd=LEAN, stdin=fin, stdout=fout,
                             stderr=ferr, text=True, start_new_session=True)
        t0 = time.time()
        killed = ''
        while p.poll() is None:
            time.sleep(0.25)
            if _group_rss_mb(p.pid) > cap_mb:
                killed = f'memory above {cap_mb} MB'
            elif time.time() - t0 > timeout:
                killed = f'timeout {timeout}s'
            if killed:
                try:
                    os.killpg(p.pid, signal.SIGKILL)
                except OSError:
                    pass
                p.wait()
                break
        fout.seek(0)
        ferr.seek(0)
        out = fout.read().split('\n')
        err = ferr.read()
    if out and out[-1] == '':
        out.pop()
    if killed or p.returncode != 0 or len(out) != len(lines):
        raise DriverError(f'driver C05: {killed} rc={p.returncode}, {len(out)} answers for {len(lines)} lines\n{err[-2000:]}')
    return out


def compare(run: Run, cases: list, stats=True) -> None:
    lines = [line_of(c) for c in cases]
    answers = limited_driver(run, lines)
    st = run.stats
    for case, line, ans in zip(cases, lines, answers):
        if ans.startswith('bad-'):
            run.disagree(Disagreement(public_case(case), 'driver:' + ans, what='protocol'))
            continue
        recs = parse_answer(ans)
        impl = run_impl(case)
        if stats:
            st.case({'xpath': case_src(case), 'steps': len(case['steps'])}, nontrivial=size_of(case['ast']) > 3)
            for k, v in kinds_in(case['ast']).items():
                st.count('node:' + k, v)
            st.count('flavour:' + case.get('flavour', ''))
            st.count(f'steps={len(case["steps"])}')
            st.count(f'shadowing-binders={min(shadow_depth(case["ast"], frozenset(case["var_sets"][0])), 4)}')
            st.count('multi-clause-syntax' if case['merge'] else 'nested-syntax')
            st.count(f"xsd={case.get('xsd', '1.0')},caller-class-{'matches' if case.get('match_cls') else 'differs'}")
        if impl['parse'] != 'ok':
            run.disagree(Disagreement(public_case(case), impl['parse'], 'parsed', what='generated-expression-rejected',
                                      site='XPath31Parser.parse'))
            continue
        if impl['shape'] != encode(case['ast']):
            run.disagree(Disagreement(public_case(case), impl['shape'], encode(case['ast']), what='token-tree-shape',
                                      site='XPath31Parser.parse'))
            continue
        heap0 = ';'.join(f'{l}:{"n" if z is None else z}' for l, z in case['heap']) or '_'
        for k, (rec, m) in enumerate(zip(impl['steps'], recs)):
            pc = public_case(case, k)
            api = case['steps'][k]['api']
            tags = []
            if stats:
                st.count('api:' + api)
                st.count('root:' + case['steps'][k].get('root', 'element'))
                st.count('result:' + (rec['impl'] if rec['impl'].startswith('ERR') else 'ok'))
                if m['p'] != m['m']:
                    st.count('pinned-model-differs (F05/F05b-sensitive step)')
            if rec['impl'] != m['s']:
                run.disagree(Disagreement(pc, rec['impl'], m['m'], spec=m['s'], tags=tags,
                                          what=f'result-step{k}-{api}', site='evaluation of binders / inline function call'))
                break
            if rec['impl'] != m['m']:
                run.disagree(Disagreement(pc, rec['impl'], m['m'], what='model-result'))
                break
            if rec['fresh'] != m['s']:
                run.disagree(Disagreement(pc, 'fresh:' + rec['fresh'], m['m'], spec='fresh:' + m['s'], tags=tags,
                                          what='fresh-evaluation', site='select()'))
                break
            if rec.get('iter') is not None:
                run.disagree(Disagreement(pc, 'iter_select:' + rec['iter'], None, spec='iter_select:' + rec['impl'],
                                          what='select-vs-iter_select', site='Selector.iter_select'))
                break
            if rec['purity']:
                run.disagree(Disagreement(pc, rec['purity'], 'unchanged', spec='unchanged', what='caller-state-modified',
                                          site='evaluation'))
                break
            if rec['heap'] != heap0:
                run.disagree(Disagreement(pc, 'objects:' + rec['heap'], 'objects:' + m['heap'], spec='objects:' + heap0,
                                          what='caller-datetime-modified', site='XPathToken.get_operands'))
                break
            if m['env'] != '1' or m['heap'] != heap0:
                run.disagree(Disagreement(pc, 'frame', f'env={m["env"]} heap={m["heap"]}', what='model-frame'))
                break


CORPUS_SRC = [
    # (ast, heap, var_sets, steps)  — the probes of DESIGN.md §5 and of docs/C05.md
    (('L', 0, ('I', 10), ('P', ('S', ('C', ('N', (0,), ('A', ('V', 0), ('I', 1))), ('I', 1)), ('V', 0)))),
     [], [{}], [(0, None), (1, None), (0, None)]),                                            # F05
    (('M', ('V', 0), ('D', 0, 0)), [(0, None)], [{0: [('r', 0)]}],
     [(0, 300), (0, -180), (1, None), (0, 300)]),                                             # F05b
    (('P', ('S', ('L', 1, ('I', 1), ('V', 1)), ('V', 1))), [], [{}], [(0, None), (1, None), (0, None)]),
    (('A', ('C', ('N', (0,), ('V', 0)), ('I', 1)), ('V', 0)), [], [{}, {0: [('i', 7)]}], [(0, None, 0), (0, None, 1), (0, None, 0)]),
    (('L', 1, ('N', (), ('V', 5)), ('L', 5, ('I', 9), ('C0', ('V', 1)))), [], [{}, {5: [('i', 7)]}],
     [(0, None, 0), (0, None, 1), (0, None, 0)]),                                             # F05c
    (('F', 2, ('P', ('S', ('F', 1, ('P', ('S', ('I', 1), ('I', 2))), ('N', (), ('V', 1))), ('E',))), ('C0', ('V', 2))),
     [], [{}], [(0, None), (1, None), (2, None)]),                                            # F16
    (('L', 3, ('P', ('F', 1, ('P', ('S', ('I', 1), ('I', 2))), ('N', (2,), ('A', ('V', 1), ('V', 2))))),
      ('F', 4, ('V', 3), ('C', ('V', 4), ('I', 10)))), [], [{}], [(0, None), (1, None), (0, None)]),
    (('L', 0, ('I', 1), ('P', ('S', ('P', ('S', ('O', 0, ('P', ('S', ('I', 5), ('I', 6))), ('Q', ('V', 0), ('I', 6))), ('V', 0))),
                                ('P', ('F', 0, ('P', ('S', ('I', 5), ('I', 6))), ('V', 0)))))), [], [{}],
     [(0, None), (1, None), (0, None)]),
    (('P', ('S', ('M', ('V', 1), ('V', 2)), ('Z', ('V', 1)))), [(3600, None), (0, 60)], [{1: [('r', 0)], 2: [('r', 1)]}],
     [(0, 300), (0, None), (1, -600), (0, 300)]),
]


def corpus_cases():
    out = []
    for ast, heap, var_sets, steps in CORPUS_SRC:
        ss = []
        for k, s in enumerate(steps):
            ss.append({'doc': s[0], 'tz': s[1], 'vars': s[2] if len(s) > 2 else 0,
                       'api': ['token', 'selector', 'evaluate'][k % 3]})
        for merge in (False, True):
            out.append({'ast': ast, 'merge': merge, 'heap': heap, 'var_sets': var_sets, 'steps': ss, 'flavour': 'corpus'})
    return out


def correspond(run: Run) -> None:
    rng = run.rng
    n = run.scale(1500, 20000)
    cases = corpus_cases() + [gen_case(rng, run.quick) for _ in range(n)]
    run.stats.rule = ('one case = one generated XPath 3.1 program (typed construction over for/let/some/every with '
                      '1..n clauses, inline functions, calls, + - = , xs:dateTime subtraction, timezone-from-dateTime; '
                      'names drawn from a pool of 6 so that binders shadow each other and the caller\'s variables) '
                      'with a history of 3..8 evaluations of ONE parsed token / Selector over 2..3 documents '
                      '(ElementTree, lxml), 1..3 variable maps and 3 implicit timezones; every step is compared with '
                      'the Lean model, the Lean spec and a fresh parse on fresh objects, and the caller\'s tree, '
                      'variables, objects and namespaces are compared before/after. evaluations = histories; '
                      'distinct = distinct (program, history length) with more than 3 AST nodes')
    for i in range(0, len(cases), 500):
        compare(run, cases[i:i + 500])


# ------------------------------------------------- token-level caches (observed only)
CACHE_EXPRS = [
    "map{'k': $v}('k')", "let $m := map{'k': $v, 'c': count(//b)} return ($m('k'), $m('c'))", "map:keys(map{$v: 1})",
    "map:size(map{$v: 1, 2: 2})", "[ $v, count(//b) ](1)", "array:size([ $v, count(//b) ])", "array{ $v, count(//b) }(2)",
    "for $k in (1,2) return map{'k': $k + $v}('k')", "(for $k in (1,2) return map{'k': $k + $v}) ! .('k')",
    "let $f := function($a,$b){$a+$b} return $f($v, ?)(1)",
    "let $f := function($a,$b){$a+$b}, $g := $f($v, ?) return ($g(1), $g(2))", "concat(?, 'x')($v)",
    "let $g := concat(?, 'x') return ($g($v), $g('y'))", "for-each((1,2), function($a){$a + $v})",
    "fold-left((1,2), $v, function($a,$b){$a+$b})", "(1,2)[. = $v]", "//b[. = $v]/text()", "count(//b[position() = $v])",
    "string-join((for $i in 1 to $v return 'x'), '')", "map:merge((map{1:$v}, map{2:count(//b)}))(2)",
    "map:put(map{1:$v}, 2, 5)(1)", "sort((3,1,$v))", "$v ! (. + 1)", "let $x := $v return function(){$x}()",
    "count(/*/*) + $v", "(//b)[$v]/name()", "some $x in //b satisfies count($x/preceding-sibling::*) = $v",
    # fn:serialize works on a tail-less COPY of each element (reviewedCopyWrites): the caller's tree keeps its tails
    "serialize(/*/b[1])", "(serialize(/*/b), /*/b ! serialize(.), serialize(/*/*[last()]))", "serialize(/*, map{'method': 'xml'})",
    "string-join(/*/node() ! serialize(.), '|')", "serialize((/*/b)[$v])",
    # variables looked up by prefixed / expanded name (VariableToken.evaluate, second lookup)
    "$p:w + $v", "let $p:w := $v return ($p:w, $v)", "for $p:w in (1, 2) return $p:w + $v", "$Q{urn:c05:p}w + $v",
    # named function references: the item carries the focus / root of the evaluation that built it
    "let $f := /*/name#0 return $f()", "/*/name#0()", "/*/local-name#0()", "/*/string#0()", "/*/string-length#0() + $v",
    "/*/node-name#0()", "/*/data#0()", "/*/normalize-space#0()", "/*/number#0()", "/*/base-uri#0()",
    "/*/root#0() ! name(.)", "//b/position#0()", "(//b)[$v]/last#0()", "for $f in //b/string#0 return $f()",
    "(//b ! string-length#0) ! .()", "let $fs := (for $e in //* return $e/name#0) return $fs ! .()",
    "let $fs := (for $e in //* return $e/local-name#0) return (count($fs), $fs[last()](), $fs[1]())",
    "let $f := count#1 return $f(//b) + $v", "for-each(//*, name#1)", "let $g := (/*/*)[1]/name#0 return ($g(), /*/name#0())",
    "(/*/*)[$v] ! string#0 ! .()", "let $f := /*/*[last()]/string-length#0 return ($f(), $f(), string-length(/*/*[last()]))",
]

# expressions over a caller's date/time OBJECT `$d` (xs:dateTime, xs:date or xs:time, with or without timezone) and the
# implicit timezone of the step: every function that reads or rewrites the timezone
OBJ_EXPRS = {
    'dateTime': [
        "adjust-dateTime-to-timezone($d)", "adjust-dateTime-to-timezone($d, ())",
        "adjust-dateTime-to-timezone($d, xs:dayTimeDuration('PT2H'))", "adjust-dateTime-to-timezone($d, xs:dayTimeDuration('-PT10H'))",
        "timezone-from-dateTime($d)", "(adjust-dateTime-to-timezone($d), timezone-from-dateTime($d))",
        "let $e := adjust-dateTime-to-timezone($d) return ($d - $e, timezone-from-dateTime($d), string($d))",
        "for $x in ($d, $d) return adjust-dateTime-to-timezone($x, xs:dayTimeDuration('PT1H'))",
        "(hours-from-dateTime($d), minutes-from-dateTime($d), day-from-dateTime($d), year-from-dateTime($d))",
        "string($d)", "$d - xs:dateTime('2000-01-01T00:00:00Z')", "$d eq xs:dateTime('2000-01-01T00:00:00Z')",
        "$d lt xs:dateTime('2000-01-01T00:00:00')", "xs:date($d)", "xs:time($d)", "max(($d, xs:dateTime('2000-01-01T00:00:00Z')))",
        "$d + xs:dayTimeDuration('PT1H')", "dateTime(xs:date($d), xs:time($d))", "deep-equal($d, adjust-dateTime-to-timezone($d))",
        "function($x) { adjust-dateTime-to-timezone($x) }($d)", "format-dateTime($d, '[H01]:[m01] [Z]')",
    ],
    'date': [
        "adjust-date-to-timezone($d)", "adjust-date-to-timezone($d, ())", "adjust-date-to-timezone($d, xs:dayTimeDuration('PT2H'))",
        "adjust-date-to-timezone($d, xs:dayTimeDuration('-PT10H'))", "timezone-from-date($d)",
        "(adjust-date-to-timezone($d), timezone-from-date($d), string($d))", "(day-from-date($d), month-from-date($d), year-from-date($d))",
        "$d - xs:date('2000-01-01Z')", "$d eq xs:date('2000-01-01Z')", "xs:dateTime($d)", "$d + xs:dayTimeDuration('P1D')",
        "let $e := adjust-date-to-timezone($d) return ($e, $d)",
    ],
    'time': [
        "adjust-time-to-timezone($d)", "adjust-time-to-timezone($d, ())", "adjust-time-to-timezone($d, xs:dayTimeDuration('PT2H'))",
        "adjust-time-to-timezone($d, xs:dayTimeDuration('-PT10H'))", "timezone-from-time($d)",
        "(adjust-time-to-timezone($d), timezone-from-time($d), string($d))", "(hours-from-time($d), minutes-from-time($d), seconds-from-time($d))",
        "$d - xs:time('09:00:00Z')", "$d eq xs:time('09:00:00Z')", "$d + xs:dayTimeDuration('PT1H')",
        "let $e := adjust-time-to-timezone($d) return ($e, $d)",
    ],
}
OBJ_VALUES = {
    'dateTime': ['2002-03-07T10:00:00', '2002-03-07T10:00:00-07:00', '1999-12-31T23:30:00+05:30', '2000-01-01T00:00:00Z'],
    'date': ['2002-03-07', '2002-03-07-07:00', '1999-12-31+05:30'],
    'time': ['10:00:00', '10:00:00-07:00', '23:30:00+05:30'],
}


def _elems(root):
    return [e for e in root.iter() if isinstance(e.tag, str)]


def _local(e):
    return e.tag.rsplit('}', 1)[-1]


def _sv(e):
    """XPath string value of an element: its descendant text nodes (comments and PIs contribute only their tails)"""
    out = [e.text or '']
    for c in e:
        if isinstance(c.tag, str):
            out.append(_sv(c))
        out.append(c.tail or '')
    return ''.join(out)


# expressions whose value is ALSO computed here from the ElementTree / lxml tree itself (an oracle that does not run
# elementpath): one named function reference evaluated once per iteration / per path step, the items called afterwards
ORACLE_EXPRS = [
    ("for $f in //b/string#0 return $f()", lambda r, v: [_sv(e) for e in _elems(r) if e.tag == 'b']),
    ("(//b ! string-length#0) ! .()", lambda r, v: [len(_sv(e)) for e in _elems(r) if e.tag == 'b']),
    ("let $fs := (for $e in //* return $e/local-name#0) return $fs ! .()", lambda r, v: [_local(e) for e in _elems(r)]),
    ("let $fs := (for $e in //* return $e/local-name#0) return (count($fs), $fs[last()](), $fs[1]())",
     lambda r, v: [len(_elems(r)), _local(_elems(r)[-1]), _local(_elems(r)[0])]),
    ("//*/local-name#0()", lambda r, v: [_local(e) for e in _elems(r)]),
    ("(for $e in //* return $e/string-length#0) ! (.() + $v)", lambda r, v: [len(_sv(e)) + v for e in _elems(r)]),
    ("let $g := (//*)[last()]/local-name#0, $h := /*/local-name#0 return ($g(), $h(), $g())",
     lambda r, v: [_local(_elems(r)[-1]), _local(r), _local(_elems(r)[-1])]),
    ("/*/string-length#0() + $v", lambda r, v: [len(_sv(r)) + v]),
]


def canon_one(x, depth=0) -> str:
    from elementpath.xpath_tokens import XPathFunction, XPathMap, XPathArray
    from elementpath.xpath_nodes import XPathNode
    if hasattr(x, 'tag'):
        if callable(x.tag):      # lxml / ElementTree comment and processing instruction factories
            return f'<{getattr(x.tag, "__name__", "special")}:{x.text}>'
        return f'<{x.tag}>'
    if hasattr(x, 'getroot'):
        return '<document>'
    if depth < 4:
        try:
            if isinstance(x, XPathMap):
                return 'map{' + ','.join(sorted(f'{canon_one(k, depth + 1)}:{canon_seq(v, depth + 1)}' for k, v in x.items())) + '}'
            if isinstance(x, XPathArray):
                return 'array[' + ','.join(canon_seq(v, depth + 1) for v in x.items()) + ']'
        except Exception as e:  # noqa
            return f'{type(x).__name__}!{type(e).__name__}'
    if isinstance(x, XPathFunction):
        return f'function:{getattr(x, "name", None) or x.symbol}#{x.arity}'
    if isinstance(x, XPathNode):
        return f'{type(x).__name__}:{getattr(x, "name", None)}:{x.string_value[:30]!r}'
    return re.sub(r' at 0x[0-9a-f]+', '', f'{type(x).__name__}:{x!r}')[:80]


def canon_seq(v, depth=0) -> str:
    if not isinstance(v, list):
        v = [v]
    return '(' + ','.join(canon_one(y, depth) for y in v) + ')'


def canon_any(res) -> str:
    if not isinstance(res, list):
        res = [res]
    return ','.join(canon_one(x) for x in res) or '()'


def cache_histories(run: Run) -> None:
    """expressions outside the model (maps, arrays, partial application, HOFs, predicates): one Selector evaluated
    over permuted histories of (document, $v) must agree, step by step, with a fresh select()."""
    import elementpath
    from elementpath import Selector
    from elementpath.xpath31 import XPath31Parser
    rng = run.rng
    oracle = dict(ORACLE_EXPRS)
    for expr in CACHE_EXPRS + [e for e, _ in ORACLE_EXPRS]:
        for _ in range(run.scale(4, 30)):
            ctor_vars = rng.random() < 0.2      # deprecated Selector(variables=...): stored on the selector
            try:
                import warnings
                with warnings.catch_warnings():
                    warnings.simplefilter('ignore')
                    sel = (Selector(expr, namespaces=dict(NS), parser=XPath31Parser, variables={'v': 2, '{urn:c05:p}w': 7})
                           if ctor_vars else Selector(expr, namespaces=dict(NS), parser=XPath31Parser))
            except Exception as e:  # noqa
                run.disagree(Disagreement({'xpath': expr}, canon_error(e), 'parsed', what='cache-expression-rejected'))
                break
            steps = [(rng.randrange(len(DOCS)), 2 if ctor_vars else rng.randrange(1, 4)) for _ in range(rng.randrange(3, 9))]
            if len({d for d, _ in steps}) < 2:
                steps[-1] = ((steps[0][0] + 1 + rng.randrange(len(DOCS) - 1)) % len(DOCS), steps[-1][1])
            docs = {}
            for k, (d, v) in enumerate(steps):
                if d not in docs:
                    docs[d] = make_doc(d)
                root, tostr = docs[d]
                before = tostr()
                vs = {'v': v, '{urn:c05:p}w': 7}
                vs0 = dict(vs)
                kw = {} if ctor_vars else {'variables': vs}

                def g(f):
                    try:
                        return canon_any(f())
                    except Exception as e:  # noqa
                        return canon_error(e)
                got = g(lambda: sel.select(root, **kw))
                it = g(lambda: list(sel.iter_select(root, **kw)))
                fresh = g(lambda: elementpath.select(make_doc(d)[0], expr, namespaces=dict(NS), parser=XPath31Parser,
                                                     variables=dict(vs0)))
                run.stats.count('cache-history-steps')
                case = {'xpath': expr, 'steps': [{'doc': DOCS[a][1], 'v': b} for a, b in steps[:k + 1]]}
                if got != fresh:
                    run.disagree(Disagreement(case, got, None, spec=fresh, what='reused-selector-vs-fresh', site='token-level state'))
                    break
                if expr in oracle:
                    want = canon_any(oracle[expr](root, v))
                    run.stats.count('cache-history-steps-with-tree-oracle')
                    if got != want:
                        run.disagree(Disagreement(case, got, None, spec=want, what='function-items-of-one-reference',
                                                  site="'#' named function reference"))
                        break
                if it != got:
                    run.disagree(Disagreement(case, 'iter_select:' + it, None, spec='iter_select:' + got,
                                              what='select-vs-iter_select', site='Selector.iter_select'))
                    break
                if tostr() != before or vs != vs0:
                    run.disagree(Disagreement(case, 'modified', None, spec='unchanged', what='caller-state-modified'))
                    break


def value_state(x):
    """bit-level state of a date / time / duration value: class and every slot"""
    slots = []
    for c in type(x).__mro__:
        for n in getattr(c, '__slots__', ()):
            if n != '__dict__' and hasattr(x, n):
                slots.append((n, repr(getattr(x, n))))
    return (type(x).__name__, str(x), tuple(slots), repr(getattr(x, '__dict__', None)))


# every function / operator that returns a MODIFIED COPY of (or a value derived from) a date / time / duration operand, with
# the operand `$d` in every argument position; `$u` is a caller-owned xs:dayTimeDuration, `$y` an xs:yearMonthDuration
OBJ_EXPRS_EXTRA = {
    'dateTime': [
        "(adjust-dateTime-to-timezone($d, ()), $d)", "(adjust-dateTime-to-timezone($d), $d, timezone-from-dateTime($d))",
        "for $x in $d return (adjust-dateTime-to-timezone($x, ()), $x)", "let $x := $d return (adjust-dateTime-to-timezone($x, ()), string($x))",
        "(adjust-dateTime-to-timezone($d, $u), $d)", "adjust-dateTime-to-timezone($d, timezone-from-dateTime($d))",
        "($d + $u, $d)", "($u + $d, $d, $u)", "($d - $u, $d)", "($d + $y, $d, $y)", "($d - $y, $d)", "($d - $d, $d)",
        "(xs:dateTime('2000-01-01T00:00:00Z') - $d, $d)", "(xs:date($d), xs:time($d), xs:dateTime($d), $d)",
        "($d cast as xs:date, $d cast as xs:time, $d cast as xs:gYear, $d cast as xs:gMonthDay, $d)",
        "(xs:dateTimeStamp(adjust-dateTime-to-timezone($d, xs:dayTimeDuration('PT0S'))), $d)",
        "(adjust-dateTime-to-timezone(xs:dateTimeStamp(adjust-dateTime-to-timezone($d, xs:dayTimeDuration('PT1H'))), ()), $d)",
        "(dateTime(xs:date($d), xs:time($d)), $d)", "(max(($d, $d + $u)), min(($d, $d - $u)), $d)", "(string($d), xs:string($d), $d)",
        "(function($x) { adjust-dateTime-to-timezone($x, ()) }($d), $d)", "($d ! adjust-dateTime-to-timezone(., ()), $d)",
        "(for-each($d, adjust-dateTime-to-timezone(?, ())), $d)", "(sort(($d, $d + $u)), $d)",
    ],
    'date': [
        "(adjust-date-to-timezone($d, ()), $d)", "(adjust-date-to-timezone($d), $d, timezone-from-date($d))", "(adjust-date-to-timezone($d, $u), $d)",
        "for $x in $d return (adjust-date-to-timezone($x, ()), $x)", "($d + $u, $d)", "($u + $d, $d)", "($d - $u, $d)", "($d + $y, $d)", "($d - $d, $d)",
        "(xs:dateTime($d), xs:date($d), $d cast as xs:gYearMonth, $d)", "(dateTime($d, xs:time('10:00:00')), $d)", "(string($d), $d)",
    ],
    'time': [
        "(adjust-time-to-timezone($d, ()), $d)", "(adjust-time-to-timezone($d), $d, timezone-from-time($d))", "(adjust-time-to-timezone($d, $u), $d)",
        "for $x in $d return (adjust-time-to-timezone($x, ()), $x)", "($d + $u, $d)", "($u + $d, $d)", "($d - $u, $d)", "($d - $d, $d)",
        "(xs:time($d), dateTime(xs:date('2000-01-01'), $d), $d)", "(string($d), $d)",
    ],
    'duration': [
        "($d + $d, $d)", "($d * 2, $d)", "(2 * $d, $d)", "($d div 2, $d)", "($d div $d, $d)", "(- $d, $d)", "(xs:dayTimeDuration($d), xs:duration($d), $d)",
        "(xs:dateTime('2000-01-01T00:00:00') + $d, $d)", "(adjust-dateTime-to-timezone(xs:dateTime('2000-01-01T00:00:00Z'), $d), $d)",
        "(sum(($d, $d)), avg(($d, $d)), max(($d, $d * 2)), $d)", "(hours-from-duration($d), string($d), $d)",
    ],
}


def object_histories(run: Run) -> None:
    """one Selector over histories of (implicit timezone) with the SAME caller-owned xs:dateTime / xs:date / xs:time /
    duration objects in the variables map, for both XSD versions of the parser and value classes of either version: every step
    must equal a fresh select() on fresh objects, and every caller's object must be the same object, BIT-IDENTICAL
    (class and all slots) afterwards."""
    import elementpath
    from elementpath import Selector
    from elementpath.xpath31 import XPath31Parser
    from elementpath.datatypes import DateTime, DateTime10, Date, Date10, Time, DayTimeDuration, YearMonthDuration
    classes = {'dateTime': (DateTime10, DateTime), 'date': (Date10, Date), 'time': (Time, Time),
               'duration': (DayTimeDuration, DayTimeDuration)}
    values = dict(OBJ_VALUES, duration=['PT2H', '-PT90M', 'PT0S'])
    rng = run.rng
    tzs = [None, '+05:00', '-03:00', '+00:00', '-11:30']
    for kind in classes:
        for expr in OBJ_EXPRS.get(kind, []) + OBJ_EXPRS_EXTRA[kind]:
            for text in values[kind]:
                xsd = '1.1' if 'dateTimeStamp' in expr else rng.choice(['1.0', '1.1'])   # xs:dateTimeStamp is XSD 1.1 only
                # the value class of the parser's XSD version (two thirds of the time) or of the other one
                cls = classes[kind][(xsd == '1.1') == (rng.random() < 0.67)]
                try:
                    sel = Selector(expr, parser=XPath31Parser, xsd_version=xsd)
                except Exception as e:  # noqa
                    run.disagree(Disagreement({'xpath': expr}, canon_error(e), 'parsed', what='object-expression-rejected'))
                    break

                def fresh_vars():
                    return {'d': cls.fromstring(text), 'u': DayTimeDuration.fromstring('PT3H'), 'y': YearMonthDuration.fromstring('P1Y2M')}
                variables = fresh_vars()
                objs = dict(variables)
                state0 = {k: value_state(v) for k, v in objs.items()}
                steps = [rng.choice(tzs) for _ in range(rng.randrange(3, 6))]
                if len(set(steps)) < 2:
                    steps[-1] = '+05:00' if steps[0] != '+05:00' else '-03:00'
                for k, tz in enumerate(steps):
                    d = rng.randrange(len(DOCS))

                    def g(f):
                        try:
                            return canon_any(f())
                        except Exception as e:  # noqa
                            return canon_error(e)
                    got = g(lambda: sel.select(make_doc(d)[0], variables=variables, timezone=tz))
                    fresh = g(lambda: elementpath.select(make_doc(d)[0], expr, parser=XPath31Parser, xsd_version=xsd,
                                                         variables=fresh_vars(), timezone=tz))
                    run.stats.count('object-history-steps:' + kind)
                    run.stats.count(f'object-history:xsd={xsd},{cls.__name__}')
                    case = {'xpath': expr, 'd': f'{cls.__name__}.fromstring({text!r})', 'xsd_version': xsd, 'implicit_timezones': steps[:k + 1]}
                    changed = [n for n in objs if variables.get(n) is not objs[n] or value_state(objs[n]) != state0[n]]
                    if changed:
                        n = changed[0]
                        run.disagree(Disagreement(case, f'caller-object ${n}:{value_state(objs[n])[:2]}', None,
                                                  spec=f'caller-object ${n}:{state0[n][:2]}',
                                                  what='caller-datetime-modified', site='adjust_datetime / get_operands / casts'))
                        break
                    if got != fresh:
                        run.disagree(Disagreement(case, got, None, spec=fresh, what='reused-selector-vs-fresh',
                                                  site='token-level state / caller object'))
                        break
                else:
                    continue
                break


# ------------------------------------------- structural scan (translator) and its search
def translate(run: Run) -> dict:
    """regenerate lean/EPV/Gen/C05Sites.lean from the live package; returns the scanned tables and, computed on the
    Python side only to LOCATE what a failing `decide` is about, the sites that are not in the reviewed lists"""
    from harness import c05_sites
    from harness.common import REPO, LEAN
    info = c05_sites.emit(REPO, LEAN)
    spec = (LEAN / 'EPV' / 'Spec' / 'PuritySites.lean').read_text()
    triples = set(re.findall(r'\("([^"]*)", "([^"]*)", "([^"]*)"\)', spec))
    quads = set(re.findall(r'\("([^"]*)", "([^"]*)", "([^"]*)", "([^"]*)"\)', spec))
    builders = set(re.findall(r'"(evaluate__json_to_xml[^"]*)"', spec))
    new_token = [t for t in info['token'] if t not in triples]
    new_binds = [b for b in info['binds'] if b not in triples]
    new_tree = []
    for w in info['tree']:
        kind, f, fn, _ = w
        ok = ((fn in builders or w in quads) if kind == 'element' else f in ('elementpath/tree_builders.py', 'elementpath/xpath_nodes.py')
              if kind == 'xnode' else w in quads if kind in ('namespaces', 'variables') else False)
        if not ok:
            new_tree.append(w)
    new_module = [w for w in info['module'] if w not in quads]
    new_focus = [w for w in info['focus'] if w[3] not in ('copy', 'finally', 'focus-generator', 'iterator') and w not in quads]
    new_iter = [w for w in info['iterators'] if w[1] not in ('finally', 'no-focus-write')]
    info['new'] = {'token': new_token, 'binds': new_binds, 'tree': new_tree, 'module': new_module,
                   'focus': new_focus, 'iterators': new_iter}
    return info


_HARVEST = None


def harvested_expressions():
    """XPath expressions of the repository's own test-suite (string constants that XPath31Parser accepts)"""
    global _HARVEST
    if _HARVEST is None:
        import ast
        from harness.common import REPO
        from elementpath.xpath31 import XPath31Parser
        seen = set()
        for p in sorted((REPO / 'tests').glob('test_xpath*.py')):
            try:
                tree = ast.parse(p.read_text())
            except SyntaxError:
                continue
            for n in ast.walk(tree):
                if isinstance(n, ast.Constant) and isinstance(n.value, str) and 2 < len(n.value) < 160 and '\n' not in n.value:
                    seen.add(n.value)
        out = []
        parser = XPath31Parser(namespaces=dict(NS))
        own = CACHE_EXPRS + [e for e, _ in ORACLE_EXPRS] + [e for es in OBJ_EXPRS.values() for e in es]
        volatile = re.compile(r'generate-id|current-date|current-time|current-dateTime|random-number|environment-variable|'
                              r'implicit-timezone|doc\(|doc-available|collection\(|unparsed-text|uri-collection|document-uri|base-uri|'
                              r'static-base-uri|default-collation|trace\(')
        for e in own + sorted(x for x in seen - set(own) if not volatile.search(x)):
            try:
                out.append((e, parser.parse(e)))
            except Exception:  # noqa
                continue
        _HARVEST = out
    return _HARVEST


def token_uses(tk, functions) -> bool:
    for t in tk.iter():
        for c in type(t).__mro__:
            for f in vars(c).values():
                f = getattr(f, '__func__', f)
                f = getattr(f, 'fget', f) or f
                if getattr(f, '__qualname__', None) in functions or getattr(f, '__name__', None) in functions:
                    return True
    return False


def literal_variants(e: str):
    """(expression with its first string / integer literal replaced by a variable, value A, value B): a token that caches
    something computed from its arguments is only visible when the arguments change between evaluations"""
    m = re.search(r"'([^']*)'|\"([^\"]*)\"", e)
    if m:
        lit = m.group(1) if m.group(1) is not None else m.group(2)
        other = '<zz>1</zz>' if lit.lstrip().startswith('<') else (lit + 'x' if not lit.isdigit() else lit + '1')
        yield e[:m.start()] + '$c05lit' + e[m.end():], lit, other
    m = re.search(r"(?<![\w$'\"#.:-])(\d+)(?![\w'\".])", re.sub(r"'[^']*'|\"[^\"]*\"", lambda x: ' ' * len(x.group()), e))
    if m:
        yield e[:m.start(1)] + '$c05num' + e[m.end(1):], int(m.group(1)), int(m.group(1)) + 1


def site_histories(run: Run, functions, limit=400):
    """two-document histories (A, B, A, B) of every test-suite expression whose token tree contains a token class using
    one of `functions`: the reused token must agree, step by step, with a freshly parsed expression"""
    from elementpath import XPathContext
    from elementpath.xpath31 import XPath31Parser
    found = []
    picked = [(e, tk) for e, tk in harvested_expressions() if token_uses(tk, functions)]
    run.rng.shuffle(picked)
    from elementpath.datatypes import DateTime
    variables = {'v': 2, 'x': 1, 'a': 1, 'b': 2, 'var': 'abc', 'word': 'alpha', 'values': [10, 20, 5], 'n': 3,
                 'd': DateTime.fromstring('2002-03-07T10:00:00')}
    work = []
    for e, tk in picked[:limit]:
        work.append((e, tk, None))
        for ve, a, b in literal_variants(e):
            try:
                vtk = XPath31Parser(namespaces=dict(NS)).parse(ve)
            except Exception:  # noqa
                continue
            if token_uses(vtk, functions):
                work.append((ve, vtk, (a, b)))
    for e, tk, var in work:
        for k, d in enumerate([0, 3, 0, 2, 3]):
            if var is not None:
                variables = dict(variables)
                variables['c05lit' if isinstance(var[0], str) else 'c05num'] = var[k % 2]
            def g(f):
                try:
                    return canon_any(f())
                except RecursionError as ex:
                    return canon_error(ex)
                except Exception as ex:  # noqa
                    return canon_error(ex)
            got = g(lambda: tk.get_results(XPathContext(make_doc(d)[0], namespaces=dict(NS), variables=dict(variables))))
            fresh = g(lambda: XPath31Parser(namespaces=dict(NS)).parse(e).get_results(
                XPathContext(make_doc(d)[0], namespaces=dict(NS), variables=dict(variables))))
            if got != fresh:
                found.append(Disagreement({'xpath': e, 'documents': [DOCS[x][1] for x in [0, 3, 0, 2, 3][:k + 1]],
                                           'site_functions': sorted(functions)}, got, None, spec=fresh,
                                          what='reused-token-vs-fresh', site=';'.join(sorted(functions))))
                break
    run.notes.append(f'site search: {len(picked)} test-suite expressions use {sorted(functions)}, '
                     f'{min(len(picked), limit)} run over 5-step two-document histories, {len(found)} differ')
    return found


def reviewed_dynamic_functions():
    """functions of the reviewed token-state sites classified `.dynamic` (read from Spec/PuritySites.lean)"""
    from harness.common import LEAN
    spec = (LEAN / 'EPV' / 'Spec' / 'PuritySites.lean').read_text()
    i, j = spec.index('def reviewedTokenWrites'), spec.index('def reviewedModuleWrites')
    return sorted({fn for _, fn, _ in re.findall(r'\(\("([^"]*)", "([^"]*)", "([^"]*)"\), \.dynamic\)', spec[i:j])})


def dynamic_site_histories(run: Run) -> None:
    """EVERY run: for each reviewed DYNAMIC token-state site, two-document histories of (a sample of) the expressions
    whose token tree uses that function, generated from the site's token class (`site_histories`)"""
    for fn in reviewed_dynamic_functions():
        key = {fn, fn.split('.')[-1]} if '.' not in fn else {fn}
        sub_notes = len(run.notes)
        for d in site_histories(run, key, limit=run.scale(25, 200)):
            run.disagree(d)
        run.stats.count('dynamic-site-histories:' + fn)
        del run.notes[sub_notes:]


API_DOC = '<r xmlns:p="urn:c05:p" xmlns:q="urn:c05:q"><p:b>1</p:b><q:b>2</q:b><q:b>3</q:b><b>4</b></r>'
API_EXPRS = ["count(//p:b)", "//p:b/string()", "sum(//p:b)", "name(//p:b[1])", "count(//Q{urn:c05:q}b)", "//*[self::p:b]/string()",
             "for $x in //p:b return $x + $v", "let $f := function($e) { count($e/p:b) } return $f(/*)",
             "count(//b)", "string-join(//p:b ! string(), ',')", "exists(//p:b[. = $v])", "$p:w + count(//p:b)"]


def api_histories(run: Run) -> None:
    """module-level select() / iter_select(), Selector and explicit parser + context must agree while the SAME
    expression text is used with DIFFERENT prefix bindings, variables, parser classes and root kinds in one process
    (a cache keyed by the text, by the prefixes or by the parser would show)"""
    import elementpath
    import xml.etree.ElementTree as ET
    import lxml.etree as LE
    from elementpath import XPathContext, Selector, XPath2Parser
    from elementpath.xpath30 import XPath30Parser
    from elementpath.xpath31 import XPath31Parser
    rng = run.rng
    nss = [{'p': 'urn:c05:p', 'q': 'urn:c05:q'}, {'p': 'urn:c05:q', 'q': 'urn:c05:p'}, {'p': 'urn:c05:none'}]
    roots = [ET.XML(API_DOC), ET.ElementTree(ET.XML(API_DOC)), LE.XML(API_DOC.encode()), LE.XML(API_DOC.encode()).getroottree()]
    selectors = {}

    def g(f):
        try:
            return canon_any(f())
        except Exception as e:  # noqa
            return canon_error(e)
    for _ in range(run.scale(250, 2500)):
        expr = rng.choice(API_EXPRS)
        ns = rng.choice(nss)
        pc = rng.choice([XPath31Parser, XPath31Parser, XPath30Parser, XPath2Parser])
        if pc is XPath2Parser and ('function' in expr or 'let ' in expr or '!' in expr or 'Q{' in expr):
            pc = XPath30Parser if 'Q{' not in expr and '!' not in expr else XPath31Parser
        root = rng.choice(roots)
        vs = {'v': rng.randrange(1, 4), '{%s}w' % ns['p']: 7}
        want = g(lambda: pc(namespaces=dict(ns)).parse(expr).get_results(XPathContext(root, namespaces=dict(ns), variables=dict(vs))))
        api = rng.choice(['select', 'iter_select', 'Selector'])
        if api == 'select':
            got = g(lambda: elementpath.select(root, expr, namespaces=dict(ns), parser=pc, variables=dict(vs)))
        elif api == 'iter_select':
            got = g(lambda: list(elementpath.iter_select(root, expr, namespaces=dict(ns), parser=pc, variables=dict(vs))))
        else:
            key = (expr, tuple(sorted(ns.items())), pc)
            if key not in selectors:
                selectors[key] = Selector(expr, namespaces=dict(ns), parser=pc)
            got = g(lambda: selectors[key].select(root, namespaces=dict(ns), variables=dict(vs)))
        run.stats.count('api-history-steps:' + api)
        if got != want:
            run.disagree(Disagreement({'xpath': expr, 'namespaces': ns, 'parser': pc.__name__, 'api': api, 'variables': {'v': vs['v']},
                                       'root': type(root).__module__ + '.' + type(root).__name__, 'document': API_DOC},
                                      got, None, spec=want, what='api-vs-explicit-parse', site='xpath_selectors'))
            return


def context_reuse_histories(run: Run) -> None:
    """ONE XPathContext object reused for a sequence of different expressions (paths, predicates, binders, raising ones):
    each result must equal the result on a fresh context, and the context's focus / variables must be as before."""
    from elementpath import XPathContext
    from elementpath.xpath31 import XPath31Parser
    rng = run.rng
    exprs = ["//b[2]/text()", "count(//b)", "/*/b[. = 2]/position()", "for $x in //b return $x/$undef", "//b ! (if (. = 2) then error() else .)",
             "//b[1 div (. - 1)]", "string(.)", "name(.)", "position()", "last()", "//b/following-sibling::*[1]/name()",
             "(//b)[last()]/preceding-sibling::b/string()", "some $x in //b satisfies $x/$undef", "//c/ancestor::*/name()",
             "//b[xs:integer(.) idiv 0 = 1]", ". instance of element()", "//b treat as element()*", "//b instance of element()+", "//b ! position()", "/*/node()[3]/string()", "sum(//b[. castable as xs:integer])",
             "//b/string-length#0()", "//b[position() = last()]", "name(..)", "count(./*)", "let $v := 9 return $v + count(//b)", "$v",
             "for $v in (1, 2) return $v", "function($v) { $v }(5) + $v", "every $x in //b satisfies $x = $v",
             # functions / shortcuts that walk an axis of the caller's context and stop early
             "lang('en')", "lang('de')", "lang('EN-us')", "lang('fr')", "lang('en', .)", "lang('en', ..)", "*[lang('en')]", "//*[lang('de')]/name()",
             "..", "name(..)", "../name()", "../..", "ancestor::*[1]/name()", "(ancestor-or-self::*)[1]/name()", "exists(..)",
             "boolean(ancestor::*)", "(following::*)[1]/name()", "(preceding::*)[1]/name()", "head(descendant::*)/name()",
             "some $x in ancestor::* satisfies name($x) = 'a'", "(../*)[1] is .",
             # steps / consumers that raise or stop in the middle of an axis of the caller's context, values that used to
             # become the context item
             "child::*[error()]", "* ! error()", "*/error()", "*/(1 idiv 0)", "descendant::*[. = 7][error()]", "*/..[error()]",
             "*/@*[error()]", "zero-or-one(*)", "exactly-one(//b)", "ancestor::*/error()", "following::*[error()]",
             "preceding-sibling::* ! error()", "@*[error()]", "* ! (if (name() = 'b') then error() else 1)", "2 * 3", "count(*) * 2",
             "sum(//b[. castable as xs:integer]) * 1", "count(namespace::*)", "namespace::*[1] ! name()", "namespace-node()",
             "*/namespace-node()[error()]", "concat(?, 'x')('a')", "text()/lang('en')", "node()[lang('en')]"] + \
            [e for e in CACHE_EXPRS if '$p:' not in e and 'Q{' not in e]
    parser = XPath31Parser(namespaces=dict(NS))
    tokens = {}

    def run_one(tk, ctx, api='get_results'):
        try:
            return canon_any(getattr(tk, api)(ctx))
        except RecursionError as e:
            return canon_error(e)
        except Exception as e:  # noqa
            return canon_error(e)

    def state(c):
        return (id(c.item), c.position, c.size, c.axis, id(c.root), sorted((k, canon_any(v)) for k, v in c.variables.items()))
    for _ in range(run.scale(40, 400)):
        d = rng.randrange(len(DOCS))
        root, tostr = make_doc(d)
        if rng.random() < 0.4:
            root = root.getroottree() if hasattr(root, 'getroottree') else __import__('xml.etree.ElementTree').etree.ElementTree.ElementTree(root)
        v = rng.randrange(1, 4)
        # the context item: the root / document, or (half of the time) some element below it
        inner = [x for x in (root.getroot() if hasattr(root, 'getroot') else root).iter() if isinstance(x.tag, str)]
        item = rng.choice(inner) if rng.random() < 0.5 else None
        mk = (lambda: XPathContext(root, namespaces=dict(NS), variables={'v': v})) if item is None else \
            (lambda: XPathContext(root, namespaces=dict(NS), item=item, variables={'v': v}))
        ctx = mk()
        s0, hist = state(ctx), []
        for _ in range(rng.randrange(4, 12)):
            e = rng.choice(exprs)
            hist.append(e)
            try:
                tk = tokens.get(e) or tokens.setdefault(e, parser.parse(e))
            except Exception:  # noqa
                continue
            api = rng.choice(['get_results', 'get_results', 'evaluate'])
            got = run_one(tk, ctx, api)
            fresh = run_one(parser.parse(e), mk(), api)
            run.stats.count('context-reuse-steps')
            case = {'document': DOCS[d][1], 'v': v, 'context_item': None if item is None else str(item.tag),
                    'last_api': api, 'expressions_on_one_context': list(hist)}
            tags = []
            if got != fresh:
                run.disagree(Disagreement(case, got, None, spec=fresh, what='reused-context-vs-fresh', site='XPathContext focus',
                                          tags=tags))
                break
            if state(ctx) != s0:
                run.disagree(Disagreement(case, 'context-changed', None, spec='unchanged', what='caller-context-modified',
                                          site='XPathContext focus', tags=tags))
                break


_FRESH_SCRIPT = r"""
import sys, json
sys.path.insert(0, sys.argv[1]); sys.path.insert(0, sys.argv[2])
from harness import common
common.use_repo()
from harness import c05
jobs = json.load(sys.stdin)
print(json.dumps([c05.run_job(j) for j in jobs]))
"""


def run_job(job) -> str:
    """one isolated evaluation described by plain data (used in this process and in a fresh one)"""
    import elementpath
    from elementpath import XPath2Parser
    from elementpath.xpath30 import XPath30Parser
    from elementpath.xpath31 import XPath31Parser
    pc = {'2.0': XPath2Parser, '3.0': XPath30Parser, '3.1': XPath31Parser}[job['parser']]
    kw = {}
    if job.get('xsd_version'):
        kw['xsd_version'] = job['xsd_version']
    try:
        return canon_any(elementpath.select(make_doc(job['doc'])[0], job['xpath'], namespaces=job['namespaces'], parser=pc,
                                            variables=job['variables'], **kw))
    except RecursionError as e:
        return canon_error(e)
    except Exception as e:  # noqa
        return canon_error(e)


def fresh_process_histories(run: Run, n: int, functions=None):
    """a history of n isolated select() calls in THIS process (same expression texts recurring with different documents,
    prefix bindings, variables, parser and XSD versions) against the same jobs evaluated in reverse order by a FRESH
    Python process: state kept at module / class level shows as a difference"""
    import json
    import subprocess
    from harness.common import VERIF, REPO
    rng = run.rng
    pool = [e for e, tk in harvested_expressions() if functions is None or token_uses(tk, functions)]
    if len(pool) < 40:
        pool += [e for e, _ in harvested_expressions()]
    base = rng.sample(pool, min(len(pool), max(20, n // 6)))
    jobs = []
    for _ in range(n):
        ns = rng.choice([dict(NS), {'p': 'urn:c05:q', 'xs': NS['xs']}, {'p': 'urn:c05:p', 'tst': 'urn:t', 'xs': NS['xs']}])
        jobs.append({'xpath': rng.choice(base), 'doc': rng.randrange(len(DOCS)), 'namespaces': ns,
                     'parser': rng.choice(['3.1', '3.1', '3.0', '2.0']), 'xsd_version': rng.choice([None, '1.0', '1.1']),
                     'variables': {'v': rng.randrange(1, 4), 'x': 1, 'a': 1, 'b': 2, 'var': 'abc', 'word': 'alpha', 'n': 3}})
    here = [run_job(j) for j in jobs]
    p = subprocess.run([sys.executable, '-c', _FRESH_SCRIPT, str(VERIF), str(REPO)], input=json.dumps(jobs[::-1]),
                       capture_output=True, text=True, timeout=600, env={**__import__('os').environ, 'VERIF_REPO': str(REPO)})
    if p.returncode != 0:
        raise RuntimeError('fresh process failed: ' + p.stderr[-800:])
    there = json.loads(p.stdout.strip().splitlines()[-1])[::-1]
    found = []
    for k, (j, a, b) in enumerate(zip(jobs, here, there)):
        if a != b:
            found.append(Disagreement({'job': j, 'position_in_history': k, 'document': DOCS[j['doc']][1]}, a, None, spec=b,
                                      what='history-in-process-vs-fresh-process', site='module / class level state'))
    run.stats.count('fresh-process-jobs', len(jobs))
    return found


# --------------------------------------------------------------------------- search
def template_cases():
    """every binder kind inside every binder kind, on a name that is / is not a caller's variable, followed by a
    reference after the scope; the same with an inline function defined outside and called inside."""
    out = []
    rng12 = ('P', ('S', ('I', 1), ('I', 2)))

    def bind(kind, x, body):
        if kind == 'L':
            return ('L', x, ('I', 20), wrap_body(body))
        if kind == 'F':
            return ('F', x, rng12, wrap_body(body))
        if kind in ('O', 'Y'):
            return (kind, x, rng12, ('Q', wrap_operand(body), ('I', 2)))
        if kind == 'call':
            return mk_call(('N', (x,), body), [('I', 30)])
        if kind == 'callvar':   # function bound to a variable, then called
            return ('L', 4, ('N', (x,), body), mk_call(('V', 4), [('I', 40)]))
        raise ValueError(kind)

    kinds = ['L', 'F', 'O', 'Y', 'call', 'callvar']
    for outer in kinds:
        for inner in kinds:
            for same in (True, False):
                x, y = 0, (0 if same else 1)
                inner_e = bind(inner, y, ('A', ('V', y), ('I', 1)))
                body = mk_seq([inner_e, ('V', x)]) if outer in ('L', 'F', 'call', 'callvar') else ('A', wrap_operand(inner_e), ('V', x))
                prog = mk_seq([bind(outer, x, body), ('V', x), ('V', y)])
                for glob in ({}, {0: [('i', 7)], 1: [('i', 8)]}):
                    steps = [{'doc': d, 'tz': None, 'vars': 0, 'api': a}
                             for d, a in ((0, 'token'), (1, 'selector'), (0, 'evaluate'))]
                    for merge in (False, True):
                        out.append({'ast': prog, 'merge': merge, 'heap': [], 'var_sets': [glob], 'steps': steps,
                                    'flavour': 'template'})
    # dateTime histories: every pair of implicit timezones, caller's object with / without timezone
    for tz1 in (None, 300, -180):
        for tz2 in (None, 300, -180):
            for own in (None, 60):
                for e in (('M', ('V', 0), ('D', 0, 0)), ('M', ('D', 0, 0), ('V', 0)), ('M', ('V', 0), ('V', 0)),
                          ('P', ('S', ('M', ('V', 0), ('D', 0, None)), ('Z', ('V', 0))))):
                    steps = [{'doc': 0, 'tz': tz1, 'vars': 0, 'api': 'token'}, {'doc': 0, 'tz': tz2, 'vars': 0, 'api': 'selector'},
                             {'doc': 1, 'tz': tz1, 'vars': 0, 'api': 'evaluate'}]
                    out.append({'ast': e, 'merge': False, 'heap': [(7200, own)], 'var_sets': [{0: [('r', 0)]}], 'steps': steps,
                                'flavour': 'template'})
    return out


def search(run: Run):
    sub = Run(PROP, run.tier, run.seed)
    sub.rng = run.rng
    new = getattr(run, 'new_sites', None) or {}
    funcs = {fn.split('.')[-1] if '.' not in fn else fn for _, fn, _ in new.get('token', [])} | \
            {fn for _, fn, _ in new.get('binds', [])} | {fn for _, _, fn, _ in new.get('tree', [])} | \
            {fn for _, _, fn, _ in new.get('module', [])} | {fn for _, fn, _, _ in new.get('focus', [])}
    funcs |= {f.split('.')[0] for f in funcs} | {f.split('.')[-1] for f in funcs}
    if funcs:
        found = site_histories(run, funcs)
        if found:
            return found
        # state that outlives the objects (module / class level): only another PROCESS is a fresh oracle
        found = fresh_process_histories(run, run.scale(400, 1500), functions=funcs)
        if found:
            return found
    cases = template_cases() + [gen_case(run.rng, True) for _ in range(run.scale(1500, 6000))]
    for i in range(0, len(cases), 500):
        compare(sub, cases[i:i + 500], stats=False)
    sub.disagreements.extend(c05_focus.focus_histories(sub, limited_driver, run.scale(1500, 6000), stats=False))
    run.notes.append(f'search: {len(cases)} cases (systematic scope templates + random histories), '
                     f'{len(sub.disagreements)} disagreements')
    return sub.disagreements


# ------------------------------------------------------------ typing of generated programs
class IllTyped(Exception):
    pass


def typeof(e, scope):
    """the typing discipline of `Gen` (used to keep the shrinker inside the fragment the model covers:
    no type errors, no unbound references except as strict top-level components)"""
    t = e[0]
    if t == 'I':
        return 'int'
    if t == 'V':
        if e[1] in DOCVARS:
            return 'int'
        if e[1] not in scope:
            raise IllTyped(f'unbound v{e[1]}')
        return scope[e[1]]
    if t == 'E':
        return 'seq'
    if t == 'P':
        return typeof(e[1], scope)
    if t == 'S':
        a, b = typeof(e[1], scope), typeof(e[2], scope)
        if isinstance(a, tuple) and a[0] in ('fn', 'seqfn') and e[2] == ('E',):
            return ('seqfn', a if a[0] == 'fn' else a[1])
        return 'seq' if a in ('int', 'seq') and b in ('int', 'seq') else 'mixed'
    if t in ('A', 'M'):
        a, b = typeof(e[1], scope), typeof(e[2], scope)
        if (e[1] == ('E',) and b in ('int', 'dt')) or (e[2] == ('E',) and a in ('int', 'dt')):
            return 'seq'
        if a == b == 'int':
            return 'int'
        if t == 'M' and a == b == 'dt':
            return 'dur'
        if t == 'M' and ((e[1] == ('E',) and b == 'dt') or (e[2] == ('E',) and a == 'dt')):
            return 'dur'
        raise IllTyped(f'{t} on {a},{b}')
    if t == 'Q':
        a, b = typeof(e[1], scope), typeof(e[2], scope)
        if a in ('int', 'seq') and b in ('int', 'seq'):
            return 'bool'
        raise IllTyped('= on ' + str((a, b)))
    if t == 'D':
        return 'dt'
    if t == 'Z':
        if e[1] != ('E',) and typeof(e[1], scope) != 'dt':
            raise IllTyped('Z')
        return 'tzdur'
    if t == 'K':
        if e[1] % 60 or abs(e[1]) > 50400:
            raise IllTyped('K')
        return 'tzdur'
    if t == 'J':
        if e[1] != ('E',) and typeof(e[1], scope) != 'dt':
            raise IllTyped('J')
        return 'dt'
    if t == 'J2':
        if (e[1] != ('E',) and typeof(e[1], scope) != 'dt') or not (e[2] == ('E',) or typeof(e[2], scope) == 'tzdur'):
            raise IllTyped('J2')
        return 'dt'
    if t == 'L':
        return typeof(e[3], {**scope, e[1]: typeof(e[2], scope)})
    if t in ('F', 'O', 'Y'):
        r = typeof(e[2], scope)
        if isinstance(r, tuple) and r[0] == 'fn':
            r = ('seqfn', r)
        if not (r in ('int', 'seq', 'dts') or (isinstance(r, tuple) and r[0] == 'seqfn')) or e[1] in names_in(e[2]):
            raise IllTyped('range')
        b = typeof(e[3], {**scope, e[1]: 'int' if r in ('int', 'seq') else ('dt' if r == 'dts' else r[1])})
        if t == 'F':
            if b in ('dur', 'tzdur'):
                return 'mixed'
            if isinstance(b, tuple) and b[0] == 'fn':
                return ('seqfn', b)
            if b not in ('int', 'seq'):
                raise IllTyped('for body')
            return 'seq'
        if b not in ('int', 'bool'):
            raise IllTyped('quantifier body')
        return 'bool'
    if t == 'N':
        if len(set(e[1])) != len(e[1]):
            raise IllTyped('duplicate parameter')
        return ('fn', len(e[1]), typeof(e[2], {**scope, **{p: 'int' for p in e[1]}}))
    if t == 'C0':
        f = typeof(e[1], scope)
        if not (isinstance(f, tuple) and f[1] == 0):
            raise IllTyped('call0')
        return f[2]
    if t == 'C':
        f = typeof(e[1], scope)
        args = []
        a = e[2]
        while a[0] == 'S':
            args.append(a[2])
            a = a[1]
        args.append(a)
        if not (isinstance(f, tuple) and f[1] == len(args)) or any(typeof(x, scope) != 'int' for x in args):
            raise IllTyped('call')
        return f[2]
    raise IllTyped(str(t))


def global_types(var_sets):
    out = {}
    for n in var_sets[0]:
        items = [vs[n] for vs in var_sets]
        if all(len(i) == 1 and i[0][0] == 'r' for i in items):
            out[n] = 'dt'
        elif any(x[0] == 'r' for i in items for x in i) or (all(len(i) == 0 for i in items)):
            out[n] = 'dts' if any(x[0] == 'r' for i in items for x in i) else 'seq'
        elif all(len(i) == 1 for i in items):
            out[n] = 'int'
        else:
            out[n] = 'seq'
    return out


def in_fragment(ast, var_sets) -> bool:
    """well typed; an unbound reference only as a whole top-level component"""
    scope = global_types(var_sets)
    comps = []
    a = ast[1] if ast[0] == 'P' else ast
    while a[0] == 'S':
        comps.append(a[2])
        a = a[1]
    comps.append(a)
    try:
        for c in comps:
            if c[0] == 'V' and c[1] not in scope and c[1] not in DOCVARS:
                continue
            typeof(c, scope)
        return True
    except IllTyped:
        return False


# --------------------------------------------------------------------------- shrink
def sub_asts(e):
    """candidate replacements of e by something smaller"""
    for c in e[1:]:
        if isinstance(c, tuple) and c and isinstance(c[0], str):
            yield c
    if e[0] != 'I':
        yield ('I', 1)


def rewrites(e):
    """all ASTs obtained by shrinking exactly one node"""
    for s in sub_asts(e):
        yield s
    for i, c in enumerate(e[1:], 1):
        if isinstance(c, tuple) and c and isinstance(c[0], str):
            for r in rewrites(c):
                yield e[:i] + (r,) + e[i + 1:]


def shrink(d: Disagreement) -> Disagreement:
    case = d.case
    if not isinstance(case, dict) or 'ast' not in case:
        return d

    def as_case(ast, steps):
        return {'ast': tuple_deep(ast), 'merge': case['merge'], 'heap': case['heap'], 'var_sets': case['var_sets'],
                'steps': steps, 'flavour': case.get('flavour', ''), 'xsd': case.get('xsd', '1.0'),
                'match_cls': case.get('match_cls', False)}

    def failing(cands):
        sub = Run(PROP, 'quick', 0)
        ok = []
        try:
            lines = [line_of(c) for c in cands]
            answers = limited_driver(sub, lines)
        except Exception:  # noqa
            return None
        for c, ans in zip(cands, answers):
            one = Run(PROP, 'quick', 0)
            one.driver_override = lambda ls, _a=ans: [_a]
            try:
                compare(one, [c], stats=False)
            except Exception:  # noqa
                continue
            v = [x for x in one.disagreements if x.kind == d.kind and x.tags == d.tags]
            if v:
                ok.append((c, v[0]))
        return ok

    best = as_case(case['ast'], case['steps'])
    best_d = d
    for _ in range(12):
        cands = []
        if len(best['steps']) > 1:
            for i in range(len(best['steps'])):
                cands.append(as_case(best['ast'], best['steps'][:i] + best['steps'][i + 1:]))
        seen = set()

        def subtrees(e):
            for c in e[1:]:
                if isinstance(c, tuple) and c and isinstance(c[0], str):
                    yield c
                    yield from subtrees(c)
        for r in list(subtrees(best['ast'])) + list(rewrites(best['ast'])):
            try:
                key = encode(r)
            except Exception:  # noqa
                continue
            if key in seen or size_of(r) >= size_of(best['ast']) or not in_fragment(r, case['var_sets']):
                continue
            seen.add(key)
            cands.append(as_case(r, best['steps']))
            if len(cands) > 400:
                break
        res = failing(cands)
        if not res:
            break
        res.sort(key=lambda cv: (size_of(cv[0]['ast']), len(cv[0]['steps'])))
        best, best_d = res[0]
    return best_d


def tuple_deep(x):
    return tuple(tuple_deep(y) for y in x) if isinstance(x, (list, tuple)) else x


# ------------------------------------------------------------------------------ replay
def replay(run: Run, path: str) -> int:
    import json
    data = json.loads(Path(path).read_text())
    fi = data.get('failing_input') or {}
    c = fi.get('case')
    if not c:
        print('replay file carries no failing input')
        return 2
    if 'fast' in c:                                   # a history of the focus fragment (harness/c05_focus.py)
        for d in c05_focus.replay_case(run, limited_driver, c):
            run.disagree(d)
            print('replayed:', d.to_json())
        return run.finish('proof')
    case = {'ast': tuple_deep(c['ast']), 'merge': c['merge'], 'heap': [tuple(x) for x in c['heap']],
            'var_sets': [{int(k): [tuple(i) for i in v] for k, v in vs.items()} for vs in c['var_sets']],
            'steps': c['steps'], 'flavour': 'replay', 'xsd': c.get('xsd', '1.0'), 'match_cls': c.get('match_cls', False)}
    compare(run, [case])
    for d in run.disagreements:
        print('replayed:', d.to_json())
    return run.finish('proof')


def body(run: Run) -> int:
    run.trusted_base += ['generator / renderer / canonicalisers of harness/c05.py (the rendering is checked against the '
                         'real parser\'s token tree on every case)',
                         'XPath31Parser of /repo for turning the text into the token tree']
    run.assumptions += [
        'a dict is modelled as an association list (first match wins); multi-clause binders as nested one-clause binders',
        'generators are modelled eagerly: generated programs raise errors only at strict top-level positions',
        'only integers, booleans, xs:dateTime, xs:dayTimeDuration and inline functions occur as values',
        'that no evaluation writes to the XML tree, the schema or the namespaces map is OBSERVED on the histories, not proved',
        'token-level caches other than the closure variables: the slots of map / array constructor tokens (XPathMap._map, '
        'XPathArray._array) are modelled and proved untouched on the focus fragment (Props/C05Focus); XPathFunction._items '
        'and the other dynamic sites are exercised by re-evaluation histories only',
        'focus fragment: maps / arrays hold sequences of atomic values (no nested containers); `.`, position(), last() only '
        'under `!` or a predicate (the model has no top-level focus)',
    ]
    info = translate(run)
    run.new_sites = info['new']
    run.stats.extra['structural_scan'] = {'tree_dict_schema_node_write_sites': len(info['tree']),
                                          'variables_bind_sites': len(info['binds']),
                                          'token_state_sites': len(info['token']),
                                          'module_class_state_sites': len(info['module']),
                                          'focus_sites': len(info['focus']), 'context_iterators': len(info['iterators']),
                                          'unreviewed': {k: [list(x) for x in v] for k, v in info['new'].items() if v}}
    run.trusted_base.append('translator harness/c05_sites.py (syntactic, name-based ast scan of the package for write sites)')
    if getattr(run, 'replay', None):
        run.prove(['EPV.Props.C05', 'EPV.Props.C05Sites', 'EPV.Props.C05Focus'],
                      ['EPV.Spec.LexicalSem', 'EPV.Model.FocusCtorDriver'])
        return replay(run, run.replay)
    run.prove(['EPV.Props.C05', 'EPV.Props.C05Sites', 'EPV.Props.C05Focus'],
                  ['EPV.Spec.LexicalSem', 'EPV.Model.FocusCtorDriver'])
    try:
        correspond(run)
        for d in c05_focus.focus_histories(run, limited_driver, run.scale(500, 5000)):   # phase 5: focus fragment
            run.disagree(d)
        cache_histories(run)
        object_histories(run)
        dynamic_site_histories(run)
        api_histories(run)
        context_reuse_histories(run)
        for d in fresh_process_histories(run, run.scale(150, 1500)):
            run.disagree(d)
    except DriverError as e:
        run.broken.append('driver:C05 ' + str(e)[:300])
    return run.finish('proof', shrink=shrink, search=search)


if __name__ == '__main__':
    cli(PROP, body, translate=translate)

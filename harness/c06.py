"""
C06 — numeric operators and rounding functions follow XPath F&O arithmetic exactly.

 prove     : EPV.Props.C06 (idiv/mod/div-mod identity on unbounded Int and on decimals as scaled
             integers, exact + - *, fn:round = floor(x+1/2), round-half-to-even, floor/ceiling/abs,
             type-promotion table, division-by-zero table, double special-value dispatch up to `rnd`)
 correspond: operand pairs of the four numeric types x every operator / rounding function x the four
             parsers, evaluated through `elementpath.select(None, 'A op B', item=1)`; the Lean driver
             answers with the model result (Python semantics, IEEE rounding executed by a Lean
             round-to-nearest-even), the spec result (F&O) and the trigger flags of the findings.
             Doubles travel as exact rationals (never compared as floats).
 search    : exhaustive small grid (small values of every type, specials, every operator, every parser)
 shrink    : greedy replacement of operands / precision by simpler values of the same type
"""
from __future__ import annotations

import json
import math
import sys
from decimal import Decimal
from fractions import Fraction as Fr
from pathlib import Path

sys.path.insert(0, str(Path(__file__).resolve().parent.parent))
from harness.common import (Run, Disagreement, cli, DriverError)  # noqa: E402

PROP = 'C06'
BIN = ['add', 'sub', 'mul', 'div', 'idiv', 'mod']
SYM = {'add': '+', 'sub': '-', 'mul': '*', 'div': 'div', 'idiv': 'idiv', 'mod': 'mod'}
UN = ['neg', 'pos', 'abs', 'floor', 'ceiling', 'round1', 'round', 'rhe']
FN = {'abs': 'abs', 'floor': 'floor', 'ceiling': 'ceiling', 'round1': 'round', 'round': 'round',
      'rhe': 'round-half-to-even'}
FINDING_IDS = ('F06c', 'F06p', 'F06v')
SPECIALS = ('NaN', 'INF', '-INF', '0', '-0')
F32_MAX = 3.4028234663852886e38

_parsers = {}


def parser_of(ver: str):
    if not _parsers:
        from elementpath import XPath1Parser, XPath2Parser
        from elementpath.xpath30 import XPath30Parser
        from elementpath.xpath31 import XPath31Parser
        _parsers.update({'10': XPath1Parser, '20': XPath2Parser, '30': XPath30Parser, '31': XPath31Parser})
    return _parsers[ver]


# ------------------------------------------------------------------------------ values
# ('i', int) | ('d', coefficient, scale) | ('D', x) | ('F', x)  with x in SPECIALS or a Fraction != 0
def dbl_val(tag: str, x: float):
    if math.isnan(x):
        return (tag, 'NaN')
    if math.isinf(x):
        return (tag, 'INF' if x > 0 else '-INF')
    if x == 0:
        return (tag, '-0' if math.copysign(1.0, x) < 0 else '0')
    return (tag, Fr(x))


def to_float(x) -> float:
    if isinstance(x, Fr):
        return x.numerator / x.denominator
    return {'NaN': math.nan, 'INF': math.inf, '-INF': -math.inf, '0': 0.0, '-0': -0.0}[x]


def proto(val) -> str:
    if val is None:
        return '_'
    if val[0] == 'E':
        return 'E'
    if val[0] == 'i':
        return f'i:{val[1]}'
    if val[0] == 'd':
        return f'd:{val[1]}:{val[2]}'           # a 4th element '-' (Decimal negative zero) is not part of the value
    if val[0] == 'S':
        return 'S:' + '.'.join(str(ord(c)) for c in val[1])
    x = val[1]
    return f'{val[0]}:{x.numerator}/{x.denominator}' if isinstance(x, Fr) else f'{val[0]}:{x}'


def dec_str(n: int, s: int) -> str:
    sign = '-' if n < 0 else ''
    digits = str(abs(n)).rjust(s + 1, '0')
    return sign + (digits[:-s] + '.' + digits[-s:] if s else digits)


def exact_decimal(x: Fr) -> str:
    """exact decimal expansion of a dyadic rational (every double has a finite one)"""
    d = x.denominator
    k = d.bit_length() - 1
    assert d == 1 << k
    n = abs(x.numerator) * 5**k            # x = n / 10^k
    digits = str(n).rjust(k + 1, '0')
    body = digits[:-k] + '.' + digits[-k:] if k else digits
    return ('-' if x < 0 else '') + body


def lit(val, ver: str, style: int) -> str:
    """XPath source text of an operand.  style 0 = constructor, 1 = literal where one exists"""
    t = val[0]
    if t == 'E':
        return '()'
    if t == 'd' and len(val) == 4:
        return f"xs:decimal('-{dec_str(0, val[2])}')"      # Decimal('-0.0'): xs:decimal has no negative zero
    if ver == '10':
        if t == 'S':
            assert "'" not in val[1]
            return "'" + val[1] + "'"
        if t == 'i':
            return str(val[1])                       # '-5' is the unary minus of the literal 5: same value
        if t == 'd':
            s = dec_str(val[1], val[2])
            return s if '.' in s else s + '.0'
        assert t == 'D'
        x = val[1]
        if not isinstance(x, Fr):
            return {'NaN': '(0 div 0)', 'INF': '(1 div 0)', '-INF': '(-1 div 0)', '0': "number('0')", '-0': "number('-0')"}[x]
        # XPath 1.0 number() accepts only `-? Digits ('.' Digits?)?`: the exact decimal expansion of the double
        return f"number('{exact_decimal(x)}')"
    if t == 'i':
        return f'{val[1]}' if style else f"xs:integer('{val[1]}')"
    if t == 'd':
        s = dec_str(val[1], val[2])
        if style:
            return s if '.' in s else s + '.0'
        return f"xs:decimal('{s}')"
    x = val[1]
    s = x if not isinstance(x, Fr) else repr(to_float(x))
    if style and t == 'D' and isinstance(x, Fr):
        r = repr(to_float(x))
        return r if 'e' in r else r + 'e0'
    return f"xs:double('{s}')" if t == 'D' else f"xs:float('{s}')"


def expr_of(case) -> str:
    ver, op, a, b, p, style = case['v'], case['op'], case['a'], case['b'], case['p'], case.get('style', 0)
    A = lit(a, ver, style)
    if op in SYM:
        return f'{A} {SYM[op]} {lit(b, ver, style)}'
    if op == 'neg':
        return f'-({A})' if not style else f'- {A}'
    if op == 'pos':
        return f'+({A})'
    fn = FN[op]
    return f'{fn}({A})' if p is None else f'{fn}({A}, {p})'


def line_of(case) -> str:
    p = '_' if case['p'] is None else case['p']
    return f"v={case['v']} op={case['op']} a={proto(case['a'])} b={proto(case['b'])} p={p}"


def case_json(case) -> dict:
    return {'v': case['v'], 'op': case['op'], 'a': proto(case['a']), 'b': proto(case['b']),
            'p': case['p'], 'style': case.get('style', 0), 'expr': expr_of(case)}


def val_of_proto(s: str):
    if s == '_':
        return None
    if s == 'E':
        return ('E',)
    t, rest = s.split(':', 1)
    if t == 'i':
        return ('i', int(rest))
    if t == 'd':
        n, sc = rest.split(':')
        return ('d', int(n), int(sc))
    if t == 'S':
        return ('S', ''.join(chr(int(c)) for c in rest.split('.')) if rest else '')
    return (t, rest if rest in SPECIALS else Fr(rest))


def case_of_json(j) -> dict:
    return {'v': j['v'], 'op': j['op'], 'a': val_of_proto(j['a']), 'b': val_of_proto(j['b']),
            'p': j['p'], 'style': j.get('style', 0)}


# ------------------------------------------------------------------- implementation runner
def canon(r) -> str:
    from elementpath.datatypes import Float
    if isinstance(r, (list, tuple)):
        if len(r) == 1:
            return canon(r[0])
        return 'EMPTY' if not r else 'SEQ[' + ','.join(canon(x) for x in r) + ']'
    if isinstance(r, bool):
        return 'OTHER:bool'
    if isinstance(r, float):
        t, x = dbl_val('F' if isinstance(r, Float) else 'D', float(r))
        return proto((t, x))
    if isinstance(r, int):
        return f'i:{int(r)}'
    if isinstance(r, Decimal):
        if not r.is_finite():
            return 'd:nonfinite'
        q = Fr(r)
        return f'd:{q.numerator}/{q.denominator}'
    return 'OTHER:' + type(r).__name__


def num10(c: str) -> str:
    """XPath 1.0 has one numeric type: drop the type tag, keep the exact value (an exact zero is +0)"""
    if c[:2] in ('i:', 'd:', 'D:', 'F:'):
        v = c[2:]
        if c[0] == 'i':
            v = v + '/1'
        if c[0] in 'id' and v.startswith('0/'):
            v = '0'
        return 'N:' + v
    return c


_shared_parsers = {}


def guarded(fn) -> str:
    """canonical result of one evaluation path; every exception is part of the observed behaviour"""
    import elementpath
    try:
        return canon(fn())
    except elementpath.ElementPathError as e:
        return 'ERR:' + (getattr(e, 'code', None) or 'NOCODE').split(':')[-1]
    except BaseException as e:  # noqa  (a raw Python exception is itself a finding of the check)
        if isinstance(e, (KeyboardInterrupt, SystemExit)):
            raise
        return 'ERR:OTHER:' + type(e).__name__


def eval_paths(expr: str, ver: str, variables=None, api: bool = False, shared: bool = False) -> str:
    """Evaluate `expr` through the public paths and return the canonical result, or `PATHS{...}` listing
    them when they disagree:  token.evaluate(context)  and  list(token.select(context))  on one parsed token
    (fresh contexts), and with api=True also elementpath.select(...) and list(elementpath.iter_select(...)).
    shared=True parses with one long-lived parser instance per version."""
    import elementpath
    cls = parser_of(ver)

    def ctx():
        return elementpath.XPathContext(root=None, item=1, variables=dict(variables) if variables else None)
    try:
        prs = _shared_parsers.setdefault(ver, cls()) if shared else cls()
        token = prs.parse(expr)
    except elementpath.ElementPathError as e:
        return 'ERR:' + (getattr(e, 'code', None) or 'NOCODE').split(':')[-1]
    except BaseException as e:  # noqa
        if isinstance(e, (KeyboardInterrupt, SystemExit)):
            raise
        return 'ERR:OTHER:' + type(e).__name__
    res = {'evaluate': guarded(lambda: token.evaluate(ctx())),
           'select': guarded(lambda: list(token.select(ctx())))}
    if api:
        kw = {'variables': dict(variables)} if variables else {}
        res['api.select'] = guarded(lambda: elementpath.select(None, expr, parser=cls, item=1, **kw))
        res['api.iter_select'] = guarded(lambda: list(elementpath.iter_select(None, expr, parser=cls, item=1, **kw)))
        res['Selector'] = guarded(lambda: elementpath.Selector(expr, parser=cls).select(None, item=1, **kw))
    vals = set(res.values())
    if len(vals) == 1:
        return vals.pop()
    return 'PATHS{' + ' '.join(f'{k}={v}' for k, v in res.items()) + '}'


def conv_ver(r: str, ver: str) -> str:
    if ver != '10':
        return r
    if r.startswith('SEQ['):
        return 'SEQ[' + ','.join(num10(x) for x in r[4:-1].split(',')) + ']'
    return num10(r)


def run_impl(case, variant: int = 0) -> str:
    """variant 0: one parsed token, evaluate + select;  1: the same through a long-lived parser instance;
    2: additionally the module-level API (select, iter_select, Selector)"""
    r = eval_paths(expr_of(case), case['v'], api=(variant == 2), shared=(variant == 1))
    return conv_ver(r, case['v'])


# --------------------------------------------------------------------------- generators
INTS = [0, 1, -1, 2, -2, 3, -3, 5, -5, 6, -6, 7, -7, 10, -10, 12, -12, 15, -15, 25, -25, 35, 100, -100,
        12345, -12345, 10**9 + 1, -(10**9) - 1, 10**18 - 1, 2**63 - 1, -2**63, 2**63 + 1, 2**64 + 1,
        10**20, -(10**20) - 7, 10**27 + 5, 10**30 + 15]
HUGE_INTS = [10**400, -(10**400) - 3, 2**1024, 2**1024 - 1, -(2**1024), 2**1023 * 3 // 2, 10**308 * 18, 7 * 10**350 + 1]
DBLS = [1.0, -1.0, 2.0, -2.0, 3.0, -3.0, 0.5, -0.5, 1.5, -1.5, 2.5, -2.5, 3.5, -3.5, 6.5, -6.5, 4.0, -4.0,
        6.0, -6.0, 7.0, -7.0, 0.25, -0.75, 0.1, -0.1, 0.4, -0.4, 0.49999999999999994, -0.49999999999999994,
        1e300, -1e300, 5e-324, -5e-324, 2.0**53, 2.0**53 + 2, -(2.0**52) - 0.5, 4503599627370497.5,
        1e22, 1e23, 123.456, -123.456, 1e-7, 2.0**-1022, 1.7976931348623157e308, 35612.25, 3567.812,
        1e28, 12345678901234567890.0]
F32S = [1.0, -1.0, 2.0, -3.0, 0.5, -0.5, 1.5, -2.5, 6.5, -6.5, 4.0, 7.0, -7.0, 0.25, 16777216.0, 16777215.0,
        -16777214.0, 3.4028234663852886e38, 1.1754943508222875e-38 * 32, 2.0**-120, 1024.5, 8388607.5]
F32_UNSAFE = [1.1, -2.2, 0.1, 16777217.0, 1e-30, 123.456, 3e38]


def gen_int(rng) -> int:
    r = rng.random()
    if r < 0.03:
        return rng.choice(HUGE_INTS)       # beyond the xs:double range: math.isinf / float(int) overflow
    if r < 0.55:
        return rng.choice(INTS)
    if r < 0.85:
        return rng.randint(-1000, 1000)
    return rng.randint(-10**rng.choice([12, 22, 27]), 10**rng.choice([12, 22, 27]))


def gen_dec(rng):
    sc = rng.choice([0, 1, 1, 2, 2, 3, 5, 6])
    r = rng.random()
    if r < 0.45:
        n = rng.choice([5, -5, 15, -15, 25, -25, 35, -35, 45, 65, -65, 75, 125, -125, 250, -250, 0, 1, -1, 10, 995, -995,
                        1005, 1015, 1025, -1025, 49, -51, 50, -50, 150, -150])
    elif r < 0.8:
        n = rng.randint(-100000, 100000)
    else:
        n = rng.randint(-10**rng.choice([9, 13, 20, 27, 29]), 10**rng.choice([9, 13, 20, 27, 29]))
    return ('d', n, sc)


def gen_dbl(rng, tag: str, specials=0.12):
    r = rng.random()
    if r < specials:
        return (tag, rng.choice(SPECIALS))
    if tag == 'F':
        r = rng.random()
        if r < 0.5:
            x = rng.choice(F32S)
        elif r < 0.8:
            x = rng.randint(-4000, 4000) / rng.choice([1, 2, 4, 8, 64])
        elif r < 0.9:
            import struct
            x = struct.unpack('f', struct.pack('f', rng.uniform(-1, 1) * 10 ** rng.randint(-20, 30)))[0]
        else:
            x = rng.choice(F32_UNSAFE)
        if x == 0 or not (1e-36 < abs(x) <= F32_MAX):
            x = 0.5
        return dbl_val(tag, x)
    r = rng.random()
    if r < 0.45:
        x = rng.choice(DBLS)
    elif r < 0.75:
        x = rng.randint(-3000, 3000) / rng.choice([1, 2, 4, 8, 10, 100])
    elif r < 0.9:
        x = rng.uniform(-1, 1) * 10 ** rng.randint(-12, 25)
    else:
        x = math.ldexp(rng.randint(2**52, 2**53 - 1) * rng.choice([1, -1]), rng.randint(-1074, 900))
    if x == 0:
        x = 0.5
    return dbl_val(tag, x)


STR_WS = [' ', '\t', '\n', '\r', '  ', ' \t']
STR_WS_PY = ['\x0b', '\x0c', '\x85', '\u2003', '\x1f', '\u3000']      # white space for Python's \\s only
STR_JUNK = ['', ' ', 'abc', '1 2', '--1', '1.2.3', '.', '-', '+', '-.', 'e5', '1e', '1e+', '0x10', '1_0', 'INF', '-INF',
            '+INF', 'NaN', 'inf', 'nan', 'Infinity', '1,5', '\xa03', '3\xa0', '1e3', '1E2', '1.e2', '+3', '+.5', '-1e-3',
            '1e400', '-1e-400', '٣', '1.5e0', '00', '-0', '-0.0', '0.0', '.0', '0.', '-00012.50']


def gen_str(rng):
    r = rng.random()
    if r < 0.3:
        return ('S', rng.choice(STR_JUNK))
    sign = rng.choice(['', '', '-', '-', '+'] if r < 0.6 else ['', '-'])
    ip = rng.choice(['', '0', '3', '7', '12', '100', '0012', str(rng.randint(0, 10**rng.choice([3, 9, 17, 25])))])
    fp = rng.choice(['', '', '0', '5', '25', '50', '125', '000', str(rng.randint(0, 10**6))])
    dot = '.' if (fp or rng.random() < 0.2) else ''
    if not ip and not fp:
        ip = '1'
    body = sign + ip + dot + fp
    if r < 0.45:
        body += rng.choice(['e', 'E']) + rng.choice(['', '+', '-']) + str(rng.randint(0, 30))
    lead = rng.choice([''] * 4 + STR_WS + (STR_WS_PY if rng.random() < 0.3 else []))
    trail = rng.choice([''] * 4 + STR_WS + (STR_WS_PY if rng.random() < 0.3 else []))
    return ('S', lead + body + trail)


def gen_val(rng, tags='idDF'):
    t = rng.choice(tags)
    if t == 'i':
        return ('i', gen_int(rng))
    if t == 'd':
        return gen_dec(rng)
    if t == 'S':
        return gen_str(rng)
    return gen_dbl(rng, t)


def cast_to(q: Fr, t: str):
    """the exact small rational q as a value of type t (or None when not representable)"""
    if t == 'i':
        return ('i', int(q)) if q.denominator == 1 else None
    if t == 'd':
        for s in range(0, 8):
            if (q * 10**s).denominator == 1:
                return ('d', int(q * 10**s), s)
        return None
    x = q.numerator / q.denominator
    if Fr(x) != q:
        return None
    if q == 0:
        return (t, '0')
    return (t, q)


def gen_related_pair(rng, tags):
    """a = k*b + r for small k, r: exact and inexact quotients with all sign combinations"""
    b = Fr(rng.choice([1, 2, 3, 4, 5, 7, 10, 12, 25]), rng.choice([1, 1, 2, 4, 8])) * rng.choice([1, -1])
    k = rng.choice([0, 1, 2, 3, 5, 6, 10, 100, 12345]) * rng.choice([1, -1])
    r = rng.choice([Fr(0), Fr(0), Fr(1, 2) * abs(b), abs(b) / 4, Fr(1, 8)]) * rng.choice([1, -1])
    a = k * b + r
    for _ in range(8):
        ta, tb = rng.choice(tags), rng.choice(tags)
        va, vb = cast_to(a, ta), cast_to(b, tb)
        if va is not None and vb is not None:
            return va, vb
    return ('i', int(a)), ('i', int(b) or 1)


def gen_case(rng, ver=None):
    ver = ver or rng.choice(['10', '20', '20', '30', '31', '31'])
    style = 1 if rng.random() < 0.25 else 0
    if ver == '10':
        tags = rng.choice(['D', 'D', 'DS', 'S', 'iD', 'id', 'idDS', 'iS', 'dS'])
        ops = ['add', 'sub', 'mul', 'div', 'mod', 'add', 'sub', 'mul', 'div', 'mod', 'neg', 'floor', 'ceiling', 'round1']
    else:
        tags = rng.choice(['idDF', 'id', 'id', 'iD', 'dD', 'D', 'F', 'iF', 'dF', 'DF'])
        ops = BIN * 2 + UN
    op = rng.choice(ops)
    if op == 'round' and ver == '20':
        op = 'round1'
    if op == 'round1' and ver in ('30', '31'):
        op = 'round'
    b = None
    p = None
    if op in BIN:
        if rng.random() < 0.4 and 'S' not in tags:
            a, b = gen_related_pair(rng, tags)
        else:
            a, b = gen_val(rng, tags), gen_val(rng, tags)
            if rng.random() < 0.08:
                b = ('i', 0) if b[0] == 'i' else ('d', 0, rng.choice([0, 1])) if b[0] == 'd' else (b[0], rng.choice(['0', '-0']))
    else:
        a = gen_val(rng, tags)
        if op in ('round', 'rhe'):
            r = rng.random()
            if r < 0.25:
                p = None
            elif r < 0.9:
                p = rng.randint(-3, 3)
            else:
                p = rng.choice([-30, -6, 5, 9, 17, 26, 30, 400, 2100, -2100, 2500, 5000])
    if ver != '10':
        def special(v):
            r = rng.random()
            if r < 0.012:
                return ('E',)
            if r < 0.03:
                return ('d', 0, rng.choice([0, 1, 2]), '-')
            return v
        a = special(a)
        if b is not None:
            b = special(b)
    if ver == '10':
        def fix10(v):
            if v is not None and v[0] == 'i' and abs(v[1]) >= 2**1000:
                return ('i', v[1] % 10**30)
            if v is not None and v[0] == 'd' and len(str(abs(v[1]))) > 28:
                return ('d', v[1] % 10**20, v[2])   # '-x' is the unary minus of a literal: keep it inside the context
            return v
        a, b = fix10(a), fix10(b)
    for v in (a, b):            # literal style only where the literal denotes the same value
        if v is not None and v[0] != 'E' and ((v[0] in 'DF' and not isinstance(v[1], Fr)) or v[0] == 'F'):
            style = 0
        if v is not None and (v[0] == 'E' or (v[0] == 'd' and len(v) == 4)):
            style = 0
        if v is not None and v[0] == 'd' and len(str(abs(v[1]))) > 28:
            style = 0          # unary minus on a literal applies the 28-digit context first
        if v is not None and v[0] != 'E' and ((v[0] == 'i' and v[1] < 0) or (v[0] == 'd' and v[1] < 0) or
                              (v[0] == 'D' and isinstance(v[1], Fr) and v[1] < 0)):
            if op not in BIN:
                style = 0
    return {'v': ver, 'op': op, 'a': a, 'b': b, 'p': p, 'style': style}


def gen_round_boundary(rng):
    """phase 5: fn:round / fn:round-half-to-even on xs:integer / xs:decimal operands around the 28/29-digit boundary of
    Python's default decimal context and the 2000-digit boundary of the local context, with zero / negative precisions
    and precisions up to the operand's scale (driver flag `safe`: theorem roundSafe_excludes_F06p, impl must equal the
    exact spec) and just beyond it."""
    ver = rng.choice(['20', '30', '31', '31'])
    op = 'rhe' if (ver == '20' or rng.random() < 0.4) else 'round'
    nd = rng.choice([27, 28, 28, 29, 29, 29, 30, 31, 40, 1998, 1999, 2000, 2000, 2001])
    tail = rng.choice(['5', '50', '500', '25', '35', '49', '51', '85', '95', '995', '05', '15', '4999', '5001'])
    kind = rng.random()
    if kind < 0.25:
        digits = '9' * (nd - len(tail)) + tail                      # carries into one more digit
    elif kind < 0.35:
        digits = '1' + '0' * (nd - 1 - len(tail)) + tail
    else:
        digits = str(rng.randint(1, 9)) + ''.join(rng.choice('0123456789') for _ in range(nd - 1 - len(tail))) + tail
    n = int(digits) * rng.choice([1, 1, -1])
    if rng.random() < 0.45:
        a = ('i', n)
        p = rng.choice([None, 0, -1, -1, -2, -2, -3, -len(tail), -(nd - 1), -nd, -(nd + 1), 1, 2])
    else:
        sc = rng.choice([0, 1, 1, 2, 3, len(tail), nd - 1, nd + 2])
        a = ('d', n, sc)
        p = rng.choice([None, 0, -1, -2, sc, sc - 1, sc - 2, sc - len(tail), sc + 1, sc + 2, sc - nd, sc - nd - 1])
        if op == 'rhe' and nd > 300 and nd + ((p or 0) - sc) > 1999:
            # inside F06p the round-half-to-even fallback goes through float: Decimal('Infinity') beyond the double
            # range (documented limitation of the value model) -- stay on the exact side for round-half-to-even
            p = sc - (nd - 1999) - rng.choice([0, 1, 2])
    return C(ver, op, a, p=p)


def C(v, op, a, b=None, p=None, style=0):
    return {'v': v, 'op': op, 'a': a, 'b': b, 'p': p, 'style': style}


D = lambda x: dbl_val('D', x)   # noqa
F = lambda x: dbl_val('F', x)   # noqa
CORPUS = [
    # phase 5: 28/29-digit and 2000-digit boundaries, negative precision (flag safe)
    C('31', 'round', ('d', 123456789012345678901234567885, 1), p=0), C('31', 'round', ('d', -123456789012345678901234567885, 1)),
    C('20', 'rhe', ('d', 123456789012345678901234567885, 1), p=0), C('31', 'round', ('i', 123456789012345678901234567850), p=-2),
    C('30', 'round', ('i', -123456789012345678901234567850), p=-2), C('31', 'rhe', ('i', 123456789012345678901234567850), p=-2),
    C('31', 'round', ('d', 99999999999999999999999999995, 1), p=-1), C('31', 'round', ('d', 10**2000 + 25, 1), p=0),
    C('31', 'round', ('d', -(10**2000 + 25), 1), p=0), C('31', 'rhe', ('d', 10**2000 + 35, 1), p=0),
    C('31', 'round', ('d', 10**2000 - 5, 1), p=0), C('31', 'round', ('i', 10**1999 + 25), p=-1),
    C('31', 'round', ('d', 10**1999, 0), p=0), C('31', 'round', ('d', 10**1999, 0), p=1),
    C('20', 'idiv', ('i', -6), ('i', 2), style=1),                  # F06a: was -2
    C('31', 'idiv', ('i', 6), ('i', -2)),
    C('20', 'idiv', ('i', -7), ('i', 2)),
    C('20', 'mod', ('i', 5), ('i', -3), style=1),                   # F06b: was 1
    C('20', 'mod', D(-6.5), ('i', 4), style=1),                     # F06b: was 1.5
    C('20', 'mod', D(1.0), ('i', 0), style=1),                      # F06b: raised FOAR0001
    C('10', 'mod', D(-5.0), D(3.0)),
    C('20', 'mod', D(-4.0), ('i', 2)),                              # -0
    C('20', 'idiv', D(6.0), ('d', -5, 1)),                          # float path of the +1 correction
    C('20', 'idiv', ('i', 0), ('d', 0, 0)),                         # raw InvalidOperation
    C('20', 'idiv', ('d', 7, 3), D(5e-324)),                        # raw OverflowError
    C('20', 'div', D(math.nan), ('i', 0)),                          # was -INF
    C('20', 'div', D(math.nan), D(-0.0)),
    C('20', 'ceiling', D(-0.4)), C('30', 'floor', D(-0.0)),         # sign of zero
    C('31', 'round', ('i', 25), p=-1), C('30', 'round', ('i', -235), p=-1), C('31', 'round', ('d', 125, 0), p=-1),
    C('20', 'round1', D(1e300)), C('31', 'round', D(-1e300), p=1),  # returned an xs:integer
    C('20', 'neg', F(2.5)), C('20', 'pos', F(2.5)),                 # returned xs:double
    C('20', 'add', F(1.1), F(2.2)),                                 # F06c
    C('20', 'mod', F(1.0), F(0.0)), C('20', 'div', F(1.0), ('i', 0)), C('20', 'mod', ('i', 5), D(math.inf)),  # F06t
    C('10', 'mod', D(5.0), D(math.inf)),                            # F06x
    C('31', 'round', ('d', 12345, 1), p=26), C('31', 'round', D(1.5), p=400),   # F06p
    C('20', 'rhe', ('d', 3561225, 2), p=-2), C('20', 'rhe', D(3567.812), p=2), C('20', 'rhe', ('i', 12345), p=-2),
    C('20', 'div', ('i', 1), ('i', 3)), C('20', 'div', ('i', 1), ('i', 0)), C('20', 'div', ('d', 10, 1), ('i', 0)),
    C('20', 'div', D(-1.0), ('i', 0)), C('20', 'div', D(1.0), D(-0.0)), C('20', 'div', D(0.0), ('i', 0)),
    C('20', 'idiv', D(math.inf), ('i', 0)), C('20', 'idiv', D(math.nan), ('i', 0)), C('20', 'idiv', D(1.0), D(0.0)),
    C('20', 'idiv', ('i', 5), D(-math.inf)), C('20', 'mul', D(1e300), D(1e300)), C('20', 'mul', F(1e30), F(1e30)),
    C('20', 'add', ('i', 10**22 + 1), D(1.0)), C('20', 'sub', D(0.1), ('d', 1, 1)), C('20', 'add', D(-0.0), D(-0.0)),
    C('10', 'add', ('S', '3'), ('i', 1)), C('10', 'mul', ('S', '3'), ('S', '4')), C('10', 'div', ('S', ' 3.5 '), ('S', '-.5')),
    C('10', 'add', ('S', 'abc'), ('i', 1)), C('10', 'add', ('S', '1e3'), ('i', 0)), C('10', 'add', ('S', '+3'), ('i', 0)),
    C('10', 'add', ('S', 'INF'), ('i', 1)), C('10', 'mul', ('S', '-0'), ('i', 1)), C('10', 'add', ('S', '\u20033'), ('i', 1)),
    C('10', 'div', ('i', 1), ('i', 3)), C('10', 'add', ('d', 1, 1), ('d', 2, 1)), C('10', 'mod', ('i', 5), ('i', 0)),  # F06v
    C('10', 'div', ('i', 5), ('i', 0)), C('10', 'div', ('i', -5), ('i', 0)), C('10', 'add', ('i', 10**22 + 1), ('i', 0)),
    C('10', 'floor', ('S', '3.7')), C('10', 'round1', ('S', '2.5')), C('10', 'neg', ('S', '3')), C('10', 'floor', ('i', 7)),
    C('10', 'ceiling', ('d', 32, 1)), C('10', 'neg', ('i', 10**22 + 1)),
    C('20', 'div', ('d', 1, 0), ('i', 3)), C('20', 'mul', ('d', 10**21 + 1, 0), ('d', 12345678901, 3)),     # decimal context
    C('20', 'add', ('d', 10**28 + 5, 0), ('d', 5, 1)), C('20', 'sub', ('i', 10**30 + 15), ('d', 5, 1)),
    C('20', 'neg', ('d', 10**28 + 5, 0)), C('20', 'mod', ('d', 10**29 + 7, 0), ('d', 3, 0)),
    C('20', 'idiv', ('i', 10**400), ('i', 3)), C('20', 'idiv', ('i', 10**400), D(2.0)), C('20', 'mod', ('i', 10**400), D(2.0)),
    C('20', 'mod', D(2.0), ('i', 10**400)), C('20', 'floor', ('i', 10**400)), C('20', 'mod', ('d', 15, 1), ('i', 10**400)),
    C('20', 'div', ('i', 10**400), D(0.0)), C('20', 'mod', ('i', 10**400), ('d', 3, 0)), C('20', 'add', ('i', 2**1024), D(1.0)),
    C('20', 'mul', ('i', 0), ('i', 5)), C('31', 'mul', D(0.0), ('i', 5)), C('20', 'mul', D(-1.0), ('i', 0)), C('20', 'mul', ('d', 0, 1), ('d', 25, 1)),
    C('10', 'mul', ('i', 0), ('i', 5)), C('10', 'mul', D(-1.0), D(0.0)), C('20', 'mul', F(0.0), F(-3.0)), C('20', 'sub', ('i', 7), ('i', 7)),
    C('20', 'add', ('E',), ('i', 1)), C('31', 'div', ('d', 25, 1), ('E',)), C('20', 'idiv', ('E',), ('i', 2)), C('20', 'mod', ('E',), ('E',)),
    C('31', 'rhe', ('E',), p=2), C('20', 'neg', ('E',)), C('30', 'round', ('E',), p=1), C('20', 'mul', ('E',), D(2.0)),
    C('20', 'div', D(1.0), ('d', 0, 1, '-')), C('20', 'mul', ('d', 0, 0, '-'), D(1.0)), C('20', 'div', F(1.0), ('d', 0, 2, '-')),
    C('20', 'mod', D(1.0), ('d', 0, 0, '-')), C('20', 'round1', ('d', -4, 1)), C('20', 'mod', ('d', -225, 2), ('d', 75, 2)),
    C('20', 'sub', D(0.0), D(0.0)), C('20', 'mul', D(-0.0), ('i', 5)), C('20', 'mul', ('d', 15, 1), ('i', 2 ** 63 - 1)),
]


# ------------------------------------------------------------------------ correspondence
def parse_answer(ans: str):
    d = dict(kv.split('=', 1) for kv in ans.split(' '))
    flags = [] if d['flags'] == '_' else d['flags'].split(',')
    parse_answer.raw = d.get('mraw', d['model'])
    return d['model'], d['spec'], (None if d.get('specI', '_') == '_' else d['specI']), flags


def ask(run: Run, cases: list) -> list:
    """driver answers for simple cases: list of dicts model/spec/specI/flags/raw (None for a protocol error)"""
    lines = [line_of(c) for c in cases]
    out = []
    for ans in run.driver('C06', lines):
        if ans.startswith('bad-'):
            out.append(None)
            continue
        model, spec, spec_i, flags = parse_answer(ans)
        out.append({'model': model, 'spec': spec, 'specI': spec_i, 'flags': flags, 'raw': parse_answer.raw})
    return out


def judge(run: Run, cj, site: str, impl: str, a: dict, stats: bool, what: str = 'value') -> list:
    """compare one implementation result with one driver answer; returns the finding tags"""
    model, spec, spec_i, flags = a['model'], a['spec'], a['specI'], a['flags']
    st = run.stats
    tags = [f for f in flags if f in FINDING_IDS]
    if 'safe' in flags:
        # theorem roundSafe_excludes_F06p: inside roundSafe the fallback cannot happen, no tag is accepted
        if 'F06p' in flags:
            run.disagree(Disagreement(cj, impl, model, spec, what='safe-and-F06p', site=site))
        tags = []
    if 'F06c' in tags and 'fhyp' in flags and spec_i is not None and impl != spec_i and impl != spec \
            and 'F06p' not in tags:
        # F06c covers the *rounding* of xs:float only: the result must still be the F&O result computed
        # with binary64 rounding + clamp (theorem float_ops_eq_spec_up_to_rounding); otherwise it is a
        # dispatch/type defect and must be reported
        tags.remove('F06c')
        if stats:
            st.count('F06c-tag-refused')
    spec_cmp = None if ('idef' in flags or 'ovf' in flags or 'sterr' in flags) else spec
    if spec_cmp is not None and impl != spec_cmp:
        run.disagree(Disagreement(cj, impl, model, spec, what=what, site=site, tags=tags))
        if tags and impl != model:      # inside a finding region the model must still mirror the code
            run.disagree(Disagreement(cj, impl, model, None, what='model-in-finding-region', site=site))
    elif impl != model:
        run.disagree(Disagreement(cj, impl, model, spec_cmp, what='model' if what == 'value' else what + '/model', site=site))
    return tags


def compare(run: Run, cases: list, stats=True) -> None:
    answers = ask(run, cases)
    st = run.stats
    wrapped = []
    for case, a in zip(cases, answers):
        cj = case_json(case)
        if a is None:
            run.disagree(Disagreement(cj, 'driver:bad', what='protocol'))
            continue
        flags = a['flags']
        h = __import__("zlib").crc32(line_of(case).encode())
        variant = (h % 8) if stats else 0
        variant = variant if variant in (1, 2) else 0
        impl = run_impl(case, variant)
        types = case['a'][0] + (case['b'][0] if case['b'] else '')
        if stats:
            st.count(f'paths:{("evaluate+select", "shared-parser:evaluate+select", "evaluate+select+api.select+iter_select+Selector")[variant]}')
            st.case(cj, nontrivial=True)
            st.count('op:' + case['op'])
            st.count('types:' + types)
            st.count('parser:' + case['v'])
            st.count('result:' + (impl if (impl.startswith(('ERR', 'PATHS', 'SEQ')) or ':' not in impl) else impl.split(':')[0] + (':' + impl.split(':')[1] if impl.split(':')[1] in SPECIALS else '')))
            for f in flags:
                st.count('flag:' + f)
            if case['op'] in ('idiv', 'mod') and case['b'] and not impl.startswith('ERR'):
                def sg(v):
                    x = v[1] if len(v) > 1 else None
                    return '?' if (v[0] in 'SE' or not isinstance(x, (int, Fr))) else '-' if x < 0 else '+' if x > 0 else '0'
                st.count(f"signs:{case['op']}:{sg(case['a'])}{sg(case['b'])}")
        site = f"{case['op']}@{case['v']}:{types}"
        judge(run, cj, site, impl, a, stats)
        zeroish = a['raw'].split(':')[-1] in ('0', '-0', '0/1') or a['raw'] in ('i:0',)
        if stats and (zeroish or h % 4 == 0):
            wrapped.append((case, a))
    if wrapped:
        compare_contexts(run, wrapped)


# ------------------------------------------------------------- operand-position contexts
def operand_of_raw(raw: str):
    """a typed model result as an operand value (None when it is an error / not representable)"""
    if raw.startswith(('ERR', 'SEQ', 'EMPTY')):
        return None
    t, rest = raw.split(':', 1)
    if t == 'i':
        return ('i', int(rest))
    if t == 'd':
        q = Fr(rest)
        for sc in range(0, 420):
            if (q * 10**sc).denominator == 1:
                return ('d', int(q * 10**sc), sc)
        return None
    return (t, rest if rest in SPECIALS else Fr(rest))


CONTEXTS_20 = ['seq', 'for', 'abs', 'add0', 'rdiv', 'neg', 'fnarg', 'pred', 'rdivD', 'mulD']
CONTEXTS_10 = ['add0', 'rdiv', 'neg', 'floor']


def wrap_expr(kind: str, e: str) -> str:
    return {'seq': f'({e}, 1)', 'for': f'for $x in ({e}) return $x', 'abs': f'abs({e})', 'add0': f'({e}) + 0',
            'rdiv': f'1 div ({e})', 'rdivD': f"xs:double('1') div ({e})", 'mulD': f"({e}) * xs:double('-1')",
            'neg': f'-({e})', 'fnarg': f'round-half-to-even({e}, 1)',
            'pred': f'(7, 8)[{e} = {e} or true()]', 'floor': f'floor({e})'}[kind]


def compare_contexts(run: Run, wrapped: list) -> None:
    """the same operator expression as an operand of another operator, as a function argument, inside a
    sequence constructor and a `for`: the result of the inner expression must reach the outer one unchanged
    (zero, negative zero and error results included).  Expected = the model/spec of the outer operation on
    the inner *model* result (second driver pass)."""
    st = run.stats
    jobs = []
    for case, a in wrapped:
        if case['v'] == '10' and a['raw'] == 'd:0/1':
            continue            # Decimal('-0.00') keeps a sign the value model does not carry (see docs: decimal -0)
        kinds = CONTEXTS_10 if case['v'] == '10' else CONTEXTS_20
        h = __import__("zlib").crc32(('ctx' + line_of(case)).encode())
        huge = len(a['raw']) > 300     # beyond the double range: the F06p fallback of round-half-to-even goes
        for kind in {kinds[h % len(kinds)], kinds[(h // 7 + 1) % len(kinds)]}:   # through float -> Decimal('Infinity')
            if not (huge and kind == 'fnarg'):
                jobs.append((case, a, kind))
    outer_cases, idx = [], {}
    for n, (case, a, kind) in enumerate(jobs):
        r = operand_of_raw(a['raw'])
        if r is None:
            continue
        v = case['v']
        oc = {'abs': C(v, 'abs', r), 'add0': C(v, 'add', r, ('i', 0)), 'rdiv': C(v, 'div', ('i', 1), r),
              'rdivD': C(v, 'div', ('D', Fr(1)), r), 'mulD': C(v, 'mul', r, ('D', Fr(-1))),
              'neg': C(v, 'neg', r), 'fnarg': C(v, 'rhe', r, p=1), 'floor': C(v, 'floor', r)}.get(kind)
        if oc is not None:
            idx[n] = len(outer_cases)
            outer_cases.append(oc)
    outer_answers = ask(run, outer_cases) if outer_cases else []
    for n, (case, a, kind) in enumerate(jobs):
        inner = expr_of(case)
        expr = wrap_expr(kind, inner)
        impl = conv_ver(eval_paths(expr, case['v'], api=(n % 5 == 0)), case['v'])
        cj = dict(case_json(case), context=kind, expr=expr)
        site = f"context:{kind}@{case['v']}"
        st.count('context:' + kind)
        inner_tagged = any(f in FINDING_IDS or f in ('idef', 'ovf') for f in a['flags'])
        if a['model'].startswith('ERR'):
            if kind == 'pred':
                continue        # an error inside a predicate comparison is reported with another code
            exp = {'model': a['model'], 'spec': a['spec'], 'specI': None, 'flags': list(a['flags']), 'raw': a['raw']}
        elif a['model'] == 'EMPTY':
            if kind == 'pred':
                continue
            one = 'i:1' if kind == 'seq' else 'EMPTY'      # the empty sequence vanishes from (E, 1) and propagates elsewhere
            exp = {'model': one, 'spec': one, 'specI': None, 'flags': [], 'raw': ''}
        elif kind == 'seq':
            one = 'N:1/1' if case['v'] == '10' else 'i:1'
            exp = {'model': f"SEQ[{a['model']},{one}]", 'spec': f"SEQ[{a['spec']},{one}]", 'specI': None,
                   'flags': list(a['flags']), 'raw': ''}
        elif kind == 'for':
            exp = dict(a, specI=None)
        elif kind == 'pred':
            exp = {'model': 'SEQ[i:7,i:8]', 'spec': 'SEQ[i:7,i:8]', 'specI': None, 'flags': [], 'raw': ''}
            if a['model'].endswith('NaN'):
                pass        # NaN = NaN is false, `or true()` keeps both items
        elif n in idx and outer_answers[idx[n]] is not None:
            exp = dict(outer_answers[idx[n]])
            exp['specI'] = None
            if inner_tagged or a['model'] != a['spec']:
                # the inner result is inside a finding / implementation-defined region: only the tie is checked
                exp['flags'] = exp['flags'] + ['idef']
        else:
            continue
        judge(run, cj, site, impl, exp, True, what='operand-context')


# ------------------------------------------------------------------ call-site reuse
def gen_reuse(rng) -> dict:
    """one call site evaluated several times with *different* arguments: `for` over operand lists, the simple
    map operator, a function item called repeatedly, one parsed token re-evaluated with other variables.
    The model is a pure function (theorem call_site_reuse_eq_map), so the expected list is the list of the
    single-call results."""
    form = rng.choice(['for2', 'for2', 'forp', 'forx', 'map', 'fnitem', 'vars', 'vars', 'varsp'])
    if form in ('map', 'fnitem'):
        ver = rng.choice(['30', '31'])
    elif form in ('vars', 'varsp'):
        ver = rng.choice(['10', '20', '30', '31'])
    else:
        ver = rng.choice(['20', '30', '31'])
    tags = 'D' if ver == '10' else rng.choice(['idDF', 'id', 'iD', 'dD', 'D', 'iF', 'i', 'd'])

    def val():
        v = gen_val(rng, tags)
        if rng.random() < 0.25:     # zeros of every kind are prominent
            t = v[0]
            v = ('i', 0) if t == 'i' else ('d', 0, rng.choice([0, 1])) if t == 'd' else (t, rng.choice(['0', '-0']))
        if v[0] == 'i' and abs(v[1]) >= 2**1000:
            v = ('i', v[1] % 10**25)
        return v

    def precs(k):
        return [rng.choice([0, 1, 2, 3, -1, -2, -3, 5]) for _ in range(k)]
    g = {'form': form, 'v': ver, 'variables': None}
    if form == 'for2' or form == 'vars':
        ops = ['add', 'sub', 'mul', 'div', 'mod'] if ver == '10' else BIN
        op = rng.choice(ops)
        As, Bs = [val() for _ in range(3)], [val() for _ in range(2)]
        if form == 'for2':
            g['elems'] = [C(ver, op, a, b) for a in As for b in Bs]
            g['expr'] = (f"for $a in ({', '.join(lit(a, ver, 0) for a in As)}), $b in ({', '.join(lit(b, ver, 0) for b in Bs)}) "
                         f"return $a {SYM[op]} $b")
        else:
            pairs = [(a, b) for a in As for b in Bs][:4]
            g['elems'] = [C(ver, op, a, b) for a, b in pairs]
            g['expr'] = f'$a {SYM[op]} $b'
            g['variables'] = [{'a': lit(a, ver, 0), 'b': lit(b, ver, 0)} for a, b in pairs]
    elif form in ('forp', 'varsp', 'fnitem') or (form == 'map' and rng.random() < 0.5):
        fn = 'rhe' if (ver in ('10', '20') or rng.random() < 0.4) else 'round'
        if ver == '10':          # no precision argument in 1.0: vary the operand instead
            Xs = [val() for _ in range(3)]
            op = rng.choice(['floor', 'ceiling', 'round1', 'neg'])
            g['elems'] = [C(ver, op, x) for x in Xs]
            g['expr'] = '-($x)' if op == 'neg' else f'{FN[op]}($x)'
            g['variables'] = [{'x': lit(x, ver, 0)} for x in Xs]
            g['form'] = 'vars'
        else:
            X, ps = val(), precs(3)
            g['elems'] = [C(ver, fn, X, p=p) for p in ps]
            name = FN[fn]
            if form == 'forp':
                g['expr'] = f"for $p in ({', '.join(map(str, ps))}) return {name}({lit(X, ver, 0)}, $p)"
            elif form == 'map':
                g['expr'] = f"({', '.join(map(str, ps))}) ! {name}({lit(X, ver, 0)}, .)"
            elif form == 'fnitem':
                g['expr'] = (f"let $f := {name}#2 return (" + ', '.join(f'$f({lit(X, ver, 0)}, {p})' for p in ps) + ')')
            else:
                g['expr'] = f'{name}($x, $p)'
                g['variables'] = [{'x': lit(X, ver, 0), 'p': str(p)} for p in ps]
    else:                       # forx / map over the operand
        op = rng.choice(['neg', 'abs', 'floor', 'ceiling', 'rhe', 'round1' if ver == '20' else 'round'])
        Xs = [val() for _ in range(3)]
        p = rng.choice([None, 1, -1]) if op in ('rhe', 'round') else None
        g['elems'] = [C(ver, op, x, p=p) for x in Xs]
        call = (lambda arg: f'-({arg})') if op == 'neg' else \
            (lambda arg: f'{FN[op]}({arg})' if p is None else f'{FN[op]}({arg}, {p})')
        lst = ', '.join(lit(x, ver, 0) for x in Xs)
        g['expr'] = f'for $x in ({lst}) return {call("$x")}' if form != 'map' else f'({lst}) ! {call(".")}'
    return g


def compare_reuse(run: Run, groups: list) -> None:
    st = run.stats
    flat = [c for g in groups for c in g['elems']]
    answers = ask(run, flat)
    k = 0
    for g in groups:
        ans = answers[k:k + len(g['elems'])]
        k += len(g['elems'])
        if any(a is None for a in ans):
            continue
        ver = g['v']
        st.count('reuse:' + g['form'])
        st.evaluations += 1
        gj = {'v': ver, 'form': g['form'], 'expr': g['expr'], 'elems': [case_json(c) for c in g['elems']]}
        site = f"reuse:{g['form']}@{ver}"
        if g['variables'] is not None:
            # one parsed token, evaluated once per binding (values built by evaluating the operand literals)
            import elementpath
            cls = parser_of(ver)
            try:
                token = cls().parse(g['expr'])
            except Exception as e:  # noqa
                run.disagree(Disagreement(gj, 'ERR:parse:' + type(e).__name__, what='reuse-parse', site=site))
                continue
            for n, (binding, a) in enumerate(zip(g['variables'], ans)):
                values = {name: elementpath.select(None, src, parser=cls, item=1) for name, src in binding.items()}
                paths = {'evaluate': guarded(lambda: token.evaluate(elementpath.XPathContext(root=None, item=1, variables=dict(values)))),
                         'select': guarded(lambda: list(token.select(elementpath.XPathContext(root=None, item=1, variables=dict(values)))))}
                vals = set(paths.values())
                impl = vals.pop() if len(vals) == 1 else 'PATHS{' + ' '.join(f'{p}={v}' for p, v in paths.items()) + '}'
                judge(run, dict(gj, evaluation=n, binding=binding), site, conv_ver(impl, ver), a, True, what='call-site-reuse')
            continue
        impl = conv_ver(eval_paths(g['expr'], ver, api=(k % 3 == 0)), ver)

        def seq(key):
            items = [a[key] for a in ans]
            errs = [x for x in items if x.startswith('ERR')]
            return errs[0] if errs else 'SEQ[' + ','.join(items) + ']'
        flags = sorted({f for a in ans for f in a['flags']})
        exp = {'model': seq('model'), 'spec': seq('spec'), 'specI': None, 'flags': [f for f in flags if f not in ('fhyp', 'safe')], 'raw': ''}
        before = len(run.disagreements)
        judge(run, gj, site, impl, exp, True, what='call-site-reuse')
        if len(run.disagreements) > before and impl.startswith('SEQ[') and exp['model'].startswith('SEQ['):
            # point at the first evaluation that differs
            got, want = impl[4:-1].split(','), exp['model'][4:-1].split(',')
            for n, (x, y) in enumerate(zip(got, want)):
                if x != y:
                    run.disagreements[-1].case = dict(gj, first_differing_evaluation=n, got=x, expected_model=y)
                    break


def grid_cases(vers=('20', '31'), small=False):
    """exhaustive small grid: small values of every type, the specials, every operator"""
    qs = [Fr(n, d) for d in (1, 2, 4) for n in range(-7 * d, 7 * d + 1) if small is False or d <= 2]
    qs = sorted(set(qs))
    vals = []
    for q in qs:
        for t in 'idDF':
            v = cast_to(q, t)
            if v is not None and v not in vals:
                vals.append(v)
    for t in 'DF':
        for s in ('NaN', 'INF', '-INF', '-0'):
            vals.append((t, s))
    vals.append(('d', 0, 0))
    cases = []
    for ver in vers:
        for a in vals:
            for op in ('neg', 'pos', 'abs', 'floor', 'ceiling', 'rhe') + (('round1',) if ver == '20' else ('round',)):
                ps = [None] if op not in ('round', 'rhe') else [None, 0, 1, -1]
                for p in ps:
                    cases.append(C(ver, op, a, p=p))
        bs = [v for v in vals if (v[0] == 'i' and abs(v[1]) <= 3) or (v[0] == 'd' and v[2] <= 1 and abs(v[1]) <= 25)
              or (v[0] in 'DF' and (not isinstance(v[1], Fr) or (v[1].denominator <= 2 and abs(v[1]) <= 3)))]
        for a in vals:
            for b in bs:
                for op in BIN:
                    cases.append(C(ver, op, a, b))
    v10vals = [('i', n) for n in range(-3, 4)] + [('d', n, 1) for n in (-15, -5, 0, 5, 15, 25)] + \
              [('S', t) for t in ('3', '-2', ' 1.5 ', '.5', '-.5', '0', '-0', 'abc', '', '1e1', '+2', 'INF', 'NaN', '2.')] + \
              [('D', Fr(n, 2)) for n in (-3, -1, 1, 4)] + [('D', 'INF'), ('D', '-0'), ('D', 'NaN')]
    for a in v10vals:
        for op in ('neg', 'floor', 'ceiling', 'round1'):
            cases.append(C('10', op, a))
        for b in v10vals:
            for op in ('add', 'sub', 'mul', 'div', 'mod'):
                cases.append(C('10', op, a, b))
    dvals = [v for v in vals if v[0] == 'D']
    for a in dvals:
        for op in ('neg', 'floor', 'ceiling', 'round1'):
            cases.append(C('10', op, a))
        for b in dvals:
            if not isinstance(b[1], Fr) or (b[1].denominator <= 2 and abs(b[1]) <= 3):
                for op in ('add', 'sub', 'mul', 'div', 'mod'):
                    cases.append(C('10', op, a, b))
    return cases


def correspond(run: Run) -> None:
    rng = run.rng
    n = run.scale(24000, 400000)
    cases = list(CORPUS)
    corpus_file = Path(__file__).resolve().parent.parent / 'corpus' / 'C06' / 'seeds.jsonl'
    if corpus_file.exists():
        for ln in corpus_file.read_text().splitlines():
            if ln.strip():
                cases.append(case_of_json(json.loads(ln)))
    grid = grid_cases(small=True)
    if run.quick:
        grid = rng.sample(grid, min(len(grid), 4000))
    cases += grid
    cases += [gen_case(rng) for _ in range(n)]
    cases += [gen_round_boundary(rng) for _ in range(run.scale(700, 12000))]
    run.stats.rule = (
        'one evaluation = one XPath expression `A op B` / `f(A[, precision])` through elementpath.select(None, expr, '
        'parser, item=1); A, B drawn from xs:integer {0,±1..±7, small, 10^k±1, 2^63±1, up to 10^30}, xs:decimal '
        '(coefficient x scale 0..6, ties ..5, up to 29 digits), xs:double (±0, INF, NaN, halves, 2^53 region, subnormal, '
        'huge, random mantissas), xs:float (binary32 values and a few non-binary32 ones), related pairs a = k*b + r with '
        'all sign combinations; operators + - * div idiv mod, unary - +, abs floor ceiling round round-half-to-even with '
        'precision -3..3 and a few large ones; round / round-half-to-even on 27..31-digit and 1998..2001-digit integer / decimal '
        'coefficients (ties, all-nines carries) with zero / negative precisions and precisions around the scale (flag safe); parsers 1.0 (doubles via number()), 2.0, 3.0, 3.1; constructor and literal '
        'syntax; plus the seed corpus and (a sample of) the exhaustive small grid. distinct = distinct request lines')
    for i in range(0, len(cases), 5000):
        compare(run, cases[i:i + 5000])
    groups = [gen_reuse(rng) for _ in range(run.scale(2500, 40000))] + list(REUSE_CORPUS)
    for i in range(0, len(groups), 2000):
        compare_reuse(run, groups[i:i + 2000])
    run.log(f'correspondence done: {len(cases)} cases, {len(groups)} call-site-reuse groups')


REUSE_CORPUS = [
    {'form': 'forp', 'v': '31', 'variables': None, 'expr': "for $p in (0, 2, -2) return round(xs:decimal('1234.5678'), $p)",
     'elems': [C('31', 'round', ('d', 12345678, 4), p=p) for p in (0, 2, -2)]},
    {'form': 'map', 'v': '31', 'variables': None, 'expr': "(2, 0, -2) ! round(xs:decimal('1234.5678'), .)",
     'elems': [C('31', 'round', ('d', 12345678, 4), p=p) for p in (2, 0, -2)]},
    {'form': 'fnitem', 'v': '30', 'variables': None,
     'expr': "let $f := round#2 return ($f(xs:decimal('1234.5678'), 0), $f(xs:decimal('1234.5678'), 2), $f(xs:decimal('1234.5678'), -2))",
     'elems': [C('30', 'round', ('d', 12345678, 4), p=p) for p in (0, 2, -2)]},
    {'form': 'varsp', 'v': '31', 'expr': 'round($x, $p)',
     'variables': [{'x': "xs:decimal('1234.5678')", 'p': str(p)} for p in (0, 2, -2)],
     'elems': [C('31', 'round', ('d', 12345678, 4), p=p) for p in (0, 2, -2)]},
    {'form': 'for2', 'v': '20', 'variables': None,
     'expr': "for $a in (xs:integer('0'), xs:integer('-7'), xs:double('-0')), $b in (xs:integer('5'), xs:double('0')) return $a * $b",
     'elems': [C('20', 'mul', a, b) for a in (('i', 0), ('i', -7), ('D', '-0')) for b in (('i', 5), ('D', '0'))]},
]
EMPTY_EXPECT = [("() + 1", 'EMPTY'), ("1 + ()", 'EMPTY'), ("() - 2.5", 'EMPTY'), ("() * 2e0", 'EMPTY'), ("2 div ()", 'EMPTY'),
                ("() mod 2", 'EMPTY'), ("5 mod ()", 'EMPTY'), ("-()", 'EMPTY'), ("+()", 'EMPTY'), ("abs(())", 'EMPTY'),
                ("round(())", 'EMPTY'), ("floor(())", 'EMPTY'), ("ceiling(())", 'EMPTY'),
                ("round-half-to-even((), 2)", 'EMPTY'),
                # F&O: empty; the code raises the static-typing error XPST0005, which XPath permits for an
                # expression whose static type is empty-sequence() (pinned by the repository's tests)
                ("() idiv 2", 'ERR:XPST0005'), ("2 idiv ()", 'ERR:XPST0005')]


# ------------------------------------------------------------------ two-step histories
H400 = '1' + '0' * 400
HISTORY_POOL = [
    # (parser versions, expression): every rounding / exception path of the anchored functions, including
    # precisions beyond the 2000-digit local context (F06p fallback) and the overflow paths
    (('30', '31'), "round(1.25, 2500)"), (('30', '31'), "round(xs:decimal('1.25'), -2500)"),
    (('30', '31'), "round(1.5e0, 2500)"), (('30', '31'), "round(xs:float('2.5'), 3000)"),
    (('30', '31'), "round(-0.5e0, 2200)"), (('30', '31'), "round(12345, 2100)"), (('30', '31'), "round(12345, -2100)"),
    (('30', '31'), "round(1.25, 5)"), (('30', '31'), "round(1e300, 2)"), (('30', '31'), "round(xs:double('NaN'), 2500)"),
    (('20', '31'), "round-half-to-even(2.345, 5000)"), (('20', '31'), "round-half-to-even(2.5e0, 5000)"),
    (('20', '31'), "round-half-to-even(12345, -3000)"), (('20', '31'), "round-half-to-even(xs:float('2.5'), 2500)"),
    (('20', '31'), "round-half-to-even(1e300, -2)"), (('20', '31'), "round-half-to-even(2.345, 2)"),
    (('20', '31'), "round-half-to-even(xs:decimal('-2.345'), -5000)"),
    (('10', '20'), "round(2.5)"), (('20',), "round(12345678901234567890123456789012345.5)"), (('10', '20'), "round(number('2.5'))"),
    (('20', '31'), "round(1e300)"), (('20', '31'), "floor(2.5)"), (('20', '31'), "ceiling(-2.5e0)"),
    (('20', '31'), "abs(xs:decimal('-1.5'))"), (('20', '31'), "1 div 3"), (('20', '31'), "1 div 0"),
    (('20', '31'), "1.5 mod 0"), (('20', '31'), "1.5 idiv 0.0"), (('20', '31'), f"xs:integer('{H400}') idiv 2e0"),
    (('20', '31'), f"xs:integer('{H400}') mod xs:decimal('3')"), (('20', '31'), f"xs:integer('{H400}') idiv xs:decimal('0.5')"),
    (('20', '31'), f"xs:integer('{H400}') * 1.5"), (('20', '31'), f"floor(xs:integer('{H400}'))"),
    (('20', '31'), "xs:decimal('12345678901234567890.123') * xs:decimal('98765432109876.54321')"),
    (('20', '31'), "1e300 * 1e300"), (('20', '31'), "xs:float('1e38') * 10"), (('20', '31'), "round('abc')"),
    (('20', '31'), "round-half-to-even('abc', 2)"), (('30', '31'), "round(1.5, 99999999999)"),
    (('20', '31'), "round-half-to-even(4.8712122, 8328782878)"),
    (('10',), "round('2.5')"), (('10',), "5 mod 0"), (('10',), "1 div 3"), (('10',), "floor('abc')"),
]


def history_probes(ver: str) -> list:
    """decimal divisions / mods / products whose result depends on the thread's decimal context"""
    return [C(ver, 'div', ('i', 1), ('i', 3)), C(ver, 'div', ('d', 100, 1), ('i', 7)), C(ver, 'div', ('i', 2), ('d', 30, 1)),
            C(ver, 'mod', ('d', 3333333333333333333333333333, 28), ('d', 1, 1)),
            C(ver, 'mul', ('d', 12345678901234567890123, 3), ('d', 9876543210987654321, 5)),
            C(ver, 'add', ('d', 10**28 + 5, 0), ('d', 5, 1)), C(ver, 'div', ('d', -1, 0), ('d', 7, 0)),
            C(ver, 'neg', ('d', 10**29 + 7, 0)), C(ver, 'div', ('i', 10**30), ('i', 7))]


def check_histories(run: Run) -> None:
    """two-step histories: an expression of the pool is evaluated first, then the probes — their results must
    be the single-expression model results whatever was evaluated before (arithmetic must not depend on the
    history: process-wide decimal context, caches on shared parsers)"""
    import decimal
    st = run.stats
    probe_answers = {v: ask(run, history_probes(v)) for v in ('10', '20', '31')}
    base_prec = decimal.getcontext().prec
    for vers, first in HISTORY_POOL:
        for ver in vers:
            before = (decimal.getcontext().prec, decimal.getcontext().rounding)
            first_result = eval_paths(first, ver, shared=True)
            after = (decimal.getcontext().prec, decimal.getcontext().rounding)
            pv = ver if ver in probe_answers else '31'
            for case, a in zip(history_probes(pv), probe_answers[pv]):
                if a is None:
                    continue
                st.count('history-probe')
                st.evaluations += 1
                impl = run_impl(case, 1)
                cj = dict(case_json(case), history=[first], history_parser=ver, history_result=first_result[:80],
                          decimal_context_before=list(before), decimal_context_after=list(after))
                judge(run, cj, f"history@{ver}", impl, a, True, what='history')
            if after != before:
                run.disagree(Disagreement({'v': ver, 'expr': first, 'history': [first],
                                           'decimal_context_before': list(before), 'decimal_context_after': list(after)},
                                          impl=f'context:{after}', model=None, spec=f'context:{before}',
                                          what='decimal-context-leak', site=f'history@{ver}'))
                decimal.getcontext().prec = base_prec      # keep the rest of the run meaningful
                decimal.getcontext().rounding = before[1]


def check_empty(run: Run) -> None:
    """F&O 4.2: an empty-sequence operand gives the empty sequence (not modelled in Lean: fixed expectations)"""
    import elementpath
    for ver in ('20', '30', '31'):
        for expr, want in EMPTY_EXPECT:
            got = eval_paths(expr, ver, api=True)
            run.stats.count('empty-operand')
            if got != want:
                run.disagree(Disagreement({'v': ver, 'expr': expr}, got, None, want, what='empty-operand', site=expr))


def search(run: Run):
    """exhaustive small grid against the driver's spec, all parsers"""
    sub = Run(PROP, run.tier, run.seed)
    cases = list(CORPUS) + grid_cases(vers=('20', '30', '31'))
    for i in range(0, len(cases), 5000):
        compare(sub, cases[i:i + 5000], stats=False)
    run.notes.append(f'search: {len(cases)} grid cases, {len(sub.disagreements)} disagreements')
    return sub.disagreements


# ---------------------------------------------------------------------------- shrinking
def simpler(val):
    if val is None:
        return []
    t = val[0]
    out = []
    if t == 'S':
        x = val[1]
        return [('S', c) for c in (x.strip(), x[:-1], x[1:], '1', '1e0', '+1') if c != x and len(c) <= len(x)]
    if t == 'i':
        n = val[1]
        out = [('i', k) for k in (0, 1, -1, 2, -2, 3, -3, 5, -5, 6, -6, 7, n // 2, n // 10, -n) if abs(k) < abs(n) or (k == -n and n < 0)]
    elif t == 'd':
        n, s = val[1], val[2]
        out = [('d', k, s) for k in (0, 5, -5, 15, -15, 25, n // 2, n // 10) if abs(k) < abs(n)]
        if s > 0:
            out += [('d', n, s - 1), ('d', n // 10, s - 1)]
    else:
        x = val[1]
        if isinstance(x, Fr):
            for k in (0.5, -0.5, 1.0, -1.0, 1.5, -1.5, 2.0, 2.5, -2.5, 3.0, 6.5, -6.5, float(math.trunc(x)), to_float(x) / 2):
                if k != 0 and abs(k) < abs(x):
                    out.append(dbl_val(t, k))
    return out


def still_fails(run: Run, case, want_tags) -> bool:
    sub = Run(PROP, 'quick', 0)
    try:
        compare(sub, [case], stats=False)
    except Exception:
        return False
    return any(d.kind == 'violation' and set(d.tags) == set(want_tags) for d in sub.disagreements)


def make_shrink(run: Run):
    def shrink(d: Disagreement) -> Disagreement:
        if any(k in d.case for k in ('history', 'context', 'form', 'elems')):
            return d            # a history / context / call-site-reuse input: reported as generated
        try:
            case = case_of_json(d.case)
        except Exception:
            return d
        budget = 60
        changed = True
        while changed and budget > 0:
            changed = False
            for key in ('a', 'b'):
                for cand in simpler(case[key]):
                    budget -= 1
                    c2 = dict(case, **{key: cand})
                    if still_fails(run, c2, d.tags):
                        case, changed = c2, True
                        break
                if budget <= 0:
                    break
            if case['p'] not in (None, 0, 1, -1) and budget > 0:
                for cand in (0, 1, -1):
                    budget -= 1
                    c2 = dict(case, p=cand)
                    if still_fails(run, c2, d.tags):
                        case, changed = c2, True
                        break
        sub = Run(PROP, 'quick', 0)
        compare(sub, [case], stats=False)
        for x in sub.disagreements:
            if x.kind == 'violation':
                return x
        return d
    return shrink


# ---------------------------------------------------------------------------------- body
def body(run: Run) -> int:
    run.trusted_base += [
        'IEEE-754 binary64 rounding of + - * / and of float(int) / float(Decimal) (parameter `R` of the theorems; the '
        'driver executes a Lean round-to-nearest-even and the check compares the real results with it exactly)',
        'math.fmod is the exact truncating remainder; fractions.Fraction arithmetic is exact',
        'decimal module with the default context (28 digits, ROUND_HALF_EVEN): modelled as scaled-integer arithmetic + ctx28',
        'EPV/Spec/FOArith.lean is our reading of F&O 3.1 sections 4.2 and 4.4 and of XPath 3.1 B.1/B.2',
        'float(repr(x)) == x for the operand literals; Fraction(float) exact',
    ]
    run.assumptions += [
        'the model mirrors the tree with the fix: commits of branches fix-c06, fix-c06-2, fix-c06-3 applied',
        'decimal results with more than 28 significant digits are implementation-defined (flag idef): compared with the model only',
        'XPath 1.0: operands are doubles built with number(); integer/decimal literals of the 1.0 parser are not covered',
        'xs:decimal negative zero and integers beyond 1e300 are not generated',
    ]
    if getattr(run, 'replay', None):
        payload = json.loads(Path(run.replay).read_text())
        fi = payload.get('failing_input')
        if not fi:
            print('replay file carries no failing input')
            return 2
        case = case_of_json(fi['case'])
        compare(run, [case])
        for d in run.disagreements:
            print(json.dumps(d.to_json(), default=str))
        return run.finish('proof')
    run.prove(['EPV.Props.C06', 'EPV.Props.C06Round'], ['EPV.Spec.FOArith', 'EPV.Model.Arith', 'EPV.Model.ArithRoundSafe'])
    try:
        check_empty(run)
        check_histories(run)
        correspond(run)
    except DriverError as e:
        run.broken.append('driver:C06 ' + str(e)[:300])
    return run.finish('proof', shrink=make_shrink(run), search=search)


if __name__ == '__main__':
    cli(PROP, body)

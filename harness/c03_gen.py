"""
C03 — input generators for the malformed/ill-typed exploration stream and for parse histories.
(helper module of harness/c03.py; all randomness comes from the `rng` that is passed in)
"""
from __future__ import annotations

VERSIONS = ['1.0', '2.0', '3.0', '3.1']

# ------------------------------------------------------------------------------ documents
DOC_XML = ('<a xmlns:p="http://p" id="r" xml:lang="en"><b n="1">1</b><b n="2">two</b><!--c--><?pi d?>'
           '<c x="2" p:y="z">t<d/>u</c><p:e>3.5</p:e><f>2001-01-01</f></a>')

NAMESPACES = {'p': 'http://p', 'xs': 'http://www.w3.org/2001/XMLSchema',
              'fn': 'http://www.w3.org/2005/xpath-functions',
              'math': 'http://www.w3.org/2005/xpath-functions/math',
              'map': 'http://www.w3.org/2005/xpath-functions/map',
              'array': 'http://www.w3.org/2005/xpath-functions/array'}

CTX_KINDS = ['doc', 'elem', 'attr', 'atom', 'noroot', 'lxml']

# ------------------------------------------------------------------------- value pool
# (minimum version, expression text) — operands of every type, used for ill-typed evaluations
POOL = [
    ('1.0', "'abc'"), ('1.0', "''"), ('1.0', "'1'"), ('1.0', "'2001-01-01'"), ('1.0', "'\\p{'"),
    ('1.0', "'['"), ('1.0', "'(a'"), ('1.0', "'a*'"), ('1.0', "'xyz'"), ('1.0', "' '"),
    ('1.0', "'\u00e9\U0001F600'"), ('1.0', "'-'"), ('1.0', "'1e400'"), ('1.0', "'NaN'"),
    ('1.0', '1'), ('1.0', '0'), ('1.0', '-1'), ('1.0', '1.5'), ('1.0', '2'), ('1.0', '3'),
    ('1.0', '1e0'), ('1.0', '1e308 * 10'), ('1.0', '0 div 0'), ('1.0', '-1 div 0'),
    ('1.0', '99999999999999999999'), ('1.0', '-99999999999999999999'), ('1.0', '0.0000001'),
    ('1.0', '2147483648'), ('1.0', '1 div 3'),
    ('1.0', '.'), ('1.0', '/'), ('1.0', '/a/b'), ('1.0', '/a/c/@x'), ('1.0', '//text()'), ('1.0', '/a/*'),
    ('1.0', '//@*'), ('1.0', '/a/nothing'), ('1.0', '//comment()'), ('1.0', '//processing-instruction()'),
    ('1.0', '/a/namespace::*'), ('1.0', '..'), ('1.0', 'true()'), ('1.0', 'false()'),
    ('1.0', '$s'), ('1.0', '$n'), ('1.0', '$d'), ('1.0', '$node'), ('1.0', '$b'), ('1.0', '$undefined'),
    ('2.0', '()'), ('2.0', '(1, 2)'), ("2.0", "('a', 'b')"), ('2.0', "(1, 'a')"), ('2.0', '(/a, 1)'),
    ('2.0', '1 to 3'), ('2.0', '$seq'), ('2.0', '$e'), ('2.0', '$u'), ('2.0', '$dt'), ('2.0', '$q'),
    ('2.0', "xs:double('NaN')"), ('2.0', "xs:double('INF')"), ('2.0', "xs:double('-INF')"),
    ('2.0', "xs:float('1')"), ('2.0', "xs:float('NaN')"), ('2.0', 'xs:integer(3)'), ('2.0', 'xs:unsignedByte(3)'),
    ('2.0', "xs:decimal('1.10')"), ('2.0', "xs:date('2001-01-01')"), ('2.0', "xs:date('-0001-12-31Z')"),
    ('2.0', "xs:dateTime('2001-01-01T10:00:00+14:00')"), ('2.0', "xs:dateTime('9999-12-31T23:59:59')"),
    ('2.0', "xs:time('24:00:00')"), ('2.0', "xs:duration('P1Y2M3DT4H')"), ('2.0', "xs:duration('-P1Y')"),
    ('2.0', "xs:dayTimeDuration('PT1S')"), ('2.0', "xs:dayTimeDuration('P99999999999D')"),
    ('2.0', "xs:yearMonthDuration('P1M')"), ('2.0', "xs:yearMonthDuration('P99999999999Y')"),
    ('2.0', "xs:QName('p:a')"), ('2.0', "xs:QName('a')"), ('2.0', "xs:anyURI('http://x/y z')"),
    ('2.0', "xs:untypedAtomic('5')"), ('2.0', "xs:untypedAtomic('x')"), ('2.0', "xs:hexBinary('0F')"),
    ('2.0', "xs:base64Binary('aGVsbG8=')"), ('2.0', "xs:gYear('2001')"), ('2.0', "xs:gMonthDay('--02-29')"),
    ('2.0', "xs:boolean('1')"), ('2.0', "xs:string('s')"), ('2.0', "xs:NCName('n')"), ('2.0', "xs:language('en')"),
    ('2.0', "xs:int('2147483648')"), ('2.0', "xs:date('2001-02-30')"), ('2.0', "xs:dateTime('x')"),
    ('3.0', 'abs#1'), ('3.0', 'function($x) { $x }'), ('3.0', 'concat#3'), ('3.0', 'function() { 1 }'),
    ('3.0', 'function($x, $y) { $x + $y }'), ('3.0', 'fn:nothing#1'), ('3.0', 'string#0'), ('3.0', '$fn1'),
    ('3.0', 'function($x as xs:integer) as xs:string { $x }'), ('3.0', 'position#0'),
    ('3.1', 'map{}'), ('3.1', "map{'a': 1}"), ('3.1', "map{1: 'x', 'k': (1, 2)}"), ('3.1', '[1, 2]'),
    ('3.1', '[]'), ('3.1', 'array{}'), ('3.1', '[(1, 2), []]'), ('3.1', '$map1'), ('3.1', '$arr1'),
    ('3.1', "map{xs:double('NaN'): 1}"), ('3.1', "[map{'a': [1]}]"), ('3.1', 'array:size#1'),
    ('3.1', "map{'method': 'json'}"), ('3.1', "map{'liberal': true()}"), ('3.1', "map{'duplicates': 'x'}"),
]
STRINGS_SPECIAL = [
    "'http://www.w3.org/2005/xpath-functions/collation/codepoint'",
    "'http://www.w3.org/2013/collation/UCA'", "'http://www.w3.org/2013/collation/UCA?lang=xx;strength=9'",
    "'http://www.w3.org/2005/xpath-functions/collation/html-ascii-case-insensitive'",
    "'http://bogus/collation'", "'collation'", "'en_US.UTF-8'", "'xx_YY'",
    "'[Y0001]-[M01]-[D01]'", "'[Y'", "'[H01]:[m01]:[s01].[f001]'", "'[Y,2-1]'", "'[FNn,*-3] [Dwo]'", "'[Q]'",
    "'[Y9;9]'", "'[z]'", "'[ZN]'", "'[M00000000000000000001]'", "'[Y' ", "']]['",
    "'#,##0.00'", "'#.#.#'", "'0;0;0'", "'1'", "'Ww'", "'i'", "'A'", "'w;o'", "'#'", "'%\u2030'", "'0e0'",
    "'000.##e#'", "''", "'0'", "'\u0661'", "'#,#,'", "'Ww;o(-er)'",
    "'en'", "'xx'", "'de'", "'it'", "'AD'", "'ISO'", "'us'",
    "'s'", "'m'", "'i'", "'x'", "'q'", "'smixq'", "'z'", "''",
    "'(a)|(b)'", "'a{2,1}'", "'[z-a]'", "'\\'", "'(?i)a'", "'\\1'", "'a**'", "'^'", "'$0'", "'\\$'", "'$'", "'$9'",
    "'NFC'", "'nfkd'", "'FULLY-NORMALIZED'", "'XYZ'",
    "'<a/>'", "'<a>'", "'{\"a\":1}'", "'{'", "'[1,]'", "'\"\\ud800\"'", "'<a xmlns=\"\"/>'", "'&lt;'",
    "'file:///nonexistent'", "'nonexistent.xml'", "'::'", "'%zz'", "'#frag'", "'urn:x'",
    "'utf-8'", "'utf-99'", "'P1Y'", "'-PT0S'", "'Z'", "'+14:00'", "'2001'", "'p:a'", "':a'", "'a:b:c'",
    "'Q{http://p}e'", "'Q{}x'", "'xs:integer'", "'xs:nothing'", "'1.0'", "'1.1'", "'3.14'",
]
for _s in STRINGS_SPECIAL:
    POOL.append(('1.0', _s))

SEQ_TYPES = ['xs:integer', 'xs:string', 'xs:int', 'xs:double', 'xs:date', 'xs:QName', 'xs:NOTATION',
             'xs:anyAtomicType', 'xs:untypedAtomic', 'xs:nothing', 'item()', 'node()', 'element()',
             'element(a)', 'attribute(*, xs:int)', 'empty-sequence()', 'xs:integer*', 'xs:string?',
             'xs:integer+', 'document-node()', 'document-node(element(a))', 'text()', 'comment()',
             'schema-element(a)', 'xs:anySimpleType', 'xs:anyType', 'xs:duration', 'xs:boolean',
             'xs:hexBinary', 'xs:NMTOKENS', 'xs:IDREFS', 'xs:ENTITIES', 'xs:numeric', 'xs:error',
             'xs:dateTimeStamp', 'function(*)', 'function(xs:integer) as xs:string', 'map(*)',
             'map(xs:string, item()*)', 'array(*)', 'array(xs:integer)', 'p:t', 'unknown', 'xs:positiveInteger']

AXES = ['child', 'descendant', 'descendant-or-self', 'parent', 'ancestor', 'ancestor-or-self', 'self',
        'following', 'preceding', 'following-sibling', 'preceding-sibling', 'attribute', 'namespace']
NAME_TESTS = ['a', 'b', 'c', 'd', '*', 'p:e', 'p:*', '*:e', 'x', 'f', 'node()', 'text()', 'comment()',
              'processing-instruction()', "processing-instruction('pi')", 'element()', 'attribute()',
              'element(b)', 'attribute(x)', 'document-node()', 'namespace-node()', 'Q{http://p}e', 'div', 'and', 'lt']

BINOPS = {
    '1.0': ['or', 'and', '=', '!=', '<', '>', '<=', '>=', '+', '-', '*', 'div', 'mod', '|', '/', '//'],
    '2.0': ['eq', 'ne', 'lt', 'gt', 'le', 'ge', 'is', '<<', '>>', 'to', 'idiv', 'union', 'intersect', 'except', ','],
    '3.0': ['||', '!'],
    '3.1': ['=>'],
}

KNOWN_NASTIES = [
    '//1', '//"a"', 'Q{u}a', 'empty-sequence() and lt', 'item() or x', '1 => (', '1 => f(', "'abc", '"abc', '(: x',
    '(: (: :)', ':)', '1e400', '1' * 4301, '1' * 5000 + '.5', '.' + '1' * 5000, '1e' + '9' * 400, '1' * 400 + 'e0',
    '(' * 300 + '1' + ')' * 300, '(' * 2000, '-' * 2000 + '1', '1' + '+1' * 3000, 'a' + '/a' * 1500, 'a' + '[1]' * 800,
    '[' * 500, 'not(' * 300 + '1' + ')' * 300, '', ' ', '\n', '\x00', '\ud800', '\U0010FFFF', 'a\x00b', '{', '}', '}{',
    '$', '$$', '$1', '$ x', '@', '@@', '::', 'child::', '::a', 'a::b', 'Q{', 'Q{}', 'Q{a', 'Q{a}', 'Q{a}{', 'Q{{}a',
    '1 to', 'to 1', 'for', 'for $', 'for $x', 'for $x in', 'let', 'let $x :=', 'if', 'if (', 'if (1) then',
    'some', 'every $x in 1 satisfies', 'instance of', '1 instance of', '1 cast as', '1 castable as xs:', '1 treat as',
    'map', 'map{', 'map{1', 'map{1:', 'array', 'array{', '[', '[1', '?', '?1', '1?1', '?*', '.?', '=>', '1 =>', '1 => $',
    'function', 'function(', 'function($', 'function($x', 'function($x)', 'function($x){', 'function($x, $x){1}',
    'abs#', 'abs#1#1', '#1', 'abs#-1', 'abs#99999999999999999999', 'abs#1.5', '1(', '1()', '()()', '$fn1()', '.()',
    '``[', '``[ `{1}` ]``', '1 ! ', '! 1', '||', "'a' ||", 'x:', ':x', 'x:y:z', 'x: y', 'x :y', '*:', ':*', '*:*', 'p:*:a',
    'xs:int(', 'xs:int()', 'xs:int(1,2)', 'xs:nothing(1)', 'xs:QName(1)', "xs:NOTATION('a')", 'xs:anyAtomicType(1)',
    'fn:', 'fn:abs', 'fn:abs(', 'fn:nothing()', 'math:pi(1)', 'map:get()', 'array:get([1], 0)', 'array:get([1], 2)',
    '[1](0)', '[1](2)', "map{'a':1}('b', 'c')", '[1]?0', '[1]?2', "[1]?a", 'map{1:2}?*?*', '1?1',
    "matches('a', '\\p{')", "matches('a', '(')", "replace('a', '', 'b')", "replace('a', 'a', '$')", "tokenize('a', '')",
    "matches('a', 'a', 'k')", "analyze-string('a', '(')", "compare('a', 'b', 'http://bogus')",
    "format-number(1, '#.#.#')", "format-number(1, '')", "format-date(current-date(), '[Y')",
    "format-integer(1, '')", "format-integer(1, 'Ww', 'xx')", "format-dateTime(current-dateTime(), '[z]')",
    "xs:date('x')", "xs:integer('x')", "xs:double('x')", "'x' cast as xs:integer", "1 div 0", "1 idiv 0", "1 mod 0",
    "1.0 div 0", "xs:decimal('1') div xs:decimal('0')", "xs:integer(1e400)", "xs:decimal(xs:double('NaN'))",
    "1 + 'a'", "'a' + 1", "/ + 1", "- 'a'", "+ /", "(1,2) + 1", "1 to 'a'",
    "codepoints-to-string(0)", "codepoints-to-string(1114112)",
    "codepoints-to-string(55296)", "substring('a', 1e308, -1e308)", "round(1e308, 400)", "round(1.5, -400)",
    "round-half-to-even(1.5, 99999999999)", "math:pow(0, -1)", "math:pow(10, 400)", "math:exp(1000)", "math:log(-1)",
    "math:sqrt(-1)", "xs:dayTimeDuration('P99999999999999999D')", "xs:date('99999-01-01')", "xs:gYear('0000')",
    "xs:dateTime('2001-01-01T00:00:00') + xs:dayTimeDuration('P9999999999D')",
    "xs:date('0001-01-01') - xs:yearMonthDuration('P1Y')", "xs:dateTime('10000-02-28T00:00:00') + xs:dayTimeDuration('P1D')",
    "xs:yearMonthDuration('P1Y') * 1e400", "xs:dayTimeDuration('PT1S') div 0", "xs:dayTimeDuration('PT1S') * xs:double('NaN')",
    "adjust-dateTime-to-timezone(current-dateTime(), xs:dayTimeDuration('PT15H'))", "implicit-timezone() * 1e300",
    "id(1)", "idref(/)", "root(1)", "lang(1)", "lang('en', 1)", "name(1)", "local-name('a')", "namespace-uri(1)",
    "number(/)", "string(/)", "boolean((1,2))", "not((1,2))", "data(abs#1)", "string(abs#1)", "deep-equal(abs#1, 1)",
    "count()", "count(1,2)", "concat('a')", "position(1)", "last(1)", "true(1)", "substring('a')", "abs()", "abs(1,2)",
    "exactly-one(())", "one-or-more(())", "zero-or-one((1,2))", "error()", "error(())", "error(xs:QName('p:x'))",
    "error(xs:QName('x'), 'm', 1)", "error(1)", "trace(1)", "trace(1, 2)", "doc('nonexistent')", "doc(1)", "doc('')",
    "doc-available(1)", "collection('x')", "collection(1)", "unparsed-text('nonexistent')", "unparsed-text(1)",
    "unparsed-text-lines('x', 'utf-99')", "unparsed-text-available(())", "environment-variable(1)", "available-environment-variables(1)",
    "parse-xml('<a')", "parse-xml(1)", "parse-xml-fragment('<a')", "serialize(1, 2)", "serialize(abs#1)",
    "serialize(/a/@id)", "parse-json('{')", "parse-json(1)", "parse-json('1', map{'liberal': 1})", "json-doc('x')",
    "json-to-xml('{')", "xml-to-json(1)", "xml-to-json(/a)", "parse-ietf-date('x')", "parse-ietf-date(1)",
    "resolve-uri('a', 'b')", "resolve-uri('a', ':')", "resolve-QName('p:a', 1)", "resolve-QName(':', /a)", "QName('', 'p:a')",
    "QName(1, 2)", "in-scope-prefixes(1)", "namespace-uri-for-prefix('p', 1)", "static-base-uri(1)", "base-uri(1)",
    "document-uri(1)", "nilled(1)", "node-name(1)", "generate-id(1)", "path(1)", "has-children(1)", "innermost(1)", "outermost(1)",
    "head(abs#1)", "tail(1, 2)", "subsequence(1, 'a')", "subsequence((1,2), xs:double('NaN'))", "insert-before(1, 'a', 2)",
    "remove(1, 'a')", "index-of(1, abs#1)", "index-of(/a, 1)", "distinct-values(abs#1)", "distinct-values((1, 'a'), 'http://bogus')",
    "min((1, 'a'))", "max((xs:date('2001-01-01'), 1))", "avg(('a', 'b'))", "sum(('a', 'b'))", "sum((), abs#1)",
    "min(abs#1)", "max(/a)", "avg(xs:duration('P1Y'))", "sum((xs:dayTimeDuration('PT1S'), xs:yearMonthDuration('P1Y')))",
    "for-each(1, 2)", "for-each((1,2), abs#2)", "filter((1,2), abs#1)", "fold-left((1,2), 0, abs#1)", "fold-right(1, 2, 3)",
    "for-each-pair(1, 2, abs#1)", "function-lookup(1, 2)", "function-lookup(xs:QName('fn:abs'), -1)", "function-name(1)",
    "function-arity(1)", "abs#1(1, 2)", "abs#1()", "(abs#1, abs#1)(1)", "1(2)", "'a'(1)", "/(1)", "sort((1, 'a'))",
    "sort(1, 'http://bogus')", "sort((1,2), (), abs#2)", "apply(abs#1, 1)", "apply(abs#1, [1, 2])", "apply(1, [])",
    "map:merge(1)", "map:merge((), 1)", "map:merge((map{1:2}, map{1:3}), map{'duplicates': 'reject'})", "map:get(1, 2)",
    "map:put(map{}, (1,2), 3)", "map:entry((), 1)", "map:for-each(map{1:2}, abs#1)", "map:find(abs#1, 1)", "map:remove(1, 2)",
    "array:get([], 1)", "array:put([1], 0, 2)", "array:subarray([1,2], 3)", "array:subarray([1,2], 1, -1)", "array:remove([1], 2)",
    "array:insert-before([1], 3, 2)", "array:head([])", "array:tail([])", "array:join(1)", "array:for-each([1], abs#2)",
    "array:filter([1], abs#1)", "array:fold-left([1], 0, abs#1)", "array:for-each-pair([1], [2], abs#1)", "array:sort([1, 'a'])",
    "array:flatten(abs#1)", "array:size(1)", "array:append(1, 2)", "array:reverse(map{})", "[1,2]?(1 to 3)", "map{}?a?b",
    "string-to-codepoints(1)", "normalize-unicode('a', 'XYZ')", "upper-case(1)", "translate('a', 1, 2)", "encode-for-uri(1)",
    "contains('a', 'b', 'http://bogus')", "starts-with(1, 2)", "substring-before('a', 'b', 1)", "string-join(1, 2)",
    "string-join((1, abs#1))", "concat(abs#1, 'a')", "contains-token('a', 'b', 'http://bogus')", "collation-key('a', 'http://bogus')",
    "default-collation(1)", "default-language(1)", "current-date(1)", "timezone-from-date(1)", "year-from-date('2001')",
    "years-from-duration(1)", "dateTime(1, 2)", "dateTime(xs:date('2001-01-01Z'), xs:time('00:00:00+01:00'))",
    "random-number-generator(abs#1)", "random-number-generator()?permute", "random-number-generator()('next')()('number')",
    "load-xquery-module('x')", "transform(map{})", "transform(1)", "put(1, 2)", "element-with-id(1)", "unordered(abs#1)(1)",
    "1 instance of xs:nothing", "1 cast as xs:nothing", "1 cast as xs:NOTATION", "1 cast as xs:anyAtomicType", "1 cast as xs:integer*",
    "1 castable as xs:QName", "'a' cast as xs:QName", "/a cast as xs:integer", "(1,2) cast as xs:integer", "() cast as xs:integer",
    "1 treat as xs:string", "1 treat as node()", "1 instance of element(*, xs:nothing)", "1 instance of schema-element(x)",
    "if (abs#1) then 1 else 2", "if ((1,2)) then 1 else 2", "some $x in abs#1 satisfies $x", "every $x in 1 satisfies (1,2)",
    "for $x in 1 return $y", "let $x := 1 return $x($x)", "$x", "$p:x", "$Q{u}x", "$xs:int",
    "/a is 1", "1 is 1", "/a << 1", "/a/b is /a/b", "1 union 2", "/a union 1", "1 | 2", "/a intersect 'a'", "1 except /a",
    "/a/1", "/a/'x'", "1/a", "'a'/a", "(1,2)/a", "/a/(1, b)", "/a/b/abs#1", "/a[abs#1]", "/a[(1,2)]", "/a['a', 'b']", "1[2][3]",
    "a[", "a[]", "a]", "a[1]]", "a[[1]]", "(", ")", "()", "(()", "())", ",", "1,", ",1", "1,,2", "1 2", "'a' 'b'", "a b", "1 a",
    "1 div", "div 1", "div div div", "and and and", "or or or", "mod mod mod", "* * *", "** *", "* *", "- -", "+ +", "1 - - 1", "1--1",
    "1 eq", "eq 1", "eq eq eq", "1 is", "is is is", "to to to", "if if", "for for", "let let", "some some", "union union union",
    "instance instance", "instance of of", "cast cast", "treat as as", "return return", "then else", "satisfies", "in in in",
    "element(", "element(a", "element(a,", "element(a, b,", "element(*, *)", "attribute(1)", "document-node(1)", "document-node(text())",
    "processing-instruction(1)", "processing-instruction('a', 'b')", "comment(1)", "text(1)", "node(1)", "namespace-node(1)",
    "schema-element()", "schema-attribute(1)", "item(1)", "empty-sequence(1)", "empty-sequence()", "item()", "element() or 1",
    "1 instance of item()()", "1 instance of function(", "1 instance of function(*) as", "1 instance of map(", "1 instance of map(*", "1 instance of array(",
    "1 instance of map(xs:nothing, item())", "1 instance of map(item(), item())", "1 instance of function(xs:integer, ) as item()",
    "child::1", "child::'a'", "child::(a)", "self::", "attribute::attribute::a", "namespace::namespace", "parent::.", "child::..", "@..", "@.", "@1", "@(a)", "@*:*",
    "ancestor::a::b", "following::text(1)", "preceding-sibling::node()[", "descendant-or-self::node()/", "/..", "/.", "//..", "/../a", "//", "///", "/ /", "a//", "a/",
    "a//[1]", "a/[1]", "/[1]", "//[1]", ".[1]", "..[1]", "...", ".. .", ". .", "1.", ".1.", "1..2", "1.2.3", "1e", "1e+", "1E5E5", "0x10", "1_000", "１２３", "١٢٣", "1²",
]

UNICODE_RANGES = [(0x20, 0x7f), (0x20, 0x7f), (0x20, 0x7f), (0, 0x20), (0x80, 0x100), (0x100, 0x800),
                  (0x2000, 0x2070), (0x3000, 0x3040), (0xD800, 0xE000), (0xFF00, 0xFFF0), (0x10000, 0x10100),
                  (0x1F600, 0x1F650), (0x10FFF0, 0x110000), (0x300, 0x370), (0x660, 0x66A)]
ASCII_XPATH = list("()[]{}/@.,:;$*+-=!<>|?#'\" \n\t") + list('abcdeqQxyz0123456789') + \
    ['//', '::', ':=', '=>', '||', '!=', '<=', '>=', '<<', '>>', '(:', ':)', 'Q{', '..', ' and ', ' or ', ' div ',
     ' to ', ' eq ', ' lt ', ' is ', ' of ', ' as ', 'instance', 'cast', 'treat', 'for', 'let', 'some', 'if', 'then', 'else',
     'return', 'in', 'map', 'array', 'function', 'xs:', 'fn:', 'text()', 'node()', 'item()', 'element(', 'empty-sequence()']


# one representative per item type: the systematic operator x type x type and function x position x type
# matrices of the exploration stream
TYPE_CLASSES = [
    ('1.0', '1'), ('1.0', '1.5'), ('1.0', '1e0'), ('1.0', "'abc'"), ('1.0', "'1'"), ('1.0', 'true()'),
    ('1.0', '/a/b'), ('1.0', '/a/c/@x'), ('1.0', '/'), ('1.0', '/a/nothing'),
    ('2.0', '()'), ('2.0', '(1, 2)'), ("2.0", "(1, 'a')"), ('2.0', "xs:double('NaN')"), ('2.0', "xs:float('1')"),
    ('2.0', "xs:date('2001-01-01')"), ('2.0', "xs:dateTime('2001-01-01T10:00:00Z')"), ('2.0', "xs:time('10:00:00')"),
    ('2.0', "xs:dayTimeDuration('PT1S')"), ('2.0', "xs:yearMonthDuration('P1M')"), ('2.0', "xs:duration('P1Y2M3DT4H')"),
    ('2.0', "xs:QName('p:a')"), ('2.0', "xs:anyURI('http://x/y')"), ('2.0', "xs:untypedAtomic('5')"),
    ('2.0', "xs:untypedAtomic('x')"), ('2.0', "xs:hexBinary('0F')"), ('2.0', "xs:gYear('2001')"),
    ('2.0', '99999999999999999999'),
    ('3.0', 'abs#1'), ('3.0', 'function($x) { $x }'),
    ('3.1', "map{'a': 1}"), ('3.1', '[1, 2]'),
]


OP_MATRIX_SKIP = {'1.5', "'1'", '/', '/a/nothing', "(1, 'a')", "xs:float('1')", "xs:time('10:00:00')",
                  "xs:duration('P1Y2M3DT4H')", "xs:anyURI('http://x/y')", "xs:untypedAtomic('5')", "xs:gYear('2001')",
                  'function($x) { $x }', "xs:dateTime('2001-01-01T10:00:00Z')"}


def classes_for(v: str) -> list[str]:
    return [e for mv, e in TYPE_CLASSES if vle(mv, v)]


def matrix_cases(v: str, ftable, full_pool: bool = False) -> list[tuple[str, str]]:
    """(source, generator tag): every binary operator x class x class, every sequence-type keyword x
    class, every function x argument position x class (other arguments: plain defaults)"""
    cls = classes_for(v)
    out = []
    # operands of the operator matrix: without near-duplicate classes unless the full pool is asked for
    opcls = cls if full_pool else [c for c in cls if c not in OP_MATRIX_SKIP]
    for op in binops_for(v):
        if op == '=>':
            continue
        sp = '' if op in ('/', '//') else ' '
        for a in opcls:
            for b in opcls:
                out.append((f'{a}{sp}{op}{sp}{b}', 'matrix-op'))
    for op in ('-', '+'):
        for a in cls:
            out.append((f'{op}{a}', 'matrix-op'))
    if v != '1.0':
        for a in cls:
            for t in SEQ_TYPES:
                for kw in ('instance of', 'cast as', 'castable as', 'treat as'):
                    out.append((f'{a} {kw} {t}', 'matrix-type'))
            out.append((f'if ({a}) then 1 else 2', 'matrix-op'))
            out.append((f'some $x in {a} satisfies $x', 'matrix-op'))
            out.append((f'for $x in {a} return $x + 1', 'matrix-op'))
            out.append((f'(1, 2)[{a}]', 'matrix-op'))
            out.append((f'/a/b[{a}]', 'matrix-op'))
    if v >= '3.1':
        for a in cls:
            for name, lo, hi, _ in ftable[::7]:
                out.append((f'{a} => {name}()', 'matrix-fn'))
            for k in cls[:12]:
                out.append((f'{a}?({k})', 'matrix-op'))
                out.append((f'{a}({k})', 'matrix-op'))
    vals = pool_for(v) if full_pool else cls
    defaults = ["'abc'", '1', '/a/b'] + (['()'] if v != '1.0' else [])
    for name, lo, hi, _label in ftable:
        maxn = (lo + 2) if hi is None else hi
        for n in range(lo, maxn + 1):
            if n == 0:
                out.append((f'{name}()', 'matrix-fn'))
                continue
            for pos in range(n):
                for val in vals:
                    args = [defaults[(pos + n + k) % len(defaults)] for k in range(n)]
                    args[pos] = val
                    out.append((f'{name}({", ".join(args)})', 'matrix-fn'))
    return out


# ------------------------------------------------------------ declared-type matrix (inline functions)
ABSTRACT_TYPES = ['anyAtomicType', 'anySimpleType', 'anyType', 'untyped', 'numeric', 'error', 'dateTimeStamp',
                  'NMTOKENS', 'IDREFS', 'ENTITIES', 'nothing']
OTHER_TYPES = ['item()', 'node()', 'element()', 'attribute()', 'text()', 'document-node()', 'empty-sequence()',
               'function(*)', 'function(xs:integer) as xs:integer', 'map(*)', 'array(*)', 'element(b)', 'p:t']
TYPE_ARGS = ["'a'", '1', '1.5', '1e0', '()', "(1, 'a')", '/a/b', "xs:untypedAtomic('5')", 'true()',
             "xs:date('2001-01-01')", 'abs#1']


def all_type_names(parser_classes) -> list[str]:
    """every atomic type name that has a constructor token in ANY parser version, plus the abstract /
    special names of XSD (so that a name known to one version only is tried with the others)"""
    names = set(ABSTRACT_TYPES)
    for cls in parser_classes:
        for key, tk in cls.symbol_table.items():
            if 'constructor' in str(getattr(tk, 'label', '')):
                names.add(tk.symbol)
    return sorted(names)


def typed_function_cases(v: str, type_names: list[str], full: bool) -> list[tuple[str, str]]:
    if v < '3.0':
        return []
    out = []
    occs = ['', '?', '*', '+'] if full else ['', '*']
    args = TYPE_ARGS if full else TYPE_ARGS[:7]
    types = ['xs:' + n for n in type_names] + OTHER_TYPES
    for t in types:
        for occ in occs:
            if t == 'empty-sequence()' and occ:
                continue
            ty = (f'({t})' if ' as ' in t and occ else t) + occ
            for a in args:
                out.append((f'function($x as {ty}) {{ $x }}({a})', 'matrix-typed-fn'))
                out.append((f'function($x) as {ty} {{ $x }}({a})', 'matrix-typed-fn'))
                out.append((f'function($x as {ty}) as {ty} {{ $x + 1 }}({a})', 'matrix-typed-fn'))
            out.append((f'let $f := function($x as {ty}, $y as {ty}) as {ty} {{ ($x, $y) }} return $f(1, \'a\')', 'matrix-typed-fn'))
            out.append((f'for-each((1, \'a\', /a/b), function($x as {ty}) {{ $x }})', 'matrix-typed-fn'))
            out.append((f'function($x as {ty}) {{ $x }}(?)(1)', 'matrix-typed-fn'))
            if v >= '3.1':
                out.append((f'1 => (function($x as {ty}) {{ $x }})()', 'matrix-typed-fn'))
    return out

# ------------------------------------------------------------------------ collation matrix
UCA = 'http://www.w3.org/2013/collation/UCA'
COLLATIONS = [
    'http://www.w3.org/2005/xpath-functions/collation/codepoint',
    'http://www.w3.org/2005/xpath-functions/collation/html-ascii-case-insensitive',
    UCA, UCA + '?lang=xx', UCA + '?lang=de', UCA + '?lang=it;fallback=yes', UCA + '?lang=xx;fallback=yes',
    UCA + '?lang=xx;fallback=no', UCA + '?lang=de;fallback=no', UCA + '?lang=en;strength=primary', UCA + '?fallback=no',
    UCA + '?fallback=yes', UCA + '?lang=', UCA + '?lang=en-US;fallback=yes', UCA + '?lang=zz_ZZ.UTF-8', UCA + '?', UCA + '?x=y',
    UCA + '?lang=de;lang=xx', 'http://bogus/collation', 'en_US.UTF-8', 'C', 'POSIX', 'C.utf8', 'de_DE.UTF-8', 'it_IT', 'xx_YY',
    'xx_YY.UTF-8', '', ' ', 'en_US.UTF-8@x', 'a b', 'collation', '\u00e9',
]
COLLATION_FORMS = [   # (min version, template: §A, §B operands, §C collation literal)
    ('2.0', 'compare(§A, §B, §C)'), ('2.0', 'contains(§A, §B, §C)'), ('2.0', 'starts-with(§A, §B, §C)'), ('2.0', 'ends-with(§A, §B, §C)'),
    ('2.0', 'substring-before(§A, §B, §C)'), ('2.0', 'substring-after(§A, §B, §C)'), ('2.0', 'index-of((§A, §B), §B, §C)'),
    ('2.0', 'distinct-values((§A, §B), §C)'), ('2.0', 'deep-equal(§A, §B, §C)'), ('2.0', 'max((§A, §B), §C)'), ('2.0', 'min((§A, §B), §C)'),
    ('3.1', 'sort((§A, §B), §C)'), ('3.1', 'sort((§A, §B), §C, function($x) { $x })'), ('3.1', 'contains-token(§A, §B, §C)'),
    ('3.1', 'collation-key(§A, §C)'), ('3.0', 'for-each((§A, §B), compare(?, §B, §C))'), ('3.0', 'compare#3(§A, §B, §C)'),
]
DEFAULT_COLLATION_FORMS = ["compare(§A, §B)", "contains(§A, §B)", "index-of((§A, §B), §B)", "distinct-values((§A, §B))", "deep-equal(§A, §B)",
                           "max((§A, §B))", "min((§A, §B))", "§A = §B", "§A lt §B", "(§A, §B) = (§B, §A)", "default-collation()",
                           "starts-with(§A, §B)", "substring-before(§A, §B)"]
DEFAULT_COLLATION_FORMS_31 = ["sort((§A, §B))", "contains-token(§A, §B)", "collation-key(§A)", "sort((§A, §B), ())"]


def collation_cases(v: str) -> list[tuple[str, str, str | None]]:
    """(source, tag, default_collation option or None): every collation URI x every collation-taking
    function, with constant operands (static evaluation at parse time) and node operands (evaluation time);
    and the same functions without collation argument under a `default_collation=` parser option"""
    if v == '1.0':
        return []
    out = []
    operands = [("'abc'", "'b'"), ('/a/b[1]', '/a/b[2]'), ('/a/c/@x', "'2'"), ('$s', '$s')]
    for c in COLLATIONS:
        lit = "'" + c.replace("'", "''") + "'"
        for mv, form in COLLATION_FORMS:
            if not vle(mv, v):
                continue
            for a, b in operands:
                out.append((form.replace('§A', a).replace('§B', b).replace('§C', lit), 'collation-arg', None))
        forms = DEFAULT_COLLATION_FORMS + (DEFAULT_COLLATION_FORMS_31 if v >= '3.1' else [])
        for form in forms:
            for a, b in operands[:3]:
                out.append((form.replace('§A', a).replace('§B', b), 'collation-default', c))
    return out


# --------------------------------------------------------------------- name-operand matrix
NAME_FORMS = ['abs', 'upper-case', 'foo', 'fn:abs', 'fn:uppercase', 'p:foo', 'p:abs', 'u:foo', 'math:pi', 'math:nothing',
              'map:get', 'array:foo', 'xs:integer', 'xs:nothing', 'Q{http://www.w3.org/2005/xpath-functions}abs',
              'Q{http://www.w3.org/2005/xpath-functions}nothing', 'Q{http://p}foo', 'Q{http://p}e', 'Q{}foo', 'Q{u}a',
              'p:*', '*:abs', '*:e', '*', 'b', 'p:e', 'div', 'map', 'array', 'item', 'text', 'if', 'xml:lang', 'xmlns:p']
NAME_CONSTRUCTS = [
    ('3.1', '1 => §N()'), ('3.1', "'a' => §N()"), ('3.1', '(1, 2) => §N(1)'), ('3.1', '/a/b => §N()'), ('3.1', '1 => §N'),
    ('3.1', '1 => §N(1) => §N()'), ('3.0', '§N#1'), ('3.0', '§N#0'), ('3.0', '§N#1(1)'), ('3.0', '§N#2(1, 2)'), ('3.0', 'function-name(§N#1)'),
    ('1.0', '§N()'), ('1.0', '§N(1)'), ('1.0', '§N(1, 2)'), ('1.0', "§N('a')"), ('1.0', '§N(/a/b)'), ('1.0', '§N'), ('1.0', '/a/§N'),
    ('1.0', 'child::§N'), ('1.0', '@§N'), ('1.0', 'attribute::§N'), ('1.0', 'self::§N'), ('1.0', '//§N/§N'), ('1.0', '/a/§N[1]'),
    ('1.0', '§N/§N'), ('1.0', '§N:§N'), ('1.0', '$§N'), ('1.0', '§N + 1'), ('1.0', 'processing-instruction(§N)'),
    ('2.0', 'element(§N)'), ('2.0', 'attribute(§N)'), ('2.0', 'element(*, §N)'), ('2.0', 'element(§N, §N)'), ('2.0', 'schema-element(§N)'),
    ('2.0', 'document-node(element(§N))'), ('2.0', '1 instance of §N'), ('2.0', '1 cast as §N'), ('2.0', '1 castable as §N?'),
    ('2.0', '1 treat as §N'), ('2.0', '1 instance of element(§N)'), ('2.0', 'for $§N in 1 return $§N'), ('2.0', 'some $§N in 1 satisfies $§N'),
    ('2.0', 'resolve-QName("§N", /a)'), ('2.0', 'xs:QName("§N")'), ('2.0', 'QName("http://p", "§N")'),
    ('3.0', 'let $§N := 1 return $§N'), ('3.0', 'function($x as §N) { 1 }'), ('3.0', 'function($x) as §N { 1 }(1)'),
    ('3.0', 'function($§N) { $§N }(1)'), ('3.0', 'function-lookup(xs:QName("§N"), 1)'), ('3.0', '1 ! §N()'), ('3.0', '1 ! §N'),
    ('3.0', '1 instance of function(§N) as §N'), ('3.0', 'for-each((1, 2), §N#1)'),
    ('3.1', "map{'a': 1}?§N"), ('3.1', '[1]?§N'), ('3.1', '?§N'), ('3.1', "map{'§N': 1}?§N"), ('3.1', '1 instance of map(§N, §N)'),
    ('3.1', '1 instance of array(§N)'), ('3.1', '§N => §N()'), ('3.1', "map{§N: 1}"), ('3.1', '[§N]'),
]


def name_cases(v: str) -> list[tuple[str, str]]:
    """a small exhaustive matrix: every construct that takes a NAME operand x every name form"""
    out = []
    for mv, c in NAME_CONSTRUCTS:
        if vle(mv, v):
            for n in NAME_FORMS:
                out.append((c.replace('§N', n), 'matrix-name'))
    return out

# ----------------------------------------------------------------------- magnitude matrices
# extreme-magnitude numeric operands: as literals (static evaluation at parse time) and as variables
MAG_LITERALS = [
    '0', '1', '3', '-7', '0.1', '0.0', '1000000000000000000000000000', '1000000000000000000000000000000',
    '1000000000000000000000000000000.0', '1000000000000000000000000000.0', '0.0000000000000000000000000001',
    '1234567890123456789012345678901234567890.5', '0.1234567890123456789012345678901234567890',
    '99999999999999999999999999999999999999999999999999', '1e308', '1.7976931348623157e308', '-1.7976931348623157e308',
    '5e-324', '2.2250738585072014e-308', '1e400', '1e-400', '0e0', '-0e0', '9007199254740993', '9223372036854775808',
]
MAG_TYPED = ["xs:float('3.4028235e38')", "xs:float('1e-45')", "xs:float('-INF')", "xs:double('NaN')", "xs:double('INF')",
             "xs:decimal('1E-28')" , "xs:integer('1' || '000000000000000000000000000000')"]
MAG_VARS = ['$gi27', '$gi30', '$gd27', '$gdp1', '$gdm28', '$gd40', '$gf308', '$gfsub', '$gfneg', '$ginf', '$gnan', '$gd1e40']
ARITH_OPS = ['+', '-', '*', 'div', 'idiv', 'mod']


def magnitude_variables() -> dict:
    from decimal import Decimal
    return {'gi27': 10 ** 27, 'gi30': 10 ** 30, 'gd27': Decimal(10) ** 27, 'gdp1': Decimal('0.1'),
            'gdm28': Decimal('1E-28'), 'gd40': Decimal('1234567890123456789012345678901234567890.5'),
            'gf308': 1e308, 'gfsub': 5e-324, 'gfneg': -1.7976931348623157e308, 'ginf': float('inf'),
            'gnan': float('nan'), 'gd1e40': Decimal('1E+40')}


def magnitude_cases(v: str) -> list[tuple[str, str]]:
    """every arithmetic operator x extreme operand x extreme operand (literals: evaluated statically at
    parse time; variables: at evaluation time), unary minus, rounding with large precisions, numeric
    functions, casts between numeric types, formatting, math:*"""
    lits = list(MAG_LITERALS) + ([t for t in MAG_TYPED if '||' not in t or v >= '3.0'] if v != '1.0' else [])
    ops = [o for o in ARITH_OPS if v != '1.0' or o != 'idiv']
    out = []
    for op in ops:
        for a in lits:
            for b in lits:
                out.append((f'{a} {op} {b}', 'magnitude-op'))
        for a in MAG_VARS:
            for b in MAG_VARS:
                out.append((f'{a} {op} {b}', 'magnitude-op'))
            for b in ('0.1', '3', '1e308', '1000000000000000000000000000000.0'):
                out.append((f'{a} {op} {b}', 'magnitude-op'))
                out.append((f'{b} {op} {a}', 'magnitude-op'))
    vals = lits + MAG_VARS
    cmp_ops = ['=', '<', '!='] + (['eq', 'lt', 'ge'] if v != '1.0' else [])
    for a in vals:
        out.append((f'-{a}', 'magnitude-op'))
        out.append((f'- -{a}', 'magnitude-op'))
        for op in cmp_ops:
            for b in ('0.1', '$gd40', '1e308', '$gi30'):
                out.append((f'{a} {op} {b}', 'magnitude-op'))
        forms = ['round(%s)', 'floor(%s)', 'ceiling(%s)', 'number(%s)', 'string(%s)', 'boolean(%s)', 'sum(%s)',
                 "substring('abcdef', %s)", "substring('abcdef', 2, %s)", 'concat(%s, %s)', 'string-length(string(%s))']
        if v != '1.0':
            forms += ['abs(%s)', 'round-half-to-even(%s)', 'sum((%s, %s))', 'avg((%s, 1))', 'avg((%s, %s))', 'max((%s, 1))',
                      'min((%s, 0.5))', 'sum((%s, 0.1, 1e0))', 'subsequence((1, 2, 3), %s)', 'subsequence((1, 2, 3), 1, %s)',
                      'remove((1, 2), %s)', 'insert-before((1, 2), %s, 3)', '(1, 2, 3)[%s]', '(1 to 3)[position() = %s]',
                      'xs:integer(%s)', 'xs:decimal(%s)', 'xs:double(%s)', 'xs:float(%s)', 'xs:int(%s)', 'xs:long(%s)',
                      'xs:unsignedByte(%s)', 'xs:nonNegativeInteger(%s)', 'xs:string(%s)', 'xs:boolean(%s)',
                      'xs:untypedAtomic(%s)', '%s cast as xs:integer', '%s cast as xs:decimal', '%s cast as xs:float',
                      '%s castable as xs:long', '%s instance of xs:decimal', 'xs:decimal(xs:double(%s))',
                      'xs:integer(xs:float(%s))', 'xs:dayTimeDuration("PT1S") * %s', 'xs:dayTimeDuration("PT1S") div %s',
                      'xs:yearMonthDuration("P1M") * %s', 'xs:yearMonthDuration("P1Y") div %s',
                      'xs:date("2001-01-01") + xs:dayTimeDuration("P1D") * %s', 'codepoints-to-string(xs:integer(%s))',
                      'string-join(("a", "b"), string(%s))', 'distinct-values((%s, %s, 1))', 'index-of((1, 2), %s)',
                      'deep-equal(%s, %s)', 'compare(string(%s), "1")', 'xs:gYear(string(xs:integer(%s)))',
                      'implicit-timezone() * %s', 'adjust-dateTime-to-timezone(current-dateTime(), xs:dayTimeDuration("PT1H") * %s)']
            for p in ('0', '5', '28', '40', '400', '-5', '-40', '-400'):
                forms += [f'round-half-to-even(%s, {p})'] + ([f'round(%s, {p})'] if v >= '3.0' else [])
        if v >= '3.0':
            forms += ["format-number(%s, '#.###')", "format-number(%s, '0.0e0')", "format-number(%s, '#,##0.00')",
                      "format-number(%s, '000000000000000000000000000000000000000000.0')", "format-number(%s, '#%%')",
                      "format-integer(xs:integer(%s), '1')", "format-integer(xs:integer(%s), 'w')", "format-integer(xs:integer(%s), 'i')",
                      "format-integer(xs:integer(%s), 'A')", 'math:sqrt(%s)', 'math:exp(%s)', 'math:log(%s)', 'math:log10(%s)',
                      'math:sin(%s)', 'math:cos(%s)', 'math:tan(%s)', 'math:asin(%s)', 'math:acos(%s)', 'math:atan(%s)',
                      'math:pow(%s, 2)', 'math:pow(%s, 0.5)', 'math:pow(2, xs:double(%s))', 'math:pow(xs:double(%s), xs:decimal(0.5))', 'math:atan2(%s, 1)',
                      'math:atan2(1, %s)', '%s ! (. * .)', 'for-each((%s, 1), function($x) { $x * $x })',
                      'fold-left((%s, %s, %s), 0, function($a, $b) { $a + $b })', 'string(%s) || "x"', 'head((%s, 1)) div tail((1, %s))']
        if v >= '3.1':
            forms += ['map{%s: 1}', 'map{%s: 1}(%s)', '[%s](1) + 1', 'array:get([1, 2], xs:integer(%s))', 'array:subarray([1, 2], %s)',
                      'sort((%s, 1, 0.5))', 'serialize(%s, map{"method": "json"})', 'parse-json(string(%s))', 'xml-to-json(json-to-xml(string(%s)))',
                      'array:remove([1, 2], xs:integer(%s))', 'map:merge((map{%s: 1}, map{%s: 2}))']
        for f in forms:
            out.append((f.replace('%s', a), 'magnitude-fn'))
    return out


def vle(v: str, w: str) -> bool:
    return VERSIONS.index(v) <= VERSIONS.index(w)


def pool_for(v: str) -> list[str]:
    return [e for mv, e in POOL if vle(mv, v)]


def binops_for(v: str) -> list[str]:
    out = []
    for mv, ops in BINOPS.items():
        if vle(mv, v):
            out += ops
    return out


# -------------------------------------------------------------------------- function table
def function_table(v: str, cls) -> list[tuple[str, int, int | None, str]]:
    """(call name with prefix, min args, max args (None=unbounded), label) for every registered
    function / constructor of the live parser class `cls` of version v"""
    cls()   # builds the class (tokenizer) if needed
    out = []
    pref = {'http://www.w3.org/2005/xpath-functions': '', 'http://www.w3.org/2005/xpath-functions/math': 'math:',
            'http://www.w3.org/2005/xpath-functions/map': 'map:', 'http://www.w3.org/2005/xpath-functions/array': 'array:',
            'http://www.w3.org/2001/XMLSchema': 'xs:'}
    for key, tk in sorted(cls.symbol_table.items()):
        if not hasattr(tk, 'nargs'):
            continue
        label = str(tk.label)
        if 'function' not in label and 'constructor' not in label:
            continue
        nargs = tk.nargs
        if nargs is None:
            lo, hi = 0, None
        elif isinstance(nargs, int):
            lo = hi = nargs
        else:
            lo, hi = nargs
        ns = getattr(tk, 'namespace', None)
        p = pref.get(ns, '')
        if 'constructor' in label and ns is None:
            p = 'xs:'
        name = tk.symbol
        if v == '1.0':
            p = ''
        out.append((p + name, lo, hi, label))
    return out


# ------------------------------------------------------------------------ expression grammar
class Gen:
    def __init__(self, rng, v: str, ftable):
        self.rng, self.v = rng, v
        self.pool = pool_for(v)
        self.binops = binops_for(v)
        self.ftable = ftable

    def pick(self, l):
        return l[self.rng.randrange(len(l))]

    def atom(self) -> str:
        return self.pick(self.pool)

    def step(self) -> str:
        r = self.rng.random()
        t = self.pick(NAME_TESTS)
        if r < 0.5:
            s = t
        elif r < 0.7:
            s = '@' + self.pick(['x', 'n', '*', 'id', 'p:y', 'xml:lang', 'nothing'])
        elif r < 0.9:
            s = self.pick(AXES) + '::' + t
        else:
            s = self.pick(['.', '..'])
        if self.rng.random() < 0.25:
            s += '[' + self.expr(1) + ']'
        return s

    def path(self) -> str:
        n = self.rng.randint(1, 4)
        s = self.pick(['', '/', '//', './', '../', '$node/'])
        s += self.step()
        for _ in range(n - 1):
            s += self.pick(['/', '/', '//']) + self.step()
        return s

    def call(self, depth: int, exact: bool = True) -> str:
        name, lo, hi, _ = self.pick(self.ftable)
        r = self.rng.random()
        if hi is None:
            n = lo + self.rng.randrange(3)
        else:
            n = self.rng.randint(lo, hi)
        if not exact and r < 0.12:
            n = max(0, n + self.pick([-1, 1, 2]))
        args = [self.expr(depth - 1) if self.rng.random() < 0.35 else self.atom() for _ in range(n)]
        return f'{name}({", ".join(args)})'

    def seqtype(self) -> str:
        return self.pick(SEQ_TYPES)

    def expr(self, depth: int) -> str:
        rng, v = self.rng, self.v
        if depth <= 0:
            return self.atom() if rng.random() < 0.7 else self.path()
        r = rng.random()
        if r < 0.22:
            return self.call(depth, exact=False)
        if r < 0.40:
            op = self.pick(self.binops)
            a, b = self.expr(depth - 1), self.expr(depth - 1)
            if op == '=>':
                name, lo, hi, _ = self.pick(self.ftable)
                return f'{a} => {name}({b if rng.random() < 0.4 else ""})'
            sp = ' ' if not op[0] in '/' else ''
            return f'{a}{sp}{op}{sp}{b}'
        if r < 0.50:
            return self.path()
        if r < 0.56:
            return self.pick(['-', '+', '- -']) + self.expr(depth - 1)
        if r < 0.62:
            return '(' + ', '.join(self.expr(depth - 1) for _ in range(rng.randint(0, 3))) + ')'
        if r < 0.68:
            return self.expr(depth - 1) + '[' + self.expr(depth - 1) + ']'
        if v == '1.0':
            return self.call(depth)
        if r < 0.73:
            return f'if ({self.expr(depth - 1)}) then {self.expr(depth - 1)} else {self.expr(depth - 1)}'
        if r < 0.79:
            kw = self.pick(['for', 'for', 'let'] if v >= '3.0' else ['for'])
            var = self.pick(['x', 'y', 's', 'n'])
            bind = ' := ' if kw == 'let' else ' in '
            body = self.expr(depth - 1)
            if rng.random() < 0.5:
                body = f'${var} {self.pick(self.binops)} {body}'
            return f'{kw} ${var}{bind}{self.expr(depth - 1)} return {body}'
        if r < 0.83:
            return f'{self.pick(["some", "every"])} $x in {self.expr(depth - 1)} satisfies {self.expr(depth - 1)}'
        if r < 0.90:
            kw = self.pick(['instance of', 'cast as', 'castable as', 'treat as'])
            return f'{self.expr(depth - 1)} {kw} {self.seqtype()}'
        if v == '2.0':
            return self.call(depth)
        if r < 0.93:
            ps = self.pick(['', '$x', '$x, $y', '$x as xs:integer', '$x as item()*, $y as xs:string?'])
            rt = self.pick(['', ' as xs:integer', ' as item()*'])
            f = f'function({ps}){rt} {{ {self.expr(depth - 1)} }}'
            if rng.random() < 0.6:
                f += '(' + ', '.join(self.atom() for _ in range(rng.randint(0, 2))) + ')'
            return f
        if r < 0.95:
            name, lo, hi, _ = self.pick(self.ftable)
            n = lo if hi is None else rng.randint(lo, hi)
            s = f'{name}#{n}'
            if rng.random() < 0.6:
                s += '(' + ', '.join(self.atom() for _ in range(max(0, n + self.pick([0, 0, 0, -1, 1])))) + ')'
            return s
        if v == '3.0':
            return self.call(depth)
        if r < 0.97:
            k = rng.randint(0, 3)
            return 'map{' + ', '.join(f'{self.atom()}: {self.expr(depth - 1)}' for _ in range(k)) + '}'
        if r < 0.985:
            k = rng.randint(0, 3)
            items = ', '.join(self.expr(depth - 1) for _ in range(k))
            return self.pick(['[%s]', 'array{%s}']) % items
        return self.expr(depth - 1) + '?' + self.pick(['*', '1', '0', 'a', '(1, 2)', '(' + self.atom() + ')', '99'])


def illtyped_call(g: Gen) -> str:
    """a call of a registered function with operands of arbitrary type and near-right arity"""
    return g.call(1, exact=g.rng.random() < 0.8)


def illtyped_op(g: Gen) -> str:
    op = g.pick(g.binops)
    if op == '=>':
        return f'{g.atom()} => {g.pick(g.ftable)[0]}()'
    return f'{g.atom()} {op} {g.atom()}'


# ------------------------------------------------------------------------------- mutations
def tokens_of(tokenizer, src: str) -> list[str]:
    return [m.group() for m in tokenizer.finditer(src)]


def mutate(rng, tokenizer, symbols: list[str], src: str) -> tuple[str, str]:
    toks = tokens_of(tokenizer, src)
    if not toks:
        return src + rng.choice(symbols), 'append'
    kind = rng.choice(['delete', 'duplicate', 'swap', 'lit2name', 'name2lit', 'unbalance', 'replace',
                       'truncate', 'insert', 'despace', 'join', 'comment'])
    i = rng.randrange(len(toks))
    if kind == 'delete':
        del toks[i]
    elif kind == 'duplicate':
        toks.insert(i, toks[i])
    elif kind == 'swap' and len(toks) > 1:
        j = rng.randrange(len(toks))
        toks[i], toks[j] = toks[j], toks[i]
    elif kind == 'lit2name':
        idx = [k for k, t in enumerate(toks) if t[:1] in '\'"0123456789.']
        if idx:
            toks[rng.choice(idx)] = rng.choice(['a', 'lt', 'div', 'x', 'text', 'item', 'map', 'if'])
    elif kind == 'name2lit':
        idx = [k for k, t in enumerate(toks) if t[:1].isalpha()]
        if idx:
            toks[rng.choice(idx)] = rng.choice(['1', "'s'", '1.5', '1e3', '""'])
    elif kind == 'unbalance':
        idx = [k for k, t in enumerate(toks) if t in ('(', ')', '[', ']', '{', '}')]
        if idx and rng.random() < 0.6:
            del toks[rng.choice(idx)]
        else:
            toks.insert(i, rng.choice(['(', ')', '[', ']', '{', '}', '(:', ':)']))
    elif kind == 'replace':
        toks[i] = rng.choice(symbols)
    elif kind == 'truncate':
        toks = toks[:i]
    elif kind == 'insert':
        toks.insert(i, ' ' + rng.choice(symbols) + ' ')
    elif kind == 'comment':     # a well-formed (possibly nested) or broken comment at a token boundary
        toks.insert(i, rng.choice([' (: c :) ', '(: a (: b :) c :)', ' (::) ', '(: :', ' (: "q :) ', ':(: c :)', '(: c :):',
                                   ' (: (: (: :) :) ', '(:' + 'x ' * 40 + ':)']))
    elif kind == 'despace':
        toks = [t for t in toks if not t.isspace()]
    elif kind == 'join':
        return ''.join(toks[:i]) + ''.join(toks[i:]).replace(' ', '', 1), 'join'
    return ''.join(toks), kind


def random_string(rng) -> str:
    n = rng.choice([1, 1, 2, 3, 5, 8, 13, 30])
    out = []
    mode = rng.random()
    for _ in range(n):
        if mode < 0.5 and rng.random() < 0.7:
            out.append(rng.choice(ASCII_XPATH))
        else:
            lo, hi = rng.choice(UNICODE_RANGES)
            out.append(chr(rng.randrange(lo, hi)))
    return ''.join(out)

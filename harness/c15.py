"""
C15 — XPath 3.1 maps and arrays: finite-map / list laws, key identity, immutability.

 prove     : EPV.Props.C15 (laws of the model, refinement of the F&O spec, persistence over any
             operation sequence)
 correspond: random *operation histories* (1..15 steps).  Every step is one XPath 3.1 expression
             (map constructor, map:*, array:*, `?` lookup, sequence constructor) whose operands are
             the values created by earlier steps, passed back through `variables=`.  After EVERY
             step ALL values created so far are re-observed (deep print: keys, sizes, every entry,
             every member) and compared with
               - the Lean model  (insertion order, exact)     -> tie
               - the Lean spec   (F&O definitions, order-free) -> property
             Re-observing old values is what detects in-place mutation of an operand.
 search    : exhaustive small-scope enumeration (every operation on small maps/arrays over a key
             pool that contains all the equal-across-types keys, every position in -1..size+2)
"""
from __future__ import annotations

import sys
from decimal import Decimal
from fractions import Fraction
from pathlib import Path

sys.path.insert(0, str(Path(__file__).resolve().parent.parent))
from harness.common import (Run, Disagreement, cli, DriverError)  # noqa: E402

PROP = 'C15'
SITE_FUNCS = 'elementpath/xpath31/_xpath31_functions.py'

# ----------------------------------------------------------------------------------- keys
# a key is a tuple (kind, payload):
#   ('i', int) ('d', 'lexical decimal') ('f', 'lexical double' | 'NaN' | 'INF' | '-INF')
#   ('s', str) ('u', str) ('b', bool) ('t', (y, m, d, tz_minutes|None))
#   ('q', (namespace, local, prefix))  ('r', (constructor, lexical duration))  ('x', hex digits)  ('y', base64 text)


def days_from_civil(y: int, m: int, d: int) -> int:
    """days since 1970-01-01 in the proleptic Gregorian calendar (independent of elementpath)"""
    y -= m <= 2
    era = (y if y >= 0 else y - 399) // 400
    yoe = y - era * 400
    doy = (153 * (m + (-3 if m > 2 else 9)) + 2) // 5 + d - 1
    doe = yoe * 365 + yoe // 4 - yoe // 100 + doy
    return era * 146097 + doe - 719468


def frac_text(fr: Fraction) -> str:
    return f'{fr.numerator}/{fr.denominator}'


def cps(s: str) -> str:
    return '.'.join(str(ord(c)) for c in s)


def duration_rep(text: str):
    """(months, microseconds) of an xs:duration lexical form, independently of elementpath"""
    import re
    m = re.fullmatch(r'(-)?P(?:(\d+)Y)?(?:(\d+)M)?(?:(\d+)D)?(?:T(?:(\d+)H)?(?:(\d+)M)?(?:(\d+(?:\.\d+)?)S)?)?', text)
    sign = -1 if m.group(1) else 1
    y, mo, d, h, mi = (int(m.group(i) or 0) for i in range(2, 7))
    sec = Fraction(m.group(7) or 0)
    months = y * 12 + mo
    micro = int((((d * 24 + h) * 60 + mi) * 60 + sec) * 1000000)
    return sign * months, sign * micro


def opq_text(tag: int, rep) -> str:
    return f'o{tag}_' + '.'.join(str(int(x)) for x in rep)


def key_proto(k) -> str:
    kind, p = k
    if kind == 'q':
        return opq_text(1, [ord(c) for c in '{%s}%s' % (p[0], p[1])])
    if kind == 'r':
        return opq_text(2, duration_rep(p[1]))
    if kind == 'x':
        return opq_text(3, bytes.fromhex(p))
    if kind == 'y':
        import base64
        return opq_text(4, base64.b64decode(p))
    if kind == 'i':
        return f'i{p}'
    if kind == 'd':
        return 'd' + frac_text(Fraction(Decimal(p)))
    if kind == 'f':
        if p == 'NaN':
            return 'fn'
        if p == 'INF':
            return 'fp'
        if p == '-INF':
            return 'fm'
        x = float(p)
        if x == 0 and str(x).startswith('-'):
            return 'fz'
        return 'f' + frac_text(Fraction(x))
    if kind == 's':
        return 's' + cps(p)
    if kind == 'u':
        return 'u' + cps(p)
    if kind == 'a':
        return 'n' + cps(p)
    if kind == 'b':
        return 'b1' if p else 'b0'
    if kind == 't':
        y, m, d, tz = p
        utc = days_from_civil(y, m, d) * 1440 - (tz or 0)
        return f't{y}_{utc}_{"n" if tz is None else tz}'
    raise ValueError(k)


def xq_string(s: str) -> str:
    return "'" + s.replace("'", "''") + "'"


def key_xpath(k) -> str:
    kind, p = k
    if kind == 'q':
        return f"QName({xq_string(p[0])}, {xq_string((p[2] + ':' if p[2] else '') + p[1])})"
    if kind == 'r':
        return f'xs:{p[0]}({xq_string(p[1])})'
    if kind == 'x':
        return f'xs:hexBinary({xq_string(p)})'
    if kind == 'y':
        return f'xs:base64Binary({xq_string(p)})'
    if kind == 'i':
        return str(p) if p >= 0 else f'xs:integer({xq_string(str(p))})'
    if kind == 'd':
        return p if ('.' in p and not p.startswith('-')) else f'xs:decimal({xq_string(p)})'
    if kind == 'f':
        return f'xs:double({xq_string(p)})'
    if kind == 's':
        return xq_string(p)
    if kind == 'u':
        return f'xs:anyURI({xq_string(p)})'
    if kind == 'a':
        return f'xs:untypedAtomic({xq_string(p)})'
    if kind == 'b':
        return 'true()' if p else 'false()'
    if kind == 't':
        y, m, d, tz = p
        z = ''
        if tz is not None:
            z = 'Z' if tz == 0 else '%s%02d:%02d' % ('+' if tz > 0 else '-', abs(tz) // 60, abs(tz) % 60)
        return f"xs:date('{y:04d}-{m:02d}-{d:02d}{z}')"
    raise ValueError(k)


def atom_text(x) -> str:
    """canonical text of an atomic value coming out of the implementation"""
    import math
    from elementpath.datatypes import AnyURI, Date10, AbstractQName, Duration, HexBinary, Base64Binary, \
        UntypedAtomic
    if isinstance(x, UntypedAtomic):
        return 'n' + cps(x.value)
    if isinstance(x, AbstractQName):
        return opq_text(1, [ord(c) for c in '{%s}%s' % (x.namespace or '', x.local_name)])
    if isinstance(x, Duration):
        return opq_text(2, [x.months, int(Fraction(x.seconds) * 1000000)])
    if isinstance(x, HexBinary):
        return opq_text(3, x.decode())
    if isinstance(x, Base64Binary):
        return opq_text(4, x.decode())
    if isinstance(x, bool):
        return 'b1' if x else 'b0'
    if isinstance(x, int):
        return f'i{x}'
    if isinstance(x, Decimal):
        return 'd' + frac_text(Fraction(x))
    if isinstance(x, float):
        if type(x) is not float:
            return f'?{type(x).__name__}:{x!r}'
        if math.isnan(x):
            return 'fn'
        if math.isinf(x):
            return 'fp' if x > 0 else 'fm'
        if x == 0 and math.copysign(1.0, x) < 0:
            return 'fz'
        return 'f' + frac_text(Fraction(x))
    if isinstance(x, str):
        return 's' + cps(x)
    if isinstance(x, AnyURI):
        return 'u' + cps(x.value)
    if isinstance(x, Date10):
        tz = None
        if x.tzinfo is not None:
            tz = int(x.tzinfo.utcoffset(None).total_seconds() // 60)
        y = x.year
        utc = days_from_civil(y, x.month, x.day) * 1440 - (tz or 0)
        return f't{y}_{utc}_{"n" if tz is None else tz}'
    return f'?{type(x).__name__}'


# ----------------------------------------------------------------------- printing impl values
MAXDEPTH = 40
MAXNODES = 60000          # per re-observation of all values; a cyclic or exploding structure is cut


class TooBig(Exception):
    pass


_budget = [0]


def show_item(x, sort: bool, depth: int = 0) -> str:
    from elementpath.xpath_tokens import XPathMap, XPathArray
    if depth > MAXDEPTH:
        return 'CYCLE'
    _budget[0] -= 1
    if _budget[0] < 0:
        raise TooBig()
    if isinstance(x, XPathMap):
        parts = [atom_text(k) + '=' + show_seq(v, sort, depth + 1) for k, v in x.items()]
        return '{' + ','.join(sorted(parts) if sort else parts) + '}'
    if isinstance(x, XPathArray):
        return '[' + ','.join(show_seq(m, sort, depth + 1) for m in x.items()) + ']'
    if isinstance(x, (list, tuple)):
        return 'NESTED' + show_seq(x, sort, depth + 1)
    if x is None:
        return 'NONE'
    return atom_text(x)


def show_seq(v, sort: bool, depth: int = 0) -> str:
    if depth > MAXDEPTH:
        return 'CYCLE'
    items = list(v) if isinstance(v, (list, tuple)) else [v]
    return '(' + ','.join(show_item(x, sort, depth + 1) for x in items) + ')'


def show_val(v, sort: bool, ordering: str) -> str:
    from elementpath.xpath_tokens import XPathArray
    if not sort or ordering == 'ordered':
        return show_seq(v, sort)
    items = list(v) if isinstance(v, (list, tuple)) else [v]
    if ordering == 'freeSeq':
        return '(' + ','.join(sorted(show_item(x, True, 1) for x in items)) + ')'
    if len(items) == 1 and isinstance(items[0], XPathArray):
        return '([' + ','.join(sorted(show_seq(m, True, 2) for m in items[0].items())) + '])'
    return show_seq(v, True)


# ------------------------------------------------------------------------------------- ops
# op = (name, args...)   variables are ints (index of an earlier step)
POLICY_XP = {'first': 'use-first', 'last': 'use-last', 'any': 'use-any', 'reject': 'reject',
             'combine': 'combine', 'bad': 'use-none'}


def v(i: int) -> str:
    return f'$v{i}'


def op_xpath(op) -> str:
    n = op[0]
    if n == 'seq':
        return '(' + ', '.join(v(a) if isinstance(a, int) else key_xpath(a) for a in op[1]) + ')'
    if n == 'mctor':
        return 'map{' + ', '.join(f'{key_xpath(k)}: {v(i)}' for k, i in op[1]) + '}'
    if n == 'mput':
        return f'map:put({v(op[1])}, {key_xpath(op[2])}, {v(op[3])})'
    if n == 'mremove':
        return f'map:remove({v(op[1])}, ({", ".join(key_xpath(k) for k in op[2])}))'
    if n == 'mget':
        return f'map:get({v(op[1])}, {key_xpath(op[2])})'
    if n == 'mcontains':
        return f'map:contains({v(op[1])}, {key_xpath(op[2])})'
    if n == 'msize':
        return f'map:size({v(op[1])})'
    if n == 'mkeys':
        return f'map:keys({v(op[1])})'
    if n == 'mentry':
        return f'map:entry({key_xpath(op[1])}, {v(op[2])})'
    if n == 'mmerge':
        if op[2] == 'default':
            return f'map:merge({v(op[1])})'
        return f"map:merge({v(op[1])}, map{{'duplicates': '{POLICY_XP[op[2]]}'}})"
    if n == 'mfind':
        return f'map:find({v(op[1])}, {key_xpath(op[2])})'
    if n == 'mforeach':
        return f'map:for-each({v(op[1])}, function($kk, $vv) {{ [$kk, $vv] }})'
    if n == 'lookup':
        if op[2] == '*':
            return f'{v(op[1])}?*'
        ks = op[2]
        if len(op) > 3 and op[3] == 'unary':
            # unary lookup with the context item set by the simple map operator
            return f'{v(op[1])} ! ?({", ".join(key_xpath(k) for k in ks)})'
        if len(ks) == 1 and len(op) > 3 and op[3] == 'short':
            k = ks[0]
            if k[0] == 'i' and k[1] >= 0:
                return f'{v(op[1])}?{k[1]}'
            if k[0] == 's' and k[1].isalpha() and k[1].isascii():
                return f'{v(op[1])}?{k[1]}'
        return f'{v(op[1])}?({", ".join(key_xpath(k) for k in ks)})'
    if n == 'asquare':
        return '[' + ', '.join(v(i) for i in op[1]) + ']'
    if n == 'acurly':
        return f'array{{{v(op[1])}}}'
    if n == 'aget':
        return f'array:get({v(op[1])}, {op[2]})'
    if n == 'aput':
        return f'array:put({v(op[1])}, {op[2]}, {v(op[3])})'
    if n == 'ainsert':
        return f'array:insert-before({v(op[1])}, {op[2]}, {v(op[3])})'
    if n == 'aappend':
        return f'array:append({v(op[1])}, {v(op[2])})'
    if n == 'aremove':
        return f'array:remove({v(op[1])}, ({", ".join(str(p) for p in op[2])}))'
    if n == 'asub':
        if op[3] is None:
            return f'array:subarray({v(op[1])}, {op[2]})'
        return f'array:subarray({v(op[1])}, {op[2]}, {op[3]})'
    if n in ('ahead', 'atail', 'areverse', 'ajoin', 'aflatten', 'asize', 'asort'):
        return f'array:{n[1:]}({v(op[1])})'
    if n == 'afe':
        return f'array:for-each({v(op[1])}, {fn1_xpath(op[2])})'
    if n == 'afl':
        return f'array:filter({v(op[1])}, {PRED_XP[op[2]]})'
    if n == 'afoldl':
        return f'array:fold-left({v(op[1])}, {v(op[2])}, {FN2_XP[op[3]]})'
    if n == 'afoldr':
        # array:fold-right calls f(member, accumulator): first parameter = the member
        return f'array:fold-right({v(op[1])}, {v(op[2])}, {FN2_XP[op[3]]})'
    if n == 'apair':
        return f'array:for-each-pair({v(op[1])}, {v(op[2])}, {FN2_XP[op[3]]})'
    if n == 'mfe':
        return f'map:for-each({v(op[1])}, {FN2_XP[op[2]]})'
    if n == 'deq':
        return f'deep-equal({v(op[1])}, {v(op[2])})'
    if n == 'call':
        # op = ('call', f, k, form, base): `$f(K)` with K computed from $k; base = text of the function
        base = op[4] if len(op) > 4 and op[4] else v(op[1])
        return f'{base}({CALL_FORMS[op[3]].format(k=v(op[2]))})'
    if n == 'call2':
        return f'{v(op[1])}({v(op[2])})({CALL_FORMS[op[4] if len(op) > 4 else "var"].format(k=v(op[3]))})'
    raise ValueError(op)


# how the argument of a dynamic call is computed from the key variable; the first two take the first item
CALL_FORMS = {'pred': '({k})[1]', 'head': 'head({k})', 'var': '{k}', 'paren': '(({k}))',
              'for': 'for $xx in {k} return $xx', 'lookup': "map{{'kk': {k}}}?kk", 'if': 'if (true()) then {k} else ()',
              'let': 'let $yy := {k} return $yy', 'bang': '{k} ! .', 'filter': '({k})[true()]'}
CALL_FIRST = ('pred', 'head')


PRED_XP = {'t': 'function($xx) { true() }', 'f': 'function($xx) { false() }',
           'ne': 'function($xx) { exists($xx) }', 'one': 'function($xx) { count($xx) = 1 }',
           'nb': 'function($xx) { count($xx) }'}
FN2_XP = {'cat': 'function($aa, $bb) { ($aa, $bb) }', 'rcat': 'function($aa, $bb) { ($bb, $aa) }',
          'l': 'function($aa, $bb) { $aa }', 'r': 'function($aa, $bb) { $bb }',
          'cntr': 'function($aa, $bb) { count($bb) }'}


def fn1_xpath(f) -> str:
    if f == 'id':
        return 'function($xx) { $xx }'
    if f == 'dup':
        return 'function($xx) { ($xx, $xx) }'
    if f == 'cnt':
        return 'function($xx) { count($xx) }'
    return 'function($xx) { %s }' % key_xpath(f[1])          # ('c', key)


def fn1_proto(f) -> str:
    return f if isinstance(f, str) else 'c:' + key_proto(f[1])


def op_proto(op) -> str:
    n = op[0]

    def var(i):
        return f'${i}'
    if n == 'seq':
        return 'seq,' + '+'.join(var(a) if isinstance(a, int) else key_proto(a) for a in op[1])
    if n == 'mctor':
        return 'mctor,' + '+'.join(f'{key_proto(k)}:{var(i)}' for k, i in op[1])
    if n == 'mput':
        return f'mput,{var(op[1])},{key_proto(op[2])},{var(op[3])}'
    if n == 'mremove':
        return f'mremove,{var(op[1])},' + '+'.join(key_proto(k) for k in op[2])
    if n in ('mget', 'mcontains', 'mfind'):
        return f'{n},{var(op[1])},{key_proto(op[2])}'
    if n in ('msize', 'mkeys', 'mforeach', 'acurly', 'ahead', 'atail', 'areverse', 'ajoin', 'aflatten', 'asize',
             'asort'):
        return f'{n},{var(op[1])}'
    if n == 'mentry':
        return f'mentry,{key_proto(op[1])},{var(op[2])}'
    if n == 'mmerge':
        return f'mmerge,{var(op[1])},{op[2]}'
    if n == 'lookup':
        return f'lookup,{var(op[1])},' + ('*' if op[2] == '*' else '+'.join(key_proto(k) for k in op[2]))
    if n == 'asquare':
        return 'asquare,' + '+'.join(var(i) for i in op[1])
    if n == 'aget':
        return f'aget,{var(op[1])},{op[2]}'
    if n in ('aput', 'ainsert'):
        return f'{n},{var(op[1])},{op[2]},{var(op[3])}'
    if n == 'aappend':
        return f'aappend,{var(op[1])},{var(op[2])}'
    if n == 'aremove':
        return f'aremove,{var(op[1])},' + '+'.join(str(p) for p in op[2])
    if n == 'asub':
        return f'asub,{var(op[1])},{op[2]}' + ('' if op[3] is None else f',{op[3]}')
    if n == 'afe':
        return f'afe,{var(op[1])},{fn1_proto(op[2])}'
    if n == 'afl':
        return f'afl,{var(op[1])},{op[2]}'
    if n in ('afoldl', 'afoldr', 'apair'):
        return f'{n},{var(op[1])},{var(op[2])},{op[3]}'
    if n == 'mfe':
        return f'mfe,{var(op[1])},{op[2]}'
    if n == 'deq':
        return f'deq,{var(op[1])},{var(op[2])}'
    if n == 'call':
        return f'call,{var(op[1])},{var(op[2])},{1 if op[3] in CALL_FIRST else 0}'
    if n == 'call2':
        return f'call2,{var(op[1])},{var(op[2])},{var(op[3])}'
    raise ValueError(op)


def op_ordering(op) -> str:
    if op[0] in ('mkeys', 'mforeach', 'mfe') or (op[0] == 'lookup' and op[2] == '*'):
        return 'freeSeq'
    if op[0] == 'mfind':
        return 'freeArr'
    return 'ordered'


def line_of(ops, alias=False) -> str:
    return f'A={1 if alias else 0} OPS=' + ';'.join(op_proto(o) for o in ops)


# ------------------------------------------------------------------------ the implementation
_PARSER = None
_ROOT = None


def _setup():
    global _PARSER, _ROOT
    if _PARSER is None:
        from elementpath.xpath31 import XPath31Parser
        import xml.etree.ElementTree as ET
        _PARSER = XPath31Parser
        _ROOT = ET.XML('<r/>')


def err_text(e: BaseException) -> str:
    from elementpath.exceptions import ElementPathError
    if isinstance(e, ElementPathError) and getattr(e, 'code', None):
        return 'ERR:' + str(e.code).split(':')[-1]
    return f'ERR:OTHER:{type(e).__name__}'



# ------------------------------------------------------------- call-site reuse (templates)
# In "reuse" mode every step is evaluated through ONE parsed token per expression shape, shared by
# all histories of the run: operands, keys, positions and option values are passed as variables.
# A function that keeps anything of one evaluation on its token shows up as a wrong later result.
_TOKENS: dict = {}
_KEYOBJ: dict = {}


def key_object(k):
    """the Python value of a key literal (evaluated once through the real parser)"""
    _setup()
    if k not in _KEYOBJ:
        from elementpath import XPathContext
        _KEYOBJ[k] = _PARSER().parse(key_xpath(k)).evaluate(XPathContext(_ROOT))
    return _KEYOBJ[k]


def op_template(op):
    """(expression with variables, bindings as a function of the history's values)"""
    n = op[0]
    b = {}

    def P(i):
        name = f'p{len([x for x in b if x[0] == "p"])}'
        b[name] = ('var', i)
        return '$' + name

    def K(k):
        name = f'k{len([x for x in b if x[0] == "k"])}'
        b[name] = ('key', k)
        return '$' + name

    def KS(ks):
        name = f'q{len([x for x in b if x[0] == "q"])}'
        b[name] = ('keys', list(ks))
        return '$' + name

    def N(x):
        name = f'n{len([x for x in b if x[0] == "n"])}'
        b[name] = ('raw', x)
        return '$' + name
    if n == 'seq':
        e = '(' + ', '.join(P(a) if isinstance(a, int) else K(a) for a in op[1]) + ')'
    elif n == 'mctor':
        e = 'map{' + ', '.join(f'{K(k)}: {P(i)}' for k, i in op[1]) + '}'
    elif n == 'mput':
        e = f'map:put({P(op[1])}, {K(op[2])}, {P(op[3])})'
    elif n == 'mremove':
        e = f'map:remove({P(op[1])}, {KS(op[2])})'
    elif n in ('mget', 'mcontains', 'mfind'):
        e = f'map:{n[1:]}({P(op[1])}, {K(op[2])})'
    elif n in ('msize', 'mkeys'):
        e = f'map:{n[1:]}({P(op[1])})'
    elif n == 'mentry':
        e = f'map:entry({K(op[1])}, {P(op[2])})'
    elif n == 'mmerge':
        e = f'map:merge({P(op[1])})' if op[2] == 'default' else \
            f"map:merge({P(op[1])}, map{{'duplicates': {N(POLICY_XP[op[2]])}}})"
    elif n == 'mforeach':
        e = f'map:for-each({P(op[1])}, function($kk, $vv) {{ [$kk, $vv] }})'
    elif n == 'lookup':
        if op[2] == '*':
            e = f'{P(op[1])}?*'
        elif len(op) > 3 and op[3] == 'unary':
            e = f'{P(op[1])} ! ?({KS(op[2])})'
        else:
            e = f'{P(op[1])}?({KS(op[2])})'
    elif n == 'asquare':
        e = '[' + ', '.join(P(i) for i in op[1]) + ']'
    elif n == 'acurly':
        e = f'array{{{P(op[1])}}}'
    elif n == 'aget':
        e = f'array:get({P(op[1])}, {N(op[2])})'
    elif n == 'aput':
        e = f'array:put({P(op[1])}, {N(op[2])}, {P(op[3])})'
    elif n == 'ainsert':
        e = f'array:insert-before({P(op[1])}, {N(op[2])}, {P(op[3])})'
    elif n == 'aappend':
        e = f'array:append({P(op[1])}, {P(op[2])})'
    elif n == 'aremove':
        e = f'array:remove({P(op[1])}, {N(list(op[2]))})'
    elif n == 'asub':
        e = f'array:subarray({P(op[1])}, {N(op[2])})' if op[3] is None else \
            f'array:subarray({P(op[1])}, {N(op[2])}, {N(op[3])})'
    elif n in ('ahead', 'atail', 'areverse', 'ajoin', 'aflatten', 'asize', 'asort'):
        e = f'array:{n[1:]}({P(op[1])})'
    elif n == 'afe':
        f = op[2]
        fx = fn1_xpath(f) if isinstance(f, str) else 'function($xx) { %s }' % K(f[1])
        e = f'array:for-each({P(op[1])}, {fx})'
    elif n == 'afl':
        e = f'array:filter({P(op[1])}, {PRED_XP[op[2]]})'
    elif n == 'afoldl':
        e = f'array:fold-left({P(op[1])}, {P(op[2])}, {FN2_XP[op[3]]})'
    elif n == 'afoldr':
        e = f'array:fold-right({P(op[1])}, {P(op[2])}, {FN2_XP[op[3]]})'
    elif n == 'apair':
        e = f'array:for-each-pair({P(op[1])}, {P(op[2])}, {FN2_XP[op[3]]})'
    elif n == 'mfe':
        e = f'map:for-each({P(op[1])}, {FN2_XP[op[2]]})'
    elif n == 'deq':
        e = f'deep-equal({P(op[1])}, {P(op[2])})'
    elif n == 'call':
        f = P(op[1])
        e = f'{f}({CALL_FORMS[op[3]].format(k=P(op[2]))})'
    elif n == 'call2':
        t = P(op[1])
        k1 = P(op[2])
        e = f'{t}({k1})({CALL_FORMS[op[4] if len(op) > 4 else "var"].format(k=P(op[3]))})'
    else:
        raise ValueError(op)
    return e, b


def bind(b, values):
    out = {}
    for name, (kind, x) in b.items():
        if kind == 'var':
            out[name] = values[x]
        elif kind == 'key':
            out[name] = key_object(x)
        elif kind == 'keys':
            out[name] = [key_object(k) for k in x]
        else:
            out[name] = x
    return out


def eval_template(op, values):
    from elementpath import XPathContext
    expr, b = op_template(op)
    tok = _TOKENS.get(expr)
    if tok is None:
        tok = _TOKENS[expr] = _PARSER().parse(expr)
    return tok.evaluate(XPathContext(_ROOT, variables=bind(b, values)))


# the same call site evaluated several times inside ONE expression: a `for` over alternative
# argument values, directly or through a named function reference (map:get#2 ...)
FUNREF = {'mget': 'map:get#2', 'mcontains': 'map:contains#2', 'mfind': 'map:find#2', 'mremove': 'map:remove#2',
          'aget': 'array:get#2', 'mmerge': 'map:merge#2'}
ALL_POLICIES = ['use-first', 'use-last', 'combine', 'use-any', 'reject']


def loop_reuse_check(rng_choice, op, values, alts) -> str:
    """`for $x in alts return [F(args with $x)]` must be the list of the single-call results
    (call_site_reuse_eq_map).  alts are Python values for the varying argument."""
    from elementpath import XPathContext
    n = op[0]
    useref = rng_choice and n in FUNREF
    call = FUNREF[n].split('#')[0] if n in FUNREF else ''
    if n == 'mmerge':
        body = f"{'$f' if useref else call}($p0, map{{'duplicates': $x}})"
    elif n in ('mget', 'mcontains', 'mfind', 'mremove', 'aget'):
        body = f"{'$f' if useref else call}($p0, $x)"
    elif n == 'mput':
        body = 'map:put($p0, $x, $p1)'
    elif n == 'aput':
        body = 'array:put($p0, $x, $p1)'
    elif n == 'lookup':
        body = '$p0?($x)'
    else:
        return 'ok'
    single_expr = body.replace('$f', call)
    loop_expr = ('let $f := ' + FUNREF[n] + ' return ' if useref else '') + f'for $x in $alts return [{body}]'
    base = {'p0': values[op[1]]}
    if n in ('mput', 'aput'):
        base['p1'] = values[op[3]]
    singles = []
    for a in alts:
        try:
            r = _PARSER().parse(single_expr).evaluate(XPathContext(_ROOT, variables=dict(base, x=a)))
            singles.append(('ok', show_seq([] if r is None else r, False)))
        except Exception as e:  # noqa
            singles.append((err_text(e), ''))
            break                      # the loop stops at the first error too
    try:
        r = _PARSER().parse(loop_expr).evaluate(XPathContext(_ROOT, variables=dict(base, alts=list(alts))))
        members = r if isinstance(r, list) else [r]
        got = [('ok', show_seq(m.items()[0] if len(m.items()) == 1 else 'BAD-MEMBER-COUNT', False)) for m in members]
    except Exception as e:  # noqa
        got = [(err_text(e), '')]
    want = singles if singles and singles[-1][0] == 'ok' else [singles[-1]]
    if got != want:
        return f'{loop_expr} with {len(alts)} alternatives: loop {got} single calls {want}'
    return 'ok'


class CaseTimeout(Exception):
    pass


def _alarm(signum, frame):
    raise CaseTimeout()


def run_impl(ops, seconds: int = 10, mode: str = 'literal'):
    """run_impl_inner under a watchdog: a history that does not finish (cyclic or exploding
    structure after an in-place mutation) is an observation, not a harness fault"""
    import signal
    old = signal.signal(signal.SIGALRM, _alarm)
    signal.alarm(seconds)
    try:
        return run_impl_inner(ops, mode)
    except CaseTimeout:
        return [('ERR:OTHER:Timeout', ['TIMEOUT'], ['TIMEOUT'], 'ok')] * len(ops)
    finally:
        signal.alarm(0)
        signal.signal(signal.SIGALRM, old)


LOOP_OPS = ('mmerge', 'mget', 'mcontains', 'mfind', 'mremove', 'aget', 'mput', 'aput', 'lookup')


def loop_alternatives(op):
    n = op[0]
    if n == 'mmerge':
        return list(ALL_POLICIES)
    if n in ('aget', 'aput'):
        return [op[2], 1, 2, 0, 3]
    if n == 'lookup':
        base = [] if op[2] == '*' else list(op[2][:1])
        return [key_object(k) for k in base + [('i', 1), ('s', 'a'), ('i', 2)]]
    k0 = op[2][0] if n == 'mremove' and op[2] else (op[2] if n != 'mremove' else ('i', 1))
    return [key_object(k) for k in [k0, ('i', 1), ('d', '1.0'), ('s', 'a'), ('f', 'NaN')]]


def lazy_token_check(op, expr, variables, res, status) -> str:
    """The constructor *token* itself offers keys()/items()/__call__ (maps) and items()/__call__
    (arrays) without being evaluated first (XPathMap._evaluate / XPathArray._evaluate).  They must
    give what evaluate() gives, and must not freeze the token: a later evaluate() with other
    bindings has to see the other bindings."""
    from elementpath import XPathContext
    tok = _PARSER().parse(expr)
    ctx = XPathContext(_ROOT, variables=variables)
    if op[0] == 'mctor':
        try:
            pairs = list(tok.items(ctx))
            keys = list(tok.keys(ctx))
        except Exception as e:  # noqa
            return 'ok' if err_text(e) == status else f'items() raised {err_text(e)}, evaluate gave {status}'
        if status != 'ok':
            return f'items() succeeded, evaluate gave {status}'
        lazy = '{' + ','.join(atom_text(k) + '=' + show_seq(v, False) for k, v in pairs) + '}'
        eager = show_item(res, False)
        if lazy != eager:
            return f'items(): {lazy} evaluate: {eager}'
        if [atom_text(k) for k in keys] != [atom_text(k) for k, _ in pairs]:
            return 'keys() differ from items()'
        for k, val in pairs:
            if show_seq(tok(k, context=ctx), False) != show_seq(val, False):
                return f'token({atom_text(k)}) differs from items()'
        # second evaluation of the same token with every variable bound to the empty sequence
        ctx2 = XPathContext(_ROOT, variables={n: [] for n in variables})
        again = tok.evaluate(ctx2)
        expect = '{' + ','.join(atom_text(k) + '=()' for k, _ in pairs) + '}'
        if show_item(again, False) != expect:
            return f'after items(), evaluate with empty bindings gave {show_item(again, False)}'
        return 'ok'
    try:
        members = list(tok.items(ctx))
    except Exception as e:  # noqa
        return 'ok' if err_text(e) == status else f'items() raised {err_text(e)}, evaluate gave {status}'
    if status != 'ok':
        return f'items() succeeded, evaluate gave {status}'
    lazy = '[' + ','.join(show_seq(m, False) for m in members) + ']'
    eager = show_item(res, False)
    if lazy != eager:
        return f'items(): {lazy} evaluate: {eager}'
    for i, m in enumerate(members, 1):
        if show_seq(tok(i, context=ctx), False) != show_seq(m, False):
            return f'token({i}) differs from items()'
    ctx2 = XPathContext(_ROOT, variables={n: [] for n in variables})
    if op[0] == 'asquare':
        expect = '[' + ','.join('()' for _ in members) + ']'
        if show_item(tok.evaluate(ctx2), False) != expect:
            return 'after items(), evaluate with empty bindings kept the old members'
    return 'ok'


def run_impl_inner(ops, mode: str = 'literal'):
    """evaluate the history with the real code; returns per step (status, [raw prints], [sorted prints])"""
    _setup()
    from elementpath import XPathContext
    values = []
    orderings = []
    out = []
    for op in ops:
        expr = op_xpath(op)
        variables = {f'v{i}': val for i, val in enumerate(values)}
        try:
            if mode == 'reuse':
                res = eval_template(op, values)
            else:
                token = _PARSER().parse(expr)
                res = token.evaluate(XPathContext(_ROOT, variables=variables))
            if res is None:
                res = []
            status = 'ok'
        except RecursionError:
            res, status = [], 'ERR:OTHER:RecursionError'
        except Exception as e:  # noqa -- everything the implementation raises is an observation
            res, status = [], err_text(e)
        lazy = 'ok'
        if mode == 'reuse' and op[0] in LOOP_OPS and (len(out) * 7 + len(ops)) % 3 == 0:
            try:
                lazy = loop_reuse_check((len(out) + len(ops)) % 2 == 0, op, values, loop_alternatives(op))
            except RecursionError:
                lazy = 'RecursionError'
            except Exception as e:  # noqa
                lazy = 'loop:' + err_text(e)
        elif mode != 'reuse' and op[0] in ('mctor', 'asquare', 'acurly'):
            try:
                lazy = lazy_token_check(op, expr, variables, res, status)
            except RecursionError:
                lazy = 'RecursionError'
            except Exception as e:  # noqa
                lazy = 'lazy:' + err_text(e)
        values.append(res)
        orderings.append(op_ordering(op))
        try:
            _budget[0] = MAXNODES
            raw = [show_val(x, False, o) for x, o in zip(values, orderings)]
            _budget[0] = MAXNODES
            srt = [show_val(x, True, o) for x, o in zip(values, orderings)]
        except (RecursionError, TooBig):
            raw = srt = ['CYCLE-OR-TOO-BIG'] * len(values)
        except Exception as e:  # noqa
            raw = srt = [f'ERR:OTHER:{type(e).__name__}'] * len(values)
        out.append((status, raw, srt, lazy))
    return out


# ----------------------------------------------------------------------------- generator
NUM_ONE = [('i', 1), ('d', '1.0'), ('f', '1'), ('d', '1')]
KEY_POOLS = {
    'num': [('i', 0), ('i', 1), ('i', 2), ('i', -3), ('d', '1.0'), ('d', '0.1'), ('d', '2.50'), ('d', '0'),
            ('f', '1'), ('f', '0.1'), ('f', '2.5'), ('f', '-0.0'), ('f', '0'), ('f', '1e20'),
            ('i', 100000000000000000000), ('f', '-3'), ('i', 9007199254740993), ('f', '9007199254740992')],
    'special': [('f', 'NaN'), ('f', 'INF'), ('f', '-INF'), ('f', '-0.0')],
    'str': [('s', 'a'), ('s', 'b'), ('s', ''), ('s', 'ab'), ('u', 'a'), ('u', 'b'), ('u', ''), ('s', 'é'),
            ('s', '1'), ('s', 'true'), ('u', 'http://x/y'), ('a', 'a'), ('a', '1'), ('a', 'true'), ('a', ''),
            ('a', '2000-01-01'), ('a', 'b')],
    'bool': [('b', True), ('b', False)],
    'date': [('t', (2000, 1, 1, None)), ('t', (2000, 1, 1, 0)), ('t', (2000, 1, 1, 60)),
             ('t', (2000, 1, 2, 840)), ('t', (2000, 1, 1, -600)), ('t', (1999, 12, 31, None)),
             ('t', (2000, 1, 2, None))],
}
KEY_POOLS['opq'] = [('q', ('u', 'a', '')), ('q', ('u', 'a', 'p')), ('q', ('v', 'a', '')), ('q', ('u', 'b', '')),
                    ('r', ('dayTimeDuration', 'PT24H')), ('r', ('duration', 'P1D')),
                    ('r', ('yearMonthDuration', 'P12M')), ('r', ('duration', 'P1Y')),
                    ('r', ('dayTimeDuration', 'PT0S')), ('r', ('yearMonthDuration', 'P0M')),
                    ('r', ('duration', 'P1DT0.5S')), ('x', '00FF'), ('x', '00ff'), ('x', ''), ('x', '61'),
                    ('y', 'AP8='), ('y', ''), ('y', 'YQ==')]
# hexBinary against base64Binary with the same octets (F15k), integers beyond 2^53 against doubles (F15m)
CLASH_OPQ = [('y', 'AP8='), ('y', ''), ('y', 'YQ=='), ('x', '00FF'), ('x', ''), ('i', 9007199254740993),
             ('f', '9007199254740992')]
# pairs that hit the year-in-the-hash behaviour of dates (F15f) and boolean-as-integer (F15d) go to
# their own pools, drawn rarely
CLASH_DATES = [('t', (2000, 12, 31, -720)), ('t', (2001, 1, 1, 720))]


def gen_key(rng, flavour):
    r = rng.random()
    if flavour == 'clash' and r < 0.5:
        return rng.choice(KEY_POOLS['bool'] + [('i', 0), ('i', 1), ('f', '1'), ('d', '0')] + CLASH_DATES +
                          KEY_POOLS['date'] + CLASH_OPQ)
    if r > 0.94:
        return rng.choice(KEY_POOLS['opq'])
    if r < 0.40:
        return rng.choice(KEY_POOLS['num'])
    if r < 0.50:
        return rng.choice(KEY_POOLS['special'])
    if r < 0.75:
        return rng.choice(KEY_POOLS['str'])
    if r < 0.85:
        return rng.choice(KEY_POOLS['bool'] + [('s', 'k'), ('i', 7), ('i', 1), ('i', 0)])
    if r < 0.93:
        if flavour in ('dates-naive', 'dates-aware', 'clash'):
            return rng.choice(KEY_POOLS['date'] + CLASH_DATES)
        return rng.choice(KEY_POOLS['num'])
    return rng.choice([('i', rng.randrange(-2, 6)), ('s', rng.choice('abc')), ('d', str(rng.randrange(0, 4)) + '.0')])


class Gen:
    """builds a history; tracks the *intended* type of each variable so that most operations are
    type-correct (a small rate of ill-typed operands exercises the XPTY0004 paths)"""

    def __init__(self, rng, quick=True):
        self.rng = rng
        self.ops = []
        self.types = []     # 'map' | 'arr' | 'seq' | 'maps' | 'arrs' | 'free'
        self.sizes = []
        r = rng.random()
        self.flavour = ('clash' if r < 0.06 else 'dates-naive' if r < 0.26 else 'dates-aware' if r < 0.46
                        else 'plain')
        self.maxlen = 15

    def key(self):
        return gen_key(self.rng, self.flavour)

    def pick(self, *kinds, default=None):
        c = [i for i, t in enumerate(self.types) if t in kinds]
        if not c:
            return default
        # prefer recent values, but old ones must be revisited (aliasing needs an old operand)
        return self.rng.choice(c[-4:]) if self.rng.random() < 0.6 else self.rng.choice(c)

    def any_value(self):
        c = [i for i, t in enumerate(self.types) if t not in ('free',)]
        return self.rng.choice(c) if c else None

    LIMIT = 300

    def est(self, op) -> int:
        """upper estimate of the number of leaves of the result (keeps deep prints small)"""
        sz = self.sizes
        n = op[0]
        if n == 'seq':
            return sum(sz[a] if isinstance(a, int) else 1 for a in op[1])
        if n == 'mctor':
            return sum(sz[i] + 1 for _, i in op[1])
        if n == 'mput':
            return sz[op[1]] + sz[op[3]] + 1
        if n == 'mentry':
            return sz[op[2]] + 1
        if n in ('mcontains', 'msize', 'asize'):
            return 1
        if n == 'mfind':
            return sz[op[1]] * 3 + 1
        if n == 'mforeach':
            return sz[op[1]] * 2 + 1
        if n == 'lookup':
            return sz[op[1]] * (1 if op[2] == '*' else len(op[2])) + 1
        if n == 'asquare':
            return sum(sz[i] for i in op[1]) + 1
        if n in ('aput', 'ainsert'):
            return sz[op[1]] + sz[op[3]] + 1
        if n in ('aappend', 'afoldl', 'afoldr', 'apair'):
            return sz[op[1]] + sz[op[2]] + 1
        if n == 'afe':
            return 2 * sz[op[1]] + 1
        if n == 'deq':
            return 1
        if n == 'call2':
            return sz[op[1]] + 1
        return sz[op[1]] + 1

    def add(self, op, typ):
        e = self.est(op)
        if e > self.LIMIT:
            op, typ, e = ('seq', [self.key()]), 'seq', 1
        self.ops.append(op)
        self.types.append(typ)
        self.sizes.append(e)

    def step(self):
        rng = self.rng
        n = len(self.ops)
        if n == 0 or rng.random() < 0.10:
            parts = []
            for _ in range(rng.choice([0, 1, 1, 2, 3])):
                if self.types and rng.random() < 0.35:
                    a = self.any_value()
                    if a is not None:
                        parts.append(a)
                        continue
                parts.append(self.key())
            ts = {self.types[a] for a in parts if isinstance(a, int)}
            lits = any(not isinstance(a, int) for a in parts)
            typ = 'seq'
            if parts and not lits and ts <= {'map', 'maps'}:
                typ = 'maps'
            elif parts and not lits and ts <= {'arr', 'arrs'}:
                typ = 'arrs'
            return self.add(('seq', parts), typ)
        val = self.any_value()
        m = self.pick('map')
        a = self.pick('arr')
        choices = ['mctor', 'mentry', 'asquare', 'acurly']
        if m is not None:
            choices += ['mput', 'mput', 'mremove', 'mget', 'mcontains', 'msize', 'mkeys', 'mforeach', 'mmerge',
                        'mmerge', 'mfind', 'lookup']
        if a is not None:
            choices += ['aget', 'aput', 'aput', 'ainsert', 'aappend', 'aappend', 'aremove', 'asub', 'ahead',
                        'atail', 'areverse', 'ajoin', 'aflatten', 'asize', 'lookup', 'afe', 'afl', 'afoldl', 'afoldr',
                        'apair']
        if m is not None:
            choices += ['mfe']
        choices += ['deq', 'deq']
        if m is not None or a is not None:
            choices += ['call', 'call', 'call', 'call2']
        choices += ['asort']
        c = rng.choice(choices)
        bad = rng.random() < 0.03        # ill-typed operand
        if c == 'mctor':
            es = [(self.key(), self.any_value()) for _ in range(rng.choice([0, 1, 2, 2, 3, 4]))]
            return self.add(('mctor', es), 'map')
        if c == 'mentry':
            return self.add(('mentry', self.key(), val), 'map')
        if c == 'asquare':
            return self.add(('asquare', [self.any_value() for _ in range(rng.choice([0, 1, 2, 3, 4]))]), 'arr')
        if c == 'acurly':
            return self.add(('acurly', val), 'arr')
        mm = val if bad else m
        aa = val if bad else a
        if c == 'deq':
            return self.gen_deq()
        if c in ('call', 'call2'):
            return self.gen_call(c, m, a, val, bad)
        if c == 'asort':
            return self.gen_sort()
        if c == 'afe':
            f = rng.choice(['id', 'dup', 'cnt', ('c', self.key())])
            return self.add(('afe', aa, f), 'arr')
        if c == 'afl':
            return self.add(('afl', aa, rng.choice(['t', 'f', 'ne', 'ne', 'one', 'one', 'nb'])), 'arr')
        if c in ('afoldl', 'afoldr'):
            return self.add((c, aa, val, rng.choice(['cat', 'rcat', 'l', 'r', 'cntr', 'cat'])), 'seq')
        if c == 'apair':
            return self.add(('apair', aa, self.pick('arr'), rng.choice(['cat', 'rcat', 'l', 'r', 'cntr'])), 'arr')
        if c == 'mfe':
            return self.add(('mfe', mm, rng.choice(['cat', 'rcat', 'r', 'l', 'cntr'])), 'free')
        if c == 'mput':
            k = self.existing_key(m) if rng.random() < 0.5 else self.key()
            return self.add(('mput', mm, k, val), 'map')
        if c == 'mremove':
            ks = [self.existing_key(m) if rng.random() < 0.6 else self.key()
                  for _ in range(rng.choice([0, 1, 1, 2, 3]))]
            return self.add(('mremove', mm, ks), 'map')
        if c in ('mget', 'mcontains'):
            k = self.existing_key(m) if rng.random() < 0.6 else self.key()
            return self.add((c, mm, k), 'seq')
        if c == 'msize':
            return self.add((c, mm), 'seq')
        if c in ('mkeys', 'mforeach'):
            return self.add((c, mm), 'free')
        if c == 'mmerge':
            src = self.pick('maps', 'map')
            if rng.random() < 0.6 or src is None:
                # build a sequence of maps first
                ms = [self.pick('map') for _ in range(rng.choice([0, 1, 2, 2, 3]))]
                self.add(('seq', [x for x in ms if x is not None]), 'maps')
                src = len(self.ops) - 1
            pol = rng.choice(['default', 'first', 'last', 'any', 'reject', 'combine', 'combine', 'last', 'bad'])
            return self.add(('mmerge', src, pol), 'map')
        if c == 'mfind':
            k = self.existing_key(m) if rng.random() < 0.7 else self.key()
            return self.add(('mfind', val, k), 'free')
        if c == 'lookup':
            src = rng.choice([x for x in (m, a) if x is not None])
            if rng.random() < 0.45:
                # a SEQUENCE of maps / arrays as left operand: for each item, for each key
                xs = [self.pick('map', 'arr') for _ in range(rng.choice([2, 2, 3, 0, 1]))]
                if rng.random() < 0.1 and val is not None:
                    xs.append(val)                       # possibly an atom in between: XPTY0004
                self.add(('seq', [x for x in xs if x is not None]), 'mixed')
                src = len(self.ops) - 1
                ks = []
                for _ in range(rng.choice([1, 2, 2, 3])):
                    r = rng.random()
                    ks.append(('i', rng.randrange(0, 4)) if r < 0.5 else
                              self.existing_key(src) if r < 0.85 else self.key())
                if rng.random() < 0.15:
                    return self.add(('lookup', src, '*'), 'free')
                return self.add(('lookup', src, ks, rng.choice(['paren', 'paren', 'unary'])), 'seq')
            if rng.random() < 0.2:
                return self.add(('lookup', src, '*'), 'free' if self.types[src] == 'map' else 'seq')
            if self.types[src] == 'arr':
                ks = [('i', rng.randrange(0, 5)) for _ in range(rng.choice([1, 1, 2]))]
                if rng.random() < 0.08:
                    ks = [rng.choice([('b', True), ('b', False)])]    # a boolean is no position: XPTY0004
                elif rng.random() < 0.06:
                    ks = [rng.choice([('s', 'a'), ('d', '1.0'), ('f', '1')])]     # not an integer: XPTY0004
            else:
                ks = [self.existing_key(src) if rng.random() < 0.6 else self.key()
                      for _ in range(rng.choice([1, 1, 2]))]
            return self.add(('lookup', src, ks, rng.choice(['short', 'paren', 'paren', 'unary'])), 'seq')
        size = 4
        pos = rng.choice([1, 1, 2, 2, 3, 0, -1, 4, 5, rng.randrange(-1, size + 3)])
        if c == 'aget':
            return self.add(('aget', aa, pos), 'seq')
        if c in ('aput', 'ainsert'):
            return self.add((c, aa, pos, val), 'arr')
        if c == 'aappend':
            return self.add((c, aa, val), 'arr')
        if c == 'aremove':
            return self.add((c, aa, [rng.choice([1, 1, 2, 3, 0, 4, 5]) for _ in range(rng.choice([0, 1, 1, 2, 3]))]),
                            'arr')
        if c == 'asub':
            ln = rng.choice([None, None, 0, 1, 2, 3, -1])
            return self.add((c, aa, rng.choice([1, 1, 2, 3, 4, 0, 5, 6]), ln), 'arr')
        if c in ('ahead',):
            return self.add((c, aa), 'seq')
        if c in ('atail', 'areverse'):
            return self.add((c, aa), 'arr')
        if c == 'ajoin':
            src = self.pick('arrs', 'arr')
            if rng.random() < 0.6 or src is None:
                xs = [self.pick('arr') for _ in range(rng.choice([0, 1, 2, 2, 3]))]
                self.add(('seq', [x for x in xs if x is not None]), 'arrs')
                src = len(self.ops) - 1
            return self.add(('ajoin', val if bad else src), 'arr')
        if c == 'aflatten':
            return self.add(('aflatten', val), 'seq')
        if c == 'asize':
            return self.add((c, aa), 'seq')
        raise AssertionError(c)

    def gen_deq(self):
        """deep-equal of two values: the same value, two arbitrary ones, or a value and a *twin* rebuilt
        by the same operation with equal-but-different literals (1 / 1.0 / 1e0, 'a' / anyURI a, …)"""
        rng = self.rng
        x = self.any_value()
        if x is None:
            return self.add(('seq', [self.key()]), 'seq')
        r = rng.random()
        if r < 0.15:
            return self.add(('deq', x, x), 'seq')
        if r < 0.45:
            return self.add(('deq', x, self.any_value()), 'seq')
        op = self.ops[x]
        tw = twist_op(rng, op, self.flavour)
        self.add(tw, self.types[x])
        y = len(self.ops) - 1
        return self.add(('deq', x, y) if rng.random() < 0.5 else ('deq', y, x), 'seq')

    def gen_sort(self):
        """array:sort on the modelled fragment: members are sequences of numbers, or of strings
        (rarely mixed: XPTY0004); the array is built right before the sort"""
        rng = self.rng
        nums = [('i', 3), ('i', 1), ('i', 2), ('i', 0), ('i', -3), ('d', '1.5'), ('d', '1.0'), ('d', '0.1'), ('f', '2'),
                ('f', '-0.0'), ('f', '0.1'), ('f', '1e20'), ('i', 100000000000000000000), ('d', '2.50'), ('f', '2.5')]
        strs = [('s', 'a'), ('s', 'b'), ('s', ''), ('s', 'ab'), ('s', 'é'), ('s', 'B'), ('s', '1'), ('s', 'aa')]
        r = rng.random()
        pool = nums if r < 0.55 else strs if r < 0.93 else nums + strs
        members = []
        for _ in range(rng.choice([0, 1, 2, 3, 4, 5])):
            # mixed numbers and strings only with one-item members: then some comparison must meet a
            # number and a string whatever the sorting algorithm compares (deeper positions may stay unvisited)
            k = rng.choice([1, 1, 1, 1, 0, 2, 3]) if r < 0.93 else rng.choice([1, 1, 1, 0])
            self.add(('seq', [rng.choice(pool) for _ in range(k)]), 'seq')
            members.append(len(self.ops) - 1)
        if members and rng.random() < 0.3:
            members.append(rng.choice(members))           # ties: stability
        self.add(('asquare', members), 'arr')
        return self.add(('asort', len(self.ops) - 1), 'arr')

    def gen_call(self, c, m, a, val, bad):
        """`$f(K)`: a map or an array called as a function with a COMPUTED argument (never a literal)"""
        rng = self.rng
        f = rng.choice([x for x in (m, a) if x is not None])
        if bad:
            f = val

        def key_var(base):
            r = rng.random()
            n_items = 1 if r < 0.78 else 0 if r < 0.85 else 2
            ks = []
            for _ in range(n_items):
                if self.types[base] == 'arr':
                    ks.append(rng.choice([('i', rng.randrange(0, 4)), ('i', 1), ('i', 2), ('d', '1.0'), ('s', 'a'),
                                          ('b', True)]) if rng.random() < 0.3 else ('i', rng.randrange(1, 4)))
                else:
                    ks.append(self.existing_key(base) if rng.random() < 0.7 else self.key())
            if rng.random() < 0.04 and val is not None:
                ks.append(val)                           # possibly a map/array in the argument
            self.add(('seq', ks), 'seq')
            return len(self.ops) - 1
        if c == 'call2':
            inner = f
            tk = self.key()
            self.add(('mctor', [(tk, inner)]), 'map')
            t = len(self.ops) - 1
            self.add(('seq', [tk]), 'seq')
            k1 = len(self.ops) - 1
            k2 = key_var(inner)
            return self.add(('call2', t, k1, k2, rng.choice(['var', 'for', 'paren', 'lookup'])), 'seq')
        k = key_var(f)
        form = rng.choice(list(CALL_FORMS))
        base = None
        if (self.ops[f][0] == 'asquare' or (self.ops[f][0] == 'mctor' and len(self.ops[f][1]) <= 1)) \
                and rng.random() < 0.4:
            base = op_xpath(self.ops[f])                # `map{...}(K)` / `[...](K)`: the constructor itself
        return self.add(('call', f, k, form, base), 'seq')

    def existing_key(self, m):
        """a key that was (probably) put into map $m: scan the ops that built it; else random —
        with a twist: often an *equal-but-different* literal (1 vs 1.0 vs 1e0, 'a' vs anyURI a)"""
        rng = self.rng
        ks = []
        for op in self.ops:
            if op[0] == 'mctor':
                ks += [k for k, _ in op[1]]
            elif op[0] in ('mput',):
                ks.append(op[2])
            elif op[0] == 'mentry':
                ks.append(op[1])
        if not ks:
            return self.key()
        k = rng.choice(ks)
        if rng.random() < 0.4:
            return twist(rng, k, self.flavour)
        return k

    def build(self):
        target = self.rng.randint(1, self.maxlen)
        while len(self.ops) < target:
            self.step()
        return self.ops[:self.maxlen + 1]


def twist_op(rng, op, flavour):
    """the same operation with some literals replaced by equal-but-different ones"""
    def tk(k):
        return twist(rng, k, flavour) if rng.random() < 0.6 else k
    n = op[0]
    if n == 'seq':
        return ('seq', [a if isinstance(a, int) else tk(a) for a in op[1]])
    if n == 'mctor':
        es = [(tk(k), i) for k, i in op[1]]
        if rng.random() < 0.3:
            rng.shuffle(es)
        return ('mctor', es)
    if n == 'mput':
        return ('mput', op[1], tk(op[2]), op[3])
    if n == 'mentry':
        return ('mentry', tk(op[1]), op[2])
    if n == 'mremove':
        return ('mremove', op[1], [tk(k) for k in op[2]])
    return op


def twist(rng, k, flavour):
    kind, p = k
    try:
        if kind == 'i':
            if p == 9007199254740993:
                return ('f', '9007199254740992')   # equal after promotion to double (deep-equal), not the same key
            return rng.choice([('d', f'{p}.0'), ('f', str(p)), ('d', str(p))])
        if kind == 'd':
            fr = Fraction(Decimal(p))
            if fr.denominator == 1:
                return rng.choice([('i', int(fr)), ('f', str(int(fr)))])
            return ('f', p)
        if kind == 'f' and p not in ('NaN', 'INF', '-INF'):
            x = float(p)
            if x == int(x) and abs(x) < 1e15:
                return rng.choice([('i', int(x)), ('d', f'{int(x)}.00')])
            return ('d', p) if 'e' not in p.lower() else k
        if kind == 's':
            return rng.choice([('u', p), ('a', p)])
        if kind == 'u':
            return rng.choice([('s', p), ('a', p)])
        if kind == 'a':
            return rng.choice([('s', p), ('u', p)])
        if kind == 'b':
            return ('i', 1 if p else 0)          # not the same key
        if kind == 'q':
            return ('q', (p[0], p[1], 'zz' if not p[2] else ''))
        if kind == 'r':
            tw = {'PT24H': ('duration', 'P1D'), 'P1D': ('dayTimeDuration', 'PT24H'), 'P12M': ('duration', 'P1Y'),
                  'P1Y': ('yearMonthDuration', 'P12M'), 'PT0S': ('yearMonthDuration', 'P0M'),
                  'P0M': ('dayTimeDuration', 'PT0S')}
            return ('r', tw.get(p[1], p))
        if kind == 'x':
            return rng.choice([('x', p.lower() if p != p.lower() else p.upper()),
                               ('y', __import__('base64').b64encode(bytes.fromhex(p)).decode())])
    except (ValueError, ArithmeticError):
        pass
    return k


# seed corpus: the probes of DESIGN.md §5 and the defects found while building the check
def _a(*xs):
    return list(xs)


CORPUS = [
    # F15c: array:put/append/insert-before must not touch the operand
    [('seq', [('i', 1)]), ('seq', [('i', 2)]), ('asquare', [0, 1]), ('seq', [('i', 9)]), ('aput', 2, 1, 3),
     ('aget', 4, 1), ('aget', 2, 1)],
    [('seq', [('i', 1)]), ('asquare', [0, 0]), ('aappend', 1, 0), ('asize', 1), ('asize', 2)],
    [('seq', [('i', 1)]), ('asquare', [0, 0]), ('ainsert', 1, 1, 1), ('asize', 1), ('aflatten', 2)],
    [('seq', [('i', 1)]), ('asquare', [0]), ('aappend', 1, 1), ('aappend', 1, 1)],        # self-append
    # F15a: a single NaN key
    [('seq', [('i', 1)]), ('mctor', [(('f', 'NaN'), 0)]), ('mget', 1, ('f', 'NaN')), ('mput', 1, ('f', 'NaN'), 1),
     ('mkeys', 3), ('mctor', [(('f', 'NaN'), 0), (('f', 'NaN'), 0)]), ('mremove', 1, [('f', 'NaN')]),
     ('mcontains', 1, ('f', 'NaN')), ('mfind', 1, ('f', 'NaN'))],
    # F15e: combine
    [('seq', [('i', 1), ('i', 2)]), ('seq', [('i', 3)]), ('mctor', [(('i', 1), 0)]), ('mctor', [(('d', '1.0'), 1)]),
     ('seq', [2, 3]), ('mmerge', 4, 'combine'), ('mget', 5, ('i', 1)), ('mget', 2, ('i', 1))],
    [('seq', [('i', 1)]), ('seq', [('i', 3), ('i', 4)]), ('mctor', [(('s', 'a'), 0)]), ('mctor', [(('u', 'a'), 1)]),
     ('seq', [2, 3, 2]), ('mmerge', 4, 'combine'), ('mmerge', 4, 'last'), ('mmerge', 4, 'first'),
     ('mmerge', 4, 'reject'), ('mmerge', 4, 'bad'), ('mmerge', 4, 'any'), ('mkeys', 6)],
    # keys equal across numeric types; string vs anyURI; -0 and 0
    [('seq', [('i', 1)]), ('mctor', [(('i', 1), 0), (('s', 'a'), 0), (('f', '-0.0'), 0)]),
     ('mget', 1, ('f', '1')), ('mget', 1, ('d', '1.0')), ('mget', 1, ('u', 'a')), ('mget', 1, ('i', 0)),
     ('mput', 1, ('d', '1.00'), 1), ('mkeys', 6), ('mctor', [(('i', 1), 0), (('f', '1'), 0)]),
     ('mctor', [(('s', 'a'), 0), (('u', 'a'), 0)]), ('mctor', [(('d', '0.1'), 0), (('f', '0.1'), 0)])],
    # F15d (fixed): a boolean key is not the number 0/1; a boolean is no array position
    [('seq', [('i', 1)]), ('mctor', [(('b', True), 0), (('i', 1), 0)]), ('mctor', [(('b', True), 0)]),
     ('mget', 2, ('i', 1)), ('mcontains', 2, ('f', '1')), ('mput', 2, ('i', 1), 0), ('asquare', [0, 0]),
     ('lookup', 6, [('b', True)], 'paren')],
    # F15f: dates
    [('seq', [('i', 1)]), ('mctor', [(('t', (2000, 1, 1, None)), 0), (('t', (2000, 1, 1, 0)), 0)]),
     ('mctor', [(('t', (2000, 1, 1, None)), 0)]), ('mcontains', 2, ('t', (2000, 1, 1, 0))),
     ('mget', 2, ('t', (2000, 1, 1, 0)))],
    # F15p: the same instant with timezones in two lexical years is one key (hash by instant)
    [('seq', [('i', 1)]), ('mctor', [(('t', (2000, 12, 31, -720)), 0), (('t', (2001, 1, 1, 720)), 0)]),
     ('mctor', [(('t', (2000, 1, 2, 840)), 0), (('t', (2000, 1, 1, -600)), 0)]), ('mentry', ('t', (2000, 12, 31, -720)), 0),
     ('mget', 3, ('t', (2001, 1, 1, 720))), ('mcontains', 3, ('t', (2001, 1, 1, 720))), ('mput', 3, ('t', (2001, 1, 1, 720)), 0)],
    # array bounds
    [('seq', [('i', 1)]), ('seq', [('i', 2), ('i', 3)]), ('seq', []), ('asquare', [0, 1, 2]), ('aget', 3, 0),
     ('aget', 3, 3), ('aget', 3, 4), ('asub', 3, 4, None), ('asub', 3, 5, None), ('asub', 3, 2, 3), ('asub', 3, 5, -1),
     ('aremove', 3, [1, 1, 3]), ('aremove', 3, [4]), ('ainsert', 3, 4, 1), ('ainsert', 3, 5, 1), ('atail', 3)],
    [('asquare', []), ('ahead', 0), ('atail', 0), ('areverse', 0), ('seq', []), ('ajoin', 4), ('acurly', 4),
     ('aflatten', 0), ('aput', 0, 1, 4), ('ainsert', 0, 1, 4), ('lookup', 0, '*')],
    # F15i: arrays inside a sequence-valued member are flattened too
    [('seq', [('i', 1)]), ('acurly', 0), ('seq', [1, 1, 1]), ('ajoin', 2), ('ainsert', 3, 2, 2), ('aflatten', 4)],
    # higher-order array functions and map:for-each with function arguments
    [('seq', [('i', 1), ('i', 2)]), ('seq', []), ('seq', [('s', 'z')]), ('asquare', [0, 1, 2]), ('afe', 3, 'dup'),
     ('afe', 3, 'cnt'), ('afe', 3, ('c', ('d', '1.5'))), ('afl', 3, 'ne'), ('afl', 3, 'one'), ('afl', 3, 'nb'),
     ('afoldl', 3, 0, 'rcat'), ('afoldr', 3, 0, 'rcat'), ('afoldl', 3, 1, 'cntr'), ('apair', 3, 4, 'cat'),
     ('mctor', [(('i', 1), 0), (('s', 'a'), 1)]), ('mfe', 14, 'cat'), ('mfe', 14, 'cntr')],
    # deep-equal: NaN, numeric promotion, nesting, singleton vs sequence, bool vs int (F15b, F15q)
    [('seq', [('f', 'NaN')]), ('seq', [('d', '0.1')]), ('seq', [('f', '0.1')]), ('mctor', [(('i', 1), 0), (('s', 'a'), 1)]),
     ('mctor', [(('u', 'a'), 2), (('d', '1.0'), 0)]), ('deq', 3, 4), ('asquare', [3, 0]), ('asquare', [4, 0]), ('deq', 6, 7),
     ('seq', [3, ('i', 1)]), ('seq', [4, ('i', 2)]), ('deq', 9, 10), ('seq', [('b', True)]), ('seq', [('i', 1)]),
     ('deq', 12, 13), ('deq', 1, 2), ('mctor', [(('i', 1), 12)]), ('mctor', [(('i', 1), 13)]), ('deq', 16, 17)],
    # opaque keys: QName prefixes, durations across subtypes, hex case; F15k hex vs base64; F15m
    [('seq', [('i', 1)]), ('mctor', [(('q', ('u', 'a', '')), 0), (('r', ('duration', 'P1D')), 0), (('x', '00FF'), 0)]),
     ('mget', 1, ('q', ('u', 'a', 'p'))), ('mget', 1, ('r', ('dayTimeDuration', 'PT24H'))), ('mget', 1, ('x', '00ff')),
     ('mput', 1, ('q', ('v', 'a', '')), 0), ('mkeys', 5),
     ('mctor', [(('r', ('dayTimeDuration', 'PT0S')), 0), (('r', ('yearMonthDuration', 'P0M')), 0)]),
     ('mcontains', 1, ('y', 'AP8=')), ('mget', 1, ('y', 'AP8='))],
    [('seq', [('i', 9007199254740993)]), ('seq', [('f', '9007199254740992')]), ('deq', 0, 1), ('deq', 1, 0),
     ('asquare', [0]), ('asquare', [1]), ('deq', 4, 5), ('deq', 5, 4), ('mctor', [(('i', 1), 0)]), ('mctor', [(('i', 1), 1)]),
     ('deq', 9, 8)],
    # the two empty binaries share a dict slot (same text, same hash); non-empty ones do not
    [('seq', [('i', 1)]), ('mentry', ('x', ''), 0), ('mget', 1, ('y', '')), ('mentry', ('x', '61'), 0), ('mget', 3, ('y', 'YQ==')),
     ('mctor', [(('x', ''), 0), (('y', ''), 0)]), ('mctor', [(('x', '61'), 0), (('y', 'YQ=='), 0)])],
    # lookups over SEQUENCES of maps/arrays with sequence key expressions: for each item, for each key
    [('seq', [('i', 1)]), ('seq', [('i', 2), ('i', 3)]), ('mctor', [(('i', 1), 0), (('s', 'a'), 1)]), ('mctor', [(('d', '1.0'), 1)]),
     ('asquare', [0, 1, 0]), ('asquare', [1]), ('seq', [2, 3, 4]), ('lookup', 6, [('i', 1)], 'paren'),
     ('lookup', 6, [('i', 1), ('s', 'a')], 'paren'), ('seq', [4, 5]), ('lookup', 9, [('i', 1), ('i', 2)], 'paren'),
     ('lookup', 9, [('i', 1)], 'paren'), ('lookup', 6, '*'), ('lookup', 6, [('i', 1)], 'unary'), ('seq', [5, 4]),
     ('lookup', 14, [('i', 1), ('i', 2)], 'paren'), ('lookup', 14, [('i', 2), ('i', 1)], 'unary')],
    # map:merge call site evaluated repeatedly with different options on maps with a duplicate key
    [('seq', [('i', 1)]), ('seq', [('i', 2)]), ('mctor', [(('i', 1), 0)]), ('mctor', [(('d', '1.0'), 1)]), ('seq', [2, 3]),
     ('mmerge', 4, 'first'), ('mmerge', 4, 'last'), ('mmerge', 4, 'combine'), ('mmerge', 4, 'reject'), ('mmerge', 4, 'first'),
     ('mmerge', 4, 'default')],
    # array:sort: numbers by value across types (ties keep their order), sequences lexicographically, strings, mixed
    [('seq', [('i', 3)]), ('seq', [('d', '1.5')]), ('seq', [('f', '2')]), ('seq', [('f', '-0.0')]), ('seq', [('i', 0)]),
     ('seq', [('i', 1), ('i', 2)]), ('seq', []), ('seq', [('d', '1.0')]), ('seq', [('i', 1)]),
     ('asquare', [0, 1, 2, 3, 4, 5, 6, 7, 8]), ('asort', 9), ('seq', [('s', 'b')]), ('seq', [('s', 'a'), ('s', 'z')]),
     ('seq', [('s', 'a')]), ('seq', [('s', '')]), ('asquare', [11, 12, 13, 14]), ('asort', 15), ('asquare', [0, 11]),
     ('asort', 17), ('asquare', []), ('asort', 19), ('asort', 0)],
    # a map / an array called as a function with computed arguments; error cases
    [('seq', [('i', 1)]), ('seq', [('i', 2), ('i', 1)]), ('seq', []), ('mctor', [(('i', 1), 0), (('i', 2), 1)]), ('asquare', [0, 1]),
     ('call', 3, 1, 'pred', None), ('call', 3, 0, 'for', None), ('call', 3, 0, 'lookup', None), ('call', 3, 2, 'var', None),
     ('call', 3, 1, 'var', None), ('call', 4, 1, 'pred', None), ('call', 4, 1, 'head', None), ('call', 4, 0, 'for', None),
     ('call', 4, 0, 'lookup', None), ('call', 4, 2, 'paren', None), ('call', 4, 1, 'if', None), ('call', 0, 0, 'var', None),
     ('mctor', [(('s', 'x'), 4), (('s', 'y'), 3)]), ('seq', [('s', 'x')]), ('call2', 17, 18, 1, 'for'), ('seq', [('s', 'y')]),
     ('call2', 17, 20, 0, 'lookup'), ('call', 4, 0, 'let', '[$v0, $v1]'), ('call', 3, 0, 'bang', 'map{1: $v0, 2: $v1}')],
    # F15w: a non-map operand of map:merge
    [('seq', [('i', 7)]), ('mmerge', 0, 'combine'), ('mctor', [(('i', 1), 0)]), ('seq', [2, 2, 0]), ('mmerge', 3, 'reject')],
    # F15u (fixed): the empty untypedAtomic shares the hash of 0 / 0.0 / false
    [('seq', [('i', 1)]), ('mctor', [(('i', 0), 0), (('f', '-0.0'), 0)][:1]), ('mget', 1, ('a', '')), ('mentry', ('a', ''), 0),
     ('mget', 3, ('i', 0)), ('mget', 3, ('s', '')), ('mcontains', 3, ('d', '0')), ('mput', 3, ('i', 0), 0), ('mkeys', 7),
     ('seq', [3, 1]), ('mmerge', 9, 'combine'), ('mget', 10, ('u', ''))],
    # xs:untypedAtomic keys: string class; constructor, map:entry and map:put all keep the untypedAtomic value
    [('seq', [('i', 1)]), ('mctor', [(('a', '1'), 0), (('i', 1), 0)]), ('mkeys', 1), ('mentry', ('a', 'a'), 0), ('mkeys', 3),
     ('mget', 3, ('s', 'a')), ('mcontains', 3, ('u', 'a')), ('mput', 3, ('u', 'a'), 0), ('mkeys', 7), ('mget', 1, ('a', '1')),
     ('mctor', [(('a', 'x'), 0), (('s', 'x'), 0)]), ('seq', [('a', '1')]), ('seq', [('s', '1')]), ('deq', 11, 12), ('seq', [('i', 1)]),
     ('deq', 11, 14)],
    # F15t: a QName key is not the string of its lexical form
    [('seq', [('i', 1)]), ('mctor', [(('q', ('u', 'b', '')), 0)]), ('mremove', 1, [('s', 'b')]), ('mcontains', 1, ('s', 'b')),
     ('mput', 1, ('s', 'b'), 0), ('mfind', 1, ('s', 'b'))],
    # nesting, flatten, find, for-each, lookup
    [('seq', [('i', 1)]), ('asquare', [0, 0]), ('asquare', [1, 0]), ('mctor', [(('s', 'a'), 2), (('i', 1), 1)]),
     ('asquare', [3, 2]), ('aflatten', 4), ('mfind', 4, ('s', 'a')), ('mfind', 4, ('d', '1.0')), ('mforeach', 3),
     ('lookup', 3, '*'), ('lookup', 4, [('i', 1), ('i', 2)], 'paren'), ('lookup', 3, [('s', 'a')], 'short'),
     ('seq', [3, 3]), ('lookup', 12, [('i', 1)], 'short'), ('lookup', 0, [('i', 1)], 'short')],
]


# ----------------------------------------------------------------------- correspondence
def parse_answer(ans: str):
    blocks = []
    cur = {}
    for b in ans.split('|'):
        ms, ss, ok, vals = b.split('~', 3)
        triples = []
        for j, t in enumerate(vals.split('&')):
            if t == '=':
                triples.append(cur[j])
            else:
                tr = tuple(t.split('^'))
                cur[j] = tr
                triples.append(tr)
        blocks.append((ms, ss, ok == '1', triples))
    return blocks


KIND_NAMES = {'a': 'untypedAtomic', 'i': 'integer', 'd': 'decimal', 'f': 'double', 's': 'string', 'u': 'anyURI', 'b': 'boolean',
              't': 'date', 'q': 'QName', 'r': 'duration', 'x': 'hexBinary', 'y': 'base64Binary'}


def op_keys(op):
    if op[0] == 'mctor':
        return [kk for kk, _ in op[1]]
    if op[0] in ('mput', 'mget', 'mcontains', 'mfind'):
        return [op[2]]
    if op[0] == 'mentry':
        return [op[1]]
    if op[0] == 'mremove':
        return list(op[2])
    if op[0] == 'lookup' and op[2] != '*':
        return list(op[2])
    if op[0] == 'seq':
        return [a for a in op[1] if not isinstance(a, int)]
    return []


def classify_tags(ops, k):
    """no finding with a trigger inside the model is left: the driver's flags (`noClash` of the keys,
    `atomClash` of the atoms of a deep-equal step) are provably always 1 (keyClash_false, atomClash_false)"""
    return []


def compare(run: Run, cases, count=True, reuse_every: int = 2) -> None:
    lines = [line_of(c) for c in cases]
    answers = run.driver('C15', lines)
    st = run.stats
    for ops, line, ans in zip(cases, lines, answers):
        if ans.startswith('bad-'):
            run.disagree(Disagreement(line, 'driver:' + ans, what='protocol'))
            continue
        blocks = parse_answer(ans)
        if count:
            st.case(line, nontrivial=len(ops) > 1)
            st.count(f'len={min(len(ops), 15) // 5 * 5}+')
        modes = ['literal'] + (['reuse'] if reuse_every and (__import__('zlib').crc32(line.encode()) % reuse_every == 0) else [])
        for mode in modes:
            compare_one(run, ops, line, blocks, run_impl(ops, mode=mode), mode, count and mode == 'literal')


def compare_one(run, ops, line, blocks, impl, mode, count):
    st = run.stats
    if mode == 'reuse':
        st.count('histories-through-shared-tokens')
    if True:
        spec_dead = False
        for k, ((ms, ss, ok, triples), (istat, iraw, isrt, lazy)) in enumerate(zip(blocks, impl)):
            op = ops[k]
            prefix = {'ops': [op_xpath(o) for o in ops[:k + 1]], 'line': line_of(ops[:k + 1]),
                      'history': to_jsonable(ops[:k + 1])}
            if mode == 'reuse':
                prefix['mode'] = ('every step evaluated through one shared parsed token per expression shape '
                                  '(operands and keys as variables): ' + op_template(op)[0])
            if count:
                st.count('op:' + op[0])
                for kk in op_keys(op):
                    st.count('key:' + KIND_NAMES[kk[0]] + (':' + kk[1] if kk[0] == 'f' and kk[1] in ('NaN', 'INF', '-INF', '-0.0') else '')
                             + (':tz' if kk[0] == 't' and kk[1][3] is not None else ''))
                if op[0] == 'mmerge':
                    st.count('merge:' + op[2])
                st.count('status:' + (istat if istat.startswith('ERR') else 'ok'))
                if not ok:
                    st.count('clash-step')
            tags = [] if ok else classify_tags(ops, k)
            site = f'{SITE_FUNCS} {op[0]}'
            # 1. property: implementation vs spec (order-free prints)
            i_s = istat + ' ' + ' '.join(isrt)
            s_s = ss + ' ' + ' '.join(t[2] for t in triples)
            m_s = ms + ' ' + ' '.join(t[1] for t in triples)
            stop = False
            if i_s != s_s and not spec_dead:
                j = first_diff(isrt, [t[2] for t in triples]) if istat == ss else None
                what = ('result/status of the new value' if j is None or j == k else
                        f'value $v{j} created earlier changed (in-place mutation)')
                run.disagree(Disagreement(prefix, i_s, m_s, spec=s_s, what=('call-site reuse: ' if mode == 'reuse' else '') + what,
                                          site=site, tags=tags))
                if tags:
                    # a listed finding: from here on the spec run has a different state; the rest of the
                    # history is still compared with the model (which mirrors the code)
                    spec_dead = True
                else:
                    stop = True
            if lazy != 'ok':
                if mode == 'reuse':
                    run.disagree(Disagreement(prefix, 'call-site reuse: ' + lazy, None,
                                              spec='call-site reuse: loop = list of single-call results',
                                              what='same call site evaluated several times (for / function reference)',
                                              site=site, tags=tags))
                else:
                    run.disagree(Disagreement(prefix, 'token-api: ' + lazy, None, spec='token-api: same as evaluate()',
                                              what='constructor token keys()/items()/call vs evaluate()',
                                              site='elementpath/xpath_tokens/maps.py|arrays.py _evaluate', tags=tags))
                stop = True
            # 2. tie: implementation vs model (insertion order, exact)
            i_r = istat + ' ' + ' '.join(iraw)
            m_r = ms + ' ' + ' '.join(t[0] for t in triples)
            if i_r != m_r:
                run.disagree(Disagreement(prefix, i_r, m_r, what='model-vs-code' + ('/shared-token' if mode == 'reuse' else ''),
                                          site=site))
                stop = True
            if stop:
                break


def to_jsonable(x):
    if isinstance(x, (tuple, list)):
        return [to_jsonable(y) for y in x]
    return x


def from_jsonable(ops):
    """inverse of to_jsonable for histories (keys and ops are tuples, argument lists are lists)"""
    def key(k):
        kind, p = k
        return (kind, tuple(p)) if kind in ('t', 'q', 'r') else (kind, p)

    def is_key(x):
        return isinstance(x, list) and len(x) == 2 and isinstance(x[0], str) and x[0] in 'idfsubtqrxya' and len(x[0]) == 1

    def conv(x):
        if is_key(x):
            return key(x)
        if isinstance(x, list):
            return [conv(y) for y in x]
        return x
    out = []
    for op in ops:
        n = op[0]
        args = [conv(a) for a in op[1:]]
        if n == 'mctor':
            args = [[(kv[0], kv[1]) for kv in args[0]]]
        out.append((n, *args))
    return out


def op_vars(op):
    """indices of earlier steps an op refers to"""
    n = op[0]
    if n == 'seq':
        return [a for a in op[1] if isinstance(a, int)]
    if n == 'mctor':
        return [i for _, i in op[1]]
    if n == 'asquare':
        return list(op[1])
    if n == 'mentry':
        return [op[2]]
    if n in ('mput', 'aput', 'ainsert'):
        return [op[1], op[3]]
    if n in ('aappend', 'afoldl', 'afoldr', 'apair', 'deq', 'call'):
        return [op[1], op[2]]
    if n == 'call2':
        return [op[1], op[2], op[3]]
    return [op[1]]


def rename_vars(op, f):
    n = op[0]
    if n == 'seq':
        return (n, [f(a) if isinstance(a, int) else a for a in op[1]])
    if n == 'mctor':
        return (n, [(k, f(i)) for k, i in op[1]])
    if n == 'asquare':
        return (n, [f(i) for i in op[1]])
    if n == 'mentry':
        return (n, op[1], f(op[2]))
    if n in ('mput', 'aput', 'ainsert'):
        return (n, f(op[1]), op[2], f(op[3]))
    if n == 'call':
        return (n, f(op[1]), f(op[2]), op[3], None)       # an inline base text would keep old variable names
    if n == 'call2':
        return (n, f(op[1]), f(op[2]), f(op[3]), *op[4:])
    if n in ('aappend', 'afoldl', 'afoldr', 'apair', 'deq'):
        return (n, f(op[1]), f(op[2]), *op[3:])
    return (n, f(op[1]), *op[2:])


def drop_step(ops, i):
    """history without step i, or None when a later step needs it"""
    if any(i in op_vars(o) for o in ops[i + 1:]):
        return None
    return [rename_vars(o, lambda j: j - 1 if j > i else j) for k, o in enumerate(ops) if k != i]


def first_diff(a, b):
    for j, (x, y) in enumerate(zip(a, b)):
        if x != y:
            return j
    return None


def correspond(run: Run) -> None:
    rng = run.rng
    n = run.scale(2500, 36000)
    cases = [list(c) for c in CORPUS]
    for _ in range(n):
        cases.append(Gen(rng, run.quick).build())
    run.stats.rule = (
        'operation histories of 1..15 steps; each step one XPath 3.1 expression (sequence / map / array '
        'constructor, map:put/remove/get/contains/size/keys/entry/merge(6 option values)/find/for-each (also with 5 '
        'binary functions), array:for-each/filter/fold-left/fold-right/for-each-pair with small function arguments, '
        'deep-equal (value against twin rebuilt with equal-but-different literals), '
        'array:get/put/insert-before/append/remove/subarray/head/tail/reverse/join/flatten/size, ? lookup) over '
        'operands created by earlier steps and literal keys of kinds integer, decimal, double (NaN, INF, -0), '
        'string, anyURI, boolean, date (with/without timezone), QName, durations, hexBinary, base64Binary; constructor '
        'steps are also run through the lazy token API (keys/items/call, then re-evaluated with other bindings); '
        'after every step every value created so far is '
        're-observed and compared with the Lean model (exact) and the Lean spec (order-free). '
        'distinct = distinct histories with at least two steps')
    for i in range(0, len(cases), 500):
        compare(run, cases[i:i + 500])



# ------------------------------------------------------------------ phase 5: array:sort with key function / special values
# One request per case (`XSORT K=… M=…`), outside the histories: the model `arrSortPy`, the spec
# `Spec.arrSort` (F&O 3.1 §16.2.6 deep-less-than, selection of the first minimum) and the real
# `array:sort($a, (), $key)` on the same members; the driver's third field says whether a key function
# meets a member that is not one item (the situation of the fixed finding F15z) — histogram only.
KFNS = {
    'none': None,
    'id': 'function($m){$m}',
    'cnt': 'function($m){count($m)}',
    'rev': 'function($m){reverse($m)}',
    'head': 'function($m){$m[1]}',
    'const': 'function($m){0}',
    'intfirst': 'function($m){(not($m instance of xs:integer), $m)}',
    'parity': 'function($m){(count($m) mod 2, count($m))}',
}
XS_NUMS = [('f', 'NaN'), ('f', 'INF'), ('f', '-INF'), ('f', '-0.0'), ('i', 0), ('f', '0'), ('i', 1), ('d', '1.0'), ('f', '1'),
           ('i', -3), ('d', '1.5'), ('f', '2.5'), ('d', '2.50'), ('i', 100000000000000000000), ('f', '1e20'),
           ('d', '0.1'), ('f', '0.1'), ('i', 2), ('f', '-1e300'), ('d', '-0.5')]
XS_STRS = [('s', 'a'), ('s', 'b'), ('s', ''), ('s', 'ab'), ('s', 'é'), ('s', 'B'), ('s', '1'), ('s', 'aa')]
XS_BOOLS = [('b', True), ('b', False)]


def xsort_line(kf, members) -> str:
    return 'XSORT K=%s M=%s' % (kf, ';'.join('e' if not m else '+'.join(key_proto(k) for k in m) for m in members))


def xsort_xpath(kf, members, form=0) -> str:
    arr = '[' + ', '.join('(' + ', '.join(key_xpath(k) for k in m) + ')' if len(m) != 1 else key_xpath(m[0])
                          for m in members) + ']'
    if KFNS[kf] is None:
        return f'array:sort({arr})' if form == 0 else f'array:sort({arr}, ())'
    return f'array:sort({arr}, (), {KFNS[kf]})'


def xsort_impl(expr: str) -> str:
    _setup()
    from elementpath import XPathContext
    try:
        res = _PARSER().parse(expr).evaluate(XPathContext(_ROOT))
        out = []
        for m in res.items():
            items = m if isinstance(m, list) else [m]
            out.append('e' if not items else '+'.join(atom_text(x) for x in items))
        return 'ok:' + ';'.join(out)
    except RecursionError:
        return 'ERR:OTHER:RecursionError'
    except Exception as e:  # noqa -- everything the implementation raises is an observation
        return err_text(e)


def gen_xsort(rng):
    kf = rng.choice(['none', 'none', 'none', 'id', 'cnt', 'rev', 'head', 'const', 'intfirst', 'parity'])
    r = rng.random()
    mode = ('num' if r < 0.45 else 'bool' if r < 0.58 else 'str' if r < 0.72 else 'boolnum' if r < 0.84 else 'mixed')
    if mode == 'mixed' and kf == 'intfirst':
        kf = 'id'
    if mode == 'boolnum' and kf == 'rev':
        # reverse() would put items of different classes at the same key position, where the code raises
        # XPTY0004 only if its algorithm compares that pair at that position (not modelled)
        kf = 'id'
    single = mode == 'mixed' or (kf != 'none' and rng.random() < 0.7)
    members = []
    for _ in range(rng.choice([0, 1, 2, 2, 3, 3, 4, 5, 6])):
        if mode == 'mixed':
            # different classes only in one-item members (keys): some comparison must meet them
            members.append([rng.choice(rng.choice([XS_NUMS, XS_STRS, XS_BOOLS]))])
            continue
        k = 1 if single else rng.choice([1, 1, 1, 0, 2, 2, 3])
        if mode == 'boolnum':
            # a boolean first, numbers after it: classes agree position by position
            k = max(k, 1)
            members.append([rng.choice(XS_BOOLS)] + [rng.choice(XS_NUMS) for _ in range(k - 1)])
        else:
            pool = {'num': XS_NUMS, 'bool': XS_BOOLS, 'str': XS_STRS}[mode]
            members.append([rng.choice(pool) for _ in range(k)])
    if members and rng.random() < 0.3:
        members.insert(rng.randrange(len(members) + 1), list(rng.choice(members)))      # ties: stability
    return (kf, members, mode)


_N, _I, _M, _Z = ('f', 'NaN'), ('f', 'INF'), ('f', '-INF'), ('f', '-0.0')
XSORT_CORPUS = [
    ('none', [[_N], [('i', 1)], [_M], [_I], [_Z], [('i', 0)], [('f', '0')], [_N], [('d', '1.0')]], 'num'),
    ('none', [[('i', 1), _N], [('i', 1), _M], [('i', 1)], [], [('d', '1.0'), _I], [('f', '1'), ('i', 5)]], 'num'),
    ('none', [[('b', True)], [('b', False)], [('b', True)], [('b', False)]], 'bool'),
    ('none', [[('b', True), ('i', 1)], [('b', False), _I], [('b', True), _N], [('b', True)]], 'boolnum'),
    ('none', [[('b', True)], [('i', 1)]], 'mixed'),
    ('none', [[_N], [('s', 'a')]], 'mixed'),
    ('none', [[('b', True), ('s', 'a')]], 'mixed'),
    # key functions on one-item members
    ('intfirst', [[('d', '0.5')], [('i', 3)], [_N], [('i', 1)], [('f', '0.25')]], 'num'),
    ('const', [[('i', 3)], [('i', 1)], [('i', 2)]], 'num'),
    ('parity', [[('i', 3)], [('i', 1)]], 'num'),
    ('head', [[('s', 'b')], [('s', 'a')], [('s', 'b')]], 'str'),
    ('cnt', [[('i', 3)]], 'num'),
    ('cnt', [[('i', 3), ('i', 4)]], 'num'),
    # fixed finding F15z: a key function and a member that is not one item
    ('cnt', [[('i', 1), ('i', 2)], []], 'num'),
    ('id', [[('i', 2)], [('i', 1), ('i', 0)]], 'num'),
    ('rev', [[('i', 1), ('i', 2)], [('i', 2), ('i', 1)], [('i', 0)]], 'num'),
    ('parity', [[('i', 1), ('i', 2)], [('i', 0)], []], 'num'),
]


def compare_xsort(run: Run, cases, count=True) -> None:
    lines = [xsort_line(kf, ms) for kf, ms, _ in cases]
    answers = run.driver('C15', lines)
    st = run.stats
    for idx, ((kf, ms, mode), line, ans) in enumerate(zip(cases, lines, answers)):
        expr = xsort_xpath(kf, ms, idx % 2)
        case = {'xsort': {'key': kf, 'members': to_jsonable(ms), 'mode': mode}, 'expr': expr, 'line': line}
        if ans.startswith('bad-') or ans.count('~') != 2:
            run.disagree(Disagreement(case, 'driver:' + ans, what='protocol'))
            continue
        model, spec, defect = ans.split('~')
        impl = xsort_impl(expr)
        if count:
            st.case(line, nontrivial=len(ms) > 1)
            st.count('op:xsort')
            st.count('xsort:key=' + kf)
            st.count('xsort:class=' + mode)
            st.count('xsort:members=' + str(min(len(ms), 6)))
            st.count('xsort:status:' + (impl if impl.startswith('ERR') else 'ok'))
            flat = [k for m in ms for k in m]
            for name, k in (('NaN', _N), ('INF', _I), ('-INF', _M), ('-0', _Z)):
                if k in flat:
                    st.count('xsort:has:' + name)
            if any(k[0] == 'b' for k in flat):
                st.count('xsort:has:boolean')
            if any(len(m) != 1 for m in ms):
                st.count('xsort:sequence-members')
            if len(set(map(repr, ms))) < len(ms):
                st.count('xsort:equal-members')
            if defect == '1':
                st.count('xsort:key-function-on-sequence-member')
        site = 'elementpath/xpath31/_xpath31_functions.py evaluate__array_sort, elementpath/compare.py get_key_function/deep_compare'
        if impl != spec:
            run.disagree(Disagreement(case, impl, model, spec=spec, what='array:sort result/status (key function, special values)',
                                      site=site))
            continue
        if impl != model:
            run.disagree(Disagreement(case, impl, model, what='model-vs-code array:sort', site=site))


def correspond_xsort(run: Run) -> None:
    n = run.scale(1500, 15000)
    run.stats.rule = (run.stats.rule or '') + (
        '; plus array:sort cases (XSORT): arrays of 0..7 members, each a sequence of 0..3 items of one class per position '
        '(numbers incl. NaN, INF, -INF, -0.0 / strings / booleans / a boolean followed by numbers; classes mixed only in '
        'one-item members), no key function or one of 7 inline key functions, 30 % with a repeated member (ties); real '
        'array:sort vs Lean model arrSortPy (exact) vs Lean spec Spec.arrSort (F&O deep-less-than, selection sort)')
    cases = list(XSORT_CORPUS) + [gen_xsort(run.rng) for _ in range(n)]
    for i in range(0, len(cases), 1000):
        compare_xsort(run, cases[i:i + 1000])


def xsort_small_scope():
    from itertools import product
    atoms = [_N, _M, ('i', 0), _Z, ('d', '1.0'), _I, ('b', True), ('b', False), ('s', 'a')]
    cases = []
    for kf in ('none', 'id', 'intfirst'):
        for n in (2, 3):
            for ms in product(atoms, repeat=n):
                if kf == 'intfirst' and len({a[0] in 'ifd' for a in ms} | {a[0] for a in ms if a[0] in 'bs'}) > 1:
                    continue
                cases.append((kf, [[a] for a in ms], 'small'))
    return cases


def shrink_xsort(d: Disagreement) -> Disagreement:
    x = d.case['xsort']
    kf, ms, mode = x['key'], [[(k[0], k[1]) for k in m] for m in x['members']], x['mode']
    best = d

    def fails(cand):
        sub = Run(PROP, 'quick', 0)
        compare_xsort(sub, [(kf, cand, mode)], count=False)
        for y in sub.disagreements:
            if y.kind == d.kind and bool(y.tags) == bool(d.tags):
                return y
        return None
    changed = True
    while changed:
        changed = False
        for i in range(len(ms)):
            cand = ms[:i] + ms[i + 1:]
            y = fails(cand)
            if y is not None:
                ms, best, changed = cand, y, True
                break
    return best

# ------------------------------------------------------------------------------- search
def small_scope_cases():
    """every single operation applied to every small map / array over a pool of keys that contains
    the cross-type equal ones; positions -1..size+2"""
    pool = [('i', 1), ('d', '1.0'), ('f', '1'), ('s', 'a'), ('u', 'a'), ('f', 'NaN'), ('f', '-0.0'), ('i', 0),
            ('i', 2)]
    base = [('seq', [('i', 7)]), ('seq', [('i', 8), ('i', 9)]), ('seq', [])]
    cases = []
    # maps of size 0..2 over the pool
    from itertools import combinations, product
    maps = [[]] + [[(k, 0)] for k in pool] + [[(k1, 0), (k2, 1)] for k1, k2 in combinations(pool, 2)]
    for es in maps:
        pre = base + [('mctor', es)]
        for k in pool:
            cases.append(pre + [('mput', 3, k, 1), ('mget', 4, k), ('msize', 4), ('mkeys', 4), ('mkeys', 3)])
            cases.append(pre + [('mremove', 3, [k]), ('mcontains', 4, k), ('mcontains', 3, k), ('msize', 4)])
            cases.append(pre + [('mget', 3, k), ('lookup', 3, [k], 'paren'), ('mfind', 3, k)])
    for es1, es2 in product(maps[:12], maps[:12]):
        for pol in ('default', 'first', 'last', 'any', 'reject', 'combine'):
            cases.append(base + [('mctor', es1), ('mctor', es2), ('seq', [3, 4]), ('mmerge', 5, pol), ('mkeys', 6),
                                 ('mget', 6, pool[0]), ('mget', 6, pool[3])])
    for size in range(0, 4):
        pre = base + [('asquare', [i % 3 for i in range(size)])]
        for p in range(-1, size + 3):
            cases.append(pre + [('aput', 3, p, 1), ('aget', 3, p)])
            cases.append(pre + [('ainsert', 3, p, 1), ('asize', 3)])
            cases.append(pre + [('aget', 3, p), ('aremove', 3, [p]), ('asub', 3, p, None)])
            for ln in range(-1, size + 2):
                cases.append(pre + [('asub', 3, p, ln)])
            for q in range(0, size + 2):
                cases.append(pre + [('aremove', 3, [p, q])])
        cases.append(pre + [('aappend', 3, 1), ('asize', 3), ('ahead', 3), ('atail', 3), ('areverse', 3),
                            ('seq', [3, 4]), ('ajoin', 8), ('aflatten', 8), ('lookup', 3, '*')])
    return cases


def search(run: Run):
    sub = Run(PROP, run.tier, run.seed)
    cases = small_scope_cases()
    for i in range(0, len(cases), 500):
        compare(sub, cases[i:i + 500], count=False)
    # plus fresh random histories with another stream
    import random
    rng = random.Random(f'C15-search/{run.seed}')
    more = [Gen(rng).build() for _ in range(1500)]
    compare(sub, more, count=False)
    xs = xsort_small_scope() + [gen_xsort(rng) for _ in range(3000)]
    for i in range(0, len(xs), 1000):
        compare_xsort(sub, xs[i:i + 1000], count=False)
    run.notes.append(f'search: {len(cases)} small-scope + {len(more)} random histories + {len(xs)} array:sort cases, '
                     f'{len(sub.disagreements)} disagreements')
    return sub.disagreements


def shrink(d: Disagreement) -> Disagreement:
    """the reported prefix already ends at the first failing step; greedily drop every earlier step
    whose removal keeps a disagreement of the same kind (re-running model, spec and real code)"""
    if isinstance(d.case, dict) and 'xsort' in d.case:
        return shrink_xsort(d)
    if not isinstance(d.case, dict) or 'history' not in d.case:
        return d
    ops = from_jsonable(d.case['history'])
    best = d

    def fails(cand):
        sub = Run(PROP, 'quick', 0)
        compare(sub, [cand], count=False, reuse_every=1)
        for x in sub.disagreements:
            if x.kind == d.kind and bool(x.tags) == bool(d.tags):
                return x
        return None
    changed = True
    rounds = 0
    while changed and rounds < 6:
        changed = False
        rounds += 1
        i = len(ops) - 2
        while i >= 0 and len(ops) > 1:
            cand = drop_step(ops, i)
            if cand is not None:
                x = fails(cand)
                if x is not None:
                    ops = from_jsonable(x.case['history'])
                    best = x
                    changed = True
            i = min(i, len(ops) - 1) - 1
    return best


# --------------------------------------------------------------------------------- body
def body(run: Run) -> int:
    run.trusted_base += [
        'Python semantics of ==/hash on int, Decimal, float, bool, str (modelled by Key.eqRep / Key.dictRep)',
        'dict insertion order of CPython',
        'the reading of F&O 3.1 §17 in EPV/Spec/FOMaps.lean',
        'the reading of F&O 3.1 §16.2.6 (deep-less-than, fn:sort) in EPV/Spec/FOSort.lean; KFn.apply as the model of the 7 inline key functions',
    ]
    run.assumptions += [
        'keys are restricted to xs:integer, xs:decimal, xs:double, xs:string, xs:anyURI, xs:boolean, xs:date '
        '(no xs:float, xs:untypedAtomic, QName, durations, binary)',
        'values are atoms, maps, arrays and sequences of them (no nodes, no function items other than maps/arrays)',
        'hash(naive datetime) != hash(aware datetime) for the dates used (no accidental collision)',
    ]
    run.prove(['EPV.Props.C15', 'EPV.Props.C15Sort'], ['EPV.Lemmas.MapArrayKeys', 'EPV.Spec.FOSort'])
    try:
        if getattr(run, 'replay', None):
            import json
            payload = json.loads(Path(run.replay).read_text())
            hist = ((payload.get('failing_input') or {}).get('case') or {}).get('history')
            if hist:
                run.stats.rule = 'replay of ' + str(run.replay)
                compare(run, [from_jsonable(hist)])
                return run.finish('proof', shrink=shrink, search=None)
        correspond(run)
        correspond_xsort(run)
    except DriverError as e:
        run.broken.append('driver:C15 ' + str(e)[:300])
    return run.finish('proof', shrink=shrink, search=search)


if __name__ == '__main__':
    cli(PROP, body)

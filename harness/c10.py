"""
C10 — atomic datatypes: lexical space, canonical form and casting are coherent.

 translate : integer family (_lower_bound/_higher_bound, __mro__), white-space sets of the live regexes and
             of str.strip, the pattern source text of every builtin atomic type, the literal sets
             BOOLEAN_VALUES / NUMERIC_INF_OR_NAN            -> lean/EPV/Gen/C10Tables.lean
 prove     : EPV.Props.C10 (for-all-strings theorems about the model), EPV.Props.C10Tables (decide over the
             generated tables)
 correspond: (a) lexical: for every builtin atomic type x XSD version x generated string (valid forms, near
             misses, white-space variants): T(s) / T.is_valid(s) / 's' cast as xs:T / xs:T('s') / castable
             compared with EACH OTHER, and with the Lean model and spec for the modelled types
             (integer family, decimal, boolean, double, float, hexBinary, base64Binary);
             canonical string re-parsed: equal value, equal hash
             (b) canonical strings of integer / decimal / boolean / double values
             (c) hex / base64 codecs and casts over random octet lists
             (d) casting matrix: every (source type, target type) cell with several values:
             castable <=> cast succeeds <=> constructor function succeeds, equal values; model for the
             numeric / string / boolean / untypedAtomic corner
 search    : exhaustive short strings over the numeric alphabet, all integers around every bound
"""
from __future__ import annotations

import math
import sys
from decimal import Decimal
from pathlib import Path

sys.path.insert(0, str(Path(__file__).resolve().parent.parent))
from harness.common import (Run, Disagreement, cli, LEAN, DriverError, load_known)  # noqa: E402

PROP = 'C10'

INT_TYPES = ['integer', 'nonPositiveInteger', 'negativeInteger', 'long', 'int', 'short', 'byte',
             'nonNegativeInteger', 'positiveInteger', 'unsignedLong', 'unsignedInt', 'unsignedShort',
             'unsignedByte']
MODELLED = INT_TYPES + ['decimal', 'boolean', 'double', 'float', 'hexBinary', 'base64Binary']
DUR_TYPES = ['duration', 'yearMonthDuration', 'dayTimeDuration']   # Lean recogniser + value (months, seconds)
GREG_TYPES = ['time', 'gDay', 'gMonth', 'gMonthDay']   # Lean recogniser + field values + timezone
# Lean recogniser over translator-generated character tables, spec = XML 1.0 (5th ed.) / Namespaces in XML productions
# year-bearing date/time types: C11's Lean model of fromstring (imported read-only) + the XSD lexical productions of
# EPV/Spec/XSDDateLex.lean (both XSD versions)
STR_TYPES = ['string', 'untypedAtomic', 'normalizedString', 'token']   # identity / replace / collapse (total constructors)
DATE_TYPES = ['date', 'dateTime', 'dateTimeStamp', 'gYear', 'gYearMonth']
NAME_TYPES = {'NCName': 'NCName', 'ID': 'NCName', 'IDREF': 'NCName', 'ENTITY': 'NCName', 'Name': 'Name', 'NMTOKEN': 'NMTOKEN',
              'QName': 'QName'}
SKIPPED_TYPES = ['anyAtomicType', 'NOTATION', 'error']   # no constructor function / abstract (XPST0080, XPST0017)


# ------------------------------------------------------------------------------ helpers
def cps(s: str) -> str:
    return ','.join(str(ord(c)) for c in s) if s else '_'


def lean_str(s: str) -> str:
    out = []
    for c in s:
        o = ord(c)
        if c == '\\':
            out.append('\\\\')
        elif c == '"':
            out.append('\\"')
        elif c == '\n':
            out.append('\\n')
        elif c == '\t':
            out.append('\\t')
        elif c == '\r':
            out.append('\\r')
        elif o < 32 or o > 126:
            out.append('\\u{%x}' % o)
        else:
            out.append(c)
    return '"' + ''.join(out) + '"'


def lean_opt_int(v) -> str:
    return 'none' if v is None else (f'some ({v})' if v < 0 else f'some {v}')


def err_text(e: BaseException) -> str:
    from elementpath.exceptions import ElementPathError
    if isinstance(e, ElementPathError):
        code = str(getattr(e, 'code', '') or '')
        return 'ERR:' + (code.split(':')[-1] if code else 'nocode')
    return 'ERR:OTHER:' + type(e).__name__


def ctor_err_text(e: BaseException) -> str:
    """datatypes layer raises builtin exceptions only (datatypes/__init__.py docstring)"""
    if isinstance(e, ArithmeticError):
        return 'ERR:A'
    if isinstance(e, ValueError):
        return 'ERR:V'
    if isinstance(e, TypeError):
        return 'ERR:T'
    return 'ERR:OTHER:' + type(e).__name__


def fhex(x: float) -> str:
    if math.isnan(x):
        return 'nan'
    return float(x).hex()


def value_text(v) -> str:
    """canonical text of a value of any atomic type (class name + exact content)"""
    from elementpath.datatypes import UntypedAtomic, AbstractBinary
    if isinstance(v, bool):
        return 'bool:' + ('true' if v else 'false')
    if isinstance(v, float):
        return f'{type(v).__name__}:{fhex(v)}'
    if isinstance(v, int):
        return f'{type(v).__name__}:{int(v)}'
    if isinstance(v, Decimal):
        t = v.as_tuple()
        return f'Decimal:{t.sign}:{"".join(map(str, t.digits))}:{t.exponent}'
    if isinstance(v, UntypedAtomic):
        return 'UntypedAtomic:' + cps(v.value)
    if isinstance(v, AbstractBinary):
        return f'{type(v).__name__}:{v.value!r}'
    if isinstance(v, str):
        return f'{type(v).__name__}:{cps(str(v))}'
    if isinstance(v, list):
        return '[' + ';'.join(value_text(x) for x in v) + ']'
    return f'{type(v).__name__}:{v!r}:{cps(str(v))}'


def model_text(t: str, v) -> str:
    """canonical text in the vocabulary of the Lean driver, for the modelled types"""
    if t in INT_TYPES:
        return f'ok:{int(v)}'
    if t == 'decimal':
        tp = v.as_tuple()
        if not isinstance(tp.exponent, int):
            return 'ok:special'
        if tp.exponent > 0:
            return f'ok:{tp.sign}:{int("".join(map(str, tp.digits)))}e{tp.exponent}'
        return f'ok:{tp.sign}:{int("".join(map(str, tp.digits)))}:{-tp.exponent}'
    if t == 'boolean':
        return 'ok:true' if v is True else ('ok:false' if v is False else f'ok:?{v!r}')
    if t in ('double', 'float'):
        if math.isnan(v):
            return 'ok:nan'
        return 'ok:' + fhex(v)
    if t in ('hexBinary', 'base64Binary'):
        return 'ok:' + v.value.decode('ascii', 'replace')
    raise KeyError(t)


def norm_dec_text(v: Decimal) -> str:
    tp = v.as_tuple()
    n = int(''.join(map(str, tp.digits)))
    k = -tp.exponent
    while k < 0:
        n *= 10
        k += 1
    while k > 0 and n % 10 == 0:
        n //= 10
        k -= 1
    if tp.sign:
        n = -n
    return f'ok:{n}:{k}'


def modelN_text(t: str, v) -> str:
    """value-normalised text (what the spec prints)"""
    if t == 'decimal':
        return norm_dec_text(v)
    if t == 'hexBinary' or t == 'base64Binary':
        return 'ok:[' + ','.join(str(b) for b in v.decode()) + ']'
    return model_text(t, v)


def float_ref(t: str, s: str) -> float:
    """trusted reference for the *finite value* of a numeric literal: CPython float() (correctly rounded);
    for xs:float the clamping of numeric.py:62-68 (values beyond the float range -> INF / 0)"""
    x = float(s)
    if t == 'float':
        if x > 3.4028235E38:
            return math.inf
        if x < -3.4028235E38:
            return -math.inf
        if -1e-37 < x < 1e-37:
            return -0.0 if str(x).startswith('-') else 0.0
    return x


# ------------------------------------------------------------------------------ implementation paths
class Impl:
    def __init__(self):
        import xml.etree.ElementTree as ET
        from elementpath import XPath2Parser, XPathContext
        from elementpath.xpath31 import XPath31Parser
        from elementpath.datatypes import builtin_atomic_types
        self.types = {k[3:]: v for k, v in builtin_atomic_types.items() if k.startswith('xs:')}
        self.root = ET.XML('<r/>')
        self.XPathContext = XPathContext
        self.parsers = {}
        from elementpath.xpath30 import XPath30Parser
        self.parser_classes = {'2': XPath2Parser, '30': XPath30Parser, '31': XPath31Parser}
        for pname, P in self.parser_classes.items():
            for v in ('1.0', '1.1'):
                self.parsers[(pname, v)] = P(xsd_version=v)
        self.tokens = {}

    def token(self, pname: str, v: str, expr: str):
        key = (pname, v, expr)
        tok = self.tokens.get(key)
        if tok is None:
            try:
                tok = self.parsers[(pname, v)].parse(expr)
            except Exception as e:   # static errors are part of the behaviour
                tok = e
            self.tokens[key] = tok
        return tok

    def option_parser(self, pname: str, name: str, namespaces: dict, default_namespace):
        """a parser with non-default static context options; registered as parsers[(pname, name)]"""
        key = (pname, name)
        if key not in self.parsers:
            kw = {'namespaces': dict(namespaces)}
            if default_namespace is not None:
                kw['default_namespace'] = default_namespace
            self.parsers[key] = self.parser_classes[pname](**kw)
        return key

    def xpath(self, pname: str, v: str, expr: str, variables: dict, timezone=None):
        """-> ('ok', value) | ('err', text)"""
        tok = self.token(pname, v, expr)
        if isinstance(tok, BaseException):
            return 'err', err_text(tok)
        try:
            r = tok.evaluate(self.XPathContext(self.root, variables=variables, timezone=timezone))
        except Exception as e:
            return 'err', err_text(e)
        return 'ok', r

    def public_paths(self, pname: str, v: str, expr: str, variables: dict) -> dict:
        """the same expression through the other public evaluation paths: select(), iter_select(), Selector (a fresh
        parser each), with an lxml element and an ElementTree document as roots"""
        import elementpath
        from elementpath import XPath2Parser
        from elementpath.xpath31 import XPath31Parser
        import lxml.etree as LET
        import xml.etree.ElementTree as ET
        P = XPath2Parser if pname == '2' else XPath31Parser
        out = {}
        roots = {'et-element': self.root, 'lxml-element': LET.XML('<r/>'), 'et-document': ET.ElementTree(ET.XML('<r/>'))}

        def norm(r):
            return 'ok:' + value_text(r)

        for rn, root in roots.items():
            try:
                out[f'select/{rn}'] = norm(elementpath.select(root, expr, parser=P, variables=dict(variables), xsd_version=v))
            except Exception as e:
                out[f'select/{rn}'] = err_text(e)
        try:
            items = list(elementpath.iter_select(self.root, expr, parser=P, variables=dict(variables), xsd_version=v))
            out['iter_select'] = norm(items[0] if len(items) == 1 else items)
        except Exception as e:
            out['iter_select'] = err_text(e)
        try:
            sel = elementpath.Selector(expr, parser=P, xsd_version=v)
            out['Selector'] = norm(sel.select(self.root, variables=dict(variables)))
            out['Selector-2nd-call'] = norm(sel.select(roots['lxml-element'], variables=dict(variables)))
        except Exception as e:
            out['Selector'] = err_text(e)
        return out

    def direct(self, t: str, s, v: str | None):
        """the constructor path of the datatypes layer: T(s) (or T.fromstring / T.make with a version)"""
        from elementpath.datatypes import AbstractDateTime, Duration, AbstractQName
        cls = self.types[t]
        try:
            if v is not None:
                return 'ok', cls.make(s, xsd_version=v)
            if issubclass(cls, (AbstractDateTime, Duration)) and isinstance(s, str):
                return 'ok', cls.fromstring(s)
            if issubclass(cls, AbstractQName):
                return 'ok', cls.make(s, namespaces=self.parsers[('31', '1.1')].namespaces)
            return 'ok', cls(s)
        except Exception as e:
            return 'err', ctor_err_text(e)

    def is_valid(self, t: str, s: str):
        try:
            return '1' if self.types[t].is_valid(s) else '0'
        except Exception as e:
            return 'ERR:OTHER:' + type(e).__name__


# ------------------------------------------------------------------------------ string generators
DIG = '0123456789'
WS_XSD = [' ', '\t', '\n', '\r']
WS_PY_ONLY = ['\x0b', '\x0c', '\x1c', '\x1f', '\x85', ' ', '　', ' ', '\xa0']
NOISE = ['_', '١', '１', 'x', 'e', 'E', '.', '+', '-', ',', 'INF', 'NaN', 'nan', 'inf', 'Infinity',
         '0x', 'd', 'f', 'L', '١', '=', '/', ':', 'Z', 'T', 'P', '#', '%', '{', '}', '\x00', 'é', 'é']


def g_digits(rng, lo=1, hi=6):
    return ''.join(rng.choice(DIG) for _ in range(rng.randint(lo, hi)))


def g_integer(rng, t='integer'):
    r = rng.random()
    if r < 0.35:
        from_bounds = BOUNDS_PY.get(t, (None, None))
        pts = [x for x in from_bounds if x is not None] or [0]
        base = rng.choice(pts + [0, 127, 128, 255, 256, 32767, 32768, 65535, 65536, 2 ** 31, 2 ** 32, 2 ** 63, 2 ** 64,
                                 -128, -129, -32768, -2 ** 31, -2 ** 63])
        v = base + rng.choice([-2, -1, 0, 1, 2])
        s = str(v)
        if v >= 0 and rng.random() < 0.3:
            s = '+' + s
        if rng.random() < 0.2:
            s = s.replace('-', '-000') if s.startswith('-') else '00' + s
        return s
    return rng.choice(['', '', '+', '-']) + g_digits(rng, 1, rng.choice([1, 3, 5, 12, 25]))


def g_decimal(rng):
    sign = rng.choice(['', '', '+', '-'])
    r = rng.random()
    if r < 0.3:
        return sign + g_digits(rng)
    if r < 0.6:
        return sign + g_digits(rng) + '.' + g_digits(rng, 0, 6)
    if r < 0.8:
        return sign + '.' + g_digits(rng)
    return sign + rng.choice(['0', '00', '0.0', '.0', '0.', '000.000', '10.10', '100', '1.50', '0.5', '.5'])


def g_double(rng):
    r = rng.random()
    if r < 0.2:
        return rng.choice(['INF', '-INF', '+INF', 'NaN'])
    m = g_decimal(rng)
    if r < 0.6:
        return m
    return m + rng.choice('eE') + rng.choice(['', '+', '-']) + g_digits(rng, 1, rng.choice([1, 2, 3]))


def g_boolean(rng):
    return rng.choice(['true', 'false', '1', '0'])


def g_hex(rng):
    return ''.join(rng.choice('0123456789abcdefABCDEF') for _ in range(2 * rng.randint(0, 6)))


B64 = 'ABCDEFGHIJKLMNOPQRSTUVWXYZabcdefghijklmnopqrstuvwxyz0123456789+/'


def g_b64(rng):
    import base64
    n = rng.randint(0, 9)
    s = base64.b64encode(bytes(rng.randrange(256) for _ in range(n))).decode()
    if rng.random() < 0.3:   # spaces allowed between characters
        s = ' '.join(s) if rng.random() < 0.5 else ''.join(c + (' ' if rng.random() < 0.3 else '') for c in s)
    if rng.random() < 0.2 and s.endswith('='):   # wrong final character before the padding
        k = len(s.rstrip('= ')) - 1
        s = s[:k] + rng.choice(B64) + s[k + 1:]
    return s


# characters around the borders of the XML 1.0 (5th ed.) NameStartChar / NameChar ranges and of Python's \w, \d:
# accepted or rejected by both; the last groups were classified differently before fix-c10-4 (former F10n)
NAME_EXOTIC = ('\u00e9\u00df\u00c0\u00d6\u00d8\u00f6\u00f8\u02ff\u0370\u037d\u037f\u1fff\u200c\u200d\u2c00\u3001\u4e2d\ud7ff\uf900\ufdcf\ufdf0\ufffd'
               '\U00010000\U000effff\u00b7\u0300\u036f\u203f\u2040\u0660\u0663'           # names per XML
               '\u00d7\u00f7\u037e\u2000\u200b\u200e\u206f\u2190\u2bff\u2ff0\u3000\ud7fb\ufdd0\ufdef\ufffe\uffff\U000f0000\U0010ffff'
               '\u00a0\u00b6\u00b8\u02c2\u2118\u212e\u309b\u2070\u218f'                   # borders, mostly rejected per XML
               '\u00aa\u00b2\u00b3\u00b5\u00b9\u00ba\u00bc\u00be\u2460\u2776\u3192\u0387\u06dd\u06de')  # \w but not XML


def g_name(rng, first='abcXYZ_', rest='abcXYZ_-.09'):
    if rng.random() < 0.3:
        n = rng.randint(0, 4)
        chars = [rng.choice(first + rest + NAME_EXOTIC * 2) if rng.random() < 0.5 else rng.choice(first) ]
        chars += [rng.choice(rest + NAME_EXOTIC) if rng.random() < 0.4 else rng.choice(rest) for _ in range(n)]
        return ''.join(chars)
    return rng.choice(first) + ''.join(rng.choice(rest) for _ in range(rng.randint(0, 5)))


def tz_text(m: int) -> str:
    """independent rendering of an offset in minutes (XSD canonical: 'Z' for 0)"""
    if m == 0:
        return 'Z'
    a = abs(m)
    return ('-' if m < 0 else '+') + f'{a // 60:02d}:{a % 60:02d}'


def g_tz(rng):
    r = rng.random()
    if r < 0.25:
        return ''
    if r < 0.40:
        return rng.choice(['Z', '+00:00', '-00:00', '+14:00', '-14:00', '-00:01', '-00:30', '-00:59', '+00:01', '+00:59',
                           '-01:00', '+13:59', '-13:59'])
    if r < 0.85:
        m = rng.randint(-840, 840)
        return tz_text(m) if m else rng.choice(['Z', '+00:00', '-00:00'])
    return rng.choice(['+14:01', '-14:01', '+5:30', 'z', '+15:00', '+05:60', '-0:30', '+0530', '+24:00', '-00:60', '+05:3'])


def g_year(rng):
    if rng.random() < 0.6:    # a year of the lexical space: both eras, leap and century years, more than four digits
        k = rng.random()
        if k < 0.35:
            return '%04d' % rng.choice([rng.randint(1, 9999), 4, 100, 400, 1900, 2000, 2100, 2024, 1, 9999])
        if k < 0.6:
            return '-%04d' % rng.choice([rng.randint(1, 9999), 1, 4, 5, 100, 101, 400, 401, 9999])
        if k < 0.75:
            return rng.choice(['', '-']) + str(rng.choice([rng.randint(10000, 10 ** 7), 10000, 10004, 12000, 2 ** 31 - 1, 2 ** 31]))
        return rng.choice(['0000', '-0000', '0004', '-0004', '-0005', '0100', '-0100', '-0101', '0400', '-0400', '-0401'])
    return rng.choice(['2000', '1999', '0001', '0000', '-0001', '9999', '10000', '12345', '-0044', '200', '02000',
                       '2024', '1900', '-2000', '2147483648', '2147483649', '-2147483649', '99999999999', '+2000', '--2000',
                       '00001', '-02000', '010000'])


def g_date(rng):
    if rng.random() < 0.5:
        return '%s-%02d-%02d' % (g_year(rng), rng.randint(1, 12), rng.choice([1, 28, 29, 30, 31, rng.randint(1, 31)]))
    return f'{g_year(rng)}-{rng.choice(["01", "02", "12", "13", "00", "1", "06"])}-' \
           f'{rng.choice(["01", "28", "29", "30", "31", "32", "00", "1"])}'


def g_time(rng):
    k = rng.random()
    if k < 0.4:    # a time of the lexical space
        if rng.random() < 0.15:
            return '24:00:00' + rng.choice(['', '.0', '.000', '.0000000'])
        return '%02d:%02d:%02d' % (rng.randint(0, 23), rng.randint(0, 59), rng.randint(0, 59)) + \
               rng.choice(['', '', '.%d' % rng.randint(0, 10 ** 7), '.0', '.000000', '.5', '.999999', '.9999999', '.000001'])
    if k < 0.6:
        return '%02d:%02d:%02d' % (rng.randint(0, 25), rng.randint(0, 61), rng.randint(0, 61)) + \
               rng.choice(['', '', '.%d' % rng.randint(0, 10 ** 7), '.0', '.000000', '.'])
    return f'{rng.choice(["00", "12", "23", "24", "25", "1"])}:{rng.choice(["00", "59", "60", "5"])}:' \
           f'{rng.choice(["00", "59", "60", "00.5", "59.999999", "00.1234567", "5", "00.0", "00.000", "00.0000001"])}'


def g_duration(rng, kind='duration'):
    sign = rng.choice(['', '', '-', '+'])
    ym = rng.choice(['', '1Y', '2M', '1Y2M', '0Y', '13M', '2147483648M', '2147483649M', '178956971Y', '%dY%dM' % (rng.randint(0, 3000), rng.randint(0, 30))])
    d = rng.choice(['', '3D', '0D', '400D'])
    t = rng.choice(['', 'T1H', 'T2M', 'T3S', 'T1H2M3S', 'T0.5S', 'T1.S', 'T', 'T36H', 'T.5S', 'T0.0000005S', 'T0.0000015S',
                    'T0.0000025S', 'T59.9999995S', 'T1M0.1234567S', 'T9223372036854775808S', 'T9223372036854775807S',
                    'T%dH%dM%d.%dS' % (rng.randint(0, 99), rng.randint(0, 99), rng.randint(0, 99), rng.randint(0, 10 ** 7))])
    if kind == 'yearMonthDuration':
        body = ym + (rng.choice(['', '', 'T1H', '1D']))
    elif kind == 'dayTimeDuration':
        body = rng.choice(['', '', '1Y']) + d + t
    else:
        body = ym + d + t
    return sign + 'P' + body


def g_lang(rng):
    if rng.random() < 0.4:
        parts = [''.join(rng.choice('abXY') for _ in range(rng.choice([0, 1, 2, 8, 9])))]
        for _ in range(rng.randint(0, 3)):
            parts.append(''.join(rng.choice('abXY019') for _ in range(rng.choice([0, 1, 3, 8, 9]))))
        return '-'.join(parts)
    return rng.choice(['en', 'en-US', 'fr', 'x-klingon', 'abcdefgh', 'abcdefghi', 'en-', '-en', 'e1', 'en-12345678',
                       'en_US', 'i-navajo', 'de-CH-1996', '', 'en--US', 'en-123456789', 'a-b-c-d-e'])


def g_qname(rng):
    if rng.random() < 0.5:
        parts = [g_name(rng) for _ in range(rng.choice([1, 1, 2, 2, 2, 3]))]
        if rng.random() < 0.15:
            parts[rng.randrange(len(parts))] = rng.choice(['', '1', '-a', 'a b', '.'])
        pre = rng.choice(['', '', ' ', '\n', '\t ']); post = rng.choice(['', '', ' ', '\n', '\r\n'])
        return pre + ':'.join(parts) + post
    return rng.choice(['xs:integer', 'fn:abs', 'local', 'xml:lang', 'nope:x', 'a:b:c', ':a', 'a:', '1a', 'xs:1', 'a b',
                       'Q{http://x}a', '{http://x}a', 'xs: a', g_name(rng), 'xs:' + g_name(rng)])


def g_uri(rng):
    if rng.random() < 0.5:     # assembled from components: scheme, authority (user, host forms, port), path, query, fragment
        scheme = rng.choice(['', '', 'http:', 'urn:', 'a+b-c.d:', '1a:', ':', 'file:'])
        auth = rng.choice(['', '', '//example.com', '//u:p@h', '//[::1]', '//[::1', '//h:80', '//h:', '//h:99999', '//h:8x',
                           '//[v1.a]', '//1.2.3.4', '//\u00e9.example', '//h]', '//[zz]'])
        path = rng.choice(['', '/', '/a/b', 'a', ':a', '/:a', 'a:b', '../x', '/a b', '/%41', '/%4', '/%zz', '/%', '/100%25', '/%e9%E9'])
        query = rng.choice(['', '', '?q=1', '?a=%20&b', '?%', '?#'])
        frag = rng.choice(['', '', '#f', '#', '#a#b', '##', '#%41', '#%4g'])
        return scheme + auth + path + query + frag
    if rng.random() < 0.25:    # the path as urlparse sees it starts (or nearly starts) with ':' — the library's own path check
        head = rng.choice([':', ':', '::', ':a', ':/', ':/a', '://x', ':1', ':a:b', ' :a', ':a ', '\t:'])
        pre = rng.choice(['', '', '', 'http:', 'x:', 'a+b:', '1:', '+:', '/', './', '//h', '//h/', '//', 'a'])
        tail = rng.choice(['', '', 'b', '/c', '?q', '#f', '?q#f', '%41', '#'])
        return pre + head + tail
    return rng.choice(['http://example.com/a?b=c#d', 'urn:x:y', '', 'a b', '%20', '%zz', 'http://[::1]/', 'http://[::1',
                       '../x', '#f', 'mailto:a@b', 'http://a/b c', ':', '1:', 'http://é.example/', 'a\\b', '%',
                       'file:///c|/x', '\\\\host\\share', '%41%', '%4', 'a%٤١', '%\uff14\uff11', '#a#'])


def g_text(rng):
    alpha = 'ab 1\t\n\r\xa0 é.-_:'
    return ''.join(rng.choice(alpha) for _ in range(rng.randint(0, 8)))


GENS = {
    'decimal': g_decimal, 'double': g_double, 'float': g_double, 'boolean': g_boolean,
    'hexBinary': g_hex, 'base64Binary': g_b64,
    'string': g_text, 'normalizedString': g_text, 'token': g_text, 'untypedAtomic': g_text,
    'language': g_lang,
    'Name': lambda r: g_name(r, 'abcXYZ_:', 'abcXYZ_-.09:'), 'NCName': g_name, 'ID': g_name, 'IDREF': g_name,
    'ENTITY': g_name, 'NMTOKEN': lambda r: g_name(r, 'abc09-.:_', 'abc09-.:_'),
    'QName': g_qname, 'anyURI': g_uri,
    'date': lambda r: g_date(r) + g_tz(r),
    'dateTime': lambda r: g_date(r) + 'T' + g_time(r) + g_tz(r),
    'dateTimeStamp': lambda r: g_date(r) + 'T' + g_time(r) + r.choice(['Z', '+01:00', '', '-05:00']),
    'time': lambda r: g_time(r) + g_tz(r),
    'gYear': lambda r: g_year(r) + g_tz(r),
    'gYearMonth': lambda r: g_year(r) + '-' + r.choice(['01', '12', '13', '00', '1']) + g_tz(r),
    'gMonth': lambda r: '--' + r.choice(['01', '12', '13', '00', '1', '%02d' % r.randint(0, 14)]) + g_tz(r),
    'gMonthDay': lambda r: '--' + r.choice(['01', '02', '04', '06', '09', '11', '12', '13', '%02d' % r.randint(0, 13)]) + '-' +
                           r.choice(['01', '28', '29', '30', '31', '32', '00', '%02d' % r.randint(0, 33)]) + g_tz(r),
    'gDay': lambda r: '---' + r.choice(['01', '31', '32', '00', '1', '%02d' % r.randint(0, 40)]) + g_tz(r),
    'duration': lambda r: g_duration(r), 'yearMonthDuration': lambda r: g_duration(r, 'yearMonthDuration'),
    'dayTimeDuration': lambda r: g_duration(r, 'dayTimeDuration'),
}
for _t in INT_TYPES:
    GENS[_t] = (lambda t: (lambda r: g_integer(r, t)))(_t)

BOUNDS_PY: dict = {}


def mutate(rng, s: str) -> str:
    r = rng.random()
    if r < 0.30:
        return s
    if r < 0.50:   # white space around / inside
        ws = rng.choice([WS_XSD, WS_XSD, WS_XSD + WS_PY_ONLY])
        pre = ''.join(rng.choice(ws) for _ in range(rng.randint(0, 2)))
        post = ''.join(rng.choice(ws) for _ in range(rng.randint(0, 2)))
        if rng.random() < 0.25 and s:
            k = rng.randrange(len(s) + 1)
            s = s[:k] + rng.choice(ws) * rng.randint(1, 2) + s[k:]
        return pre + s + post
    if r < 0.65 and s:   # delete a character
        k = rng.randrange(len(s))
        return s[:k] + s[k + 1:]
    if r < 0.85:   # insert noise
        k = rng.randrange(len(s) + 1)
        return s[:k] + rng.choice(NOISE + list(DIG)) + s[k:]
    if s:   # replace / duplicate
        k = rng.randrange(len(s))
        return s[:k] + rng.choice([s[k] * 2, rng.choice(NOISE), s[k].swapcase()]) + s[k + 1:]
    return s


def gen_string(rng, t: str) -> str:
    if rng.random() < 0.08:   # a form of another type
        t2 = rng.choice(list(GENS))
        return mutate(rng, GENS[t2](rng))
    return mutate(rng, GENS[t](rng))


# seed corpus: the probes of DESIGN.md section 5 and every defect fixed on branch fix-c10
CORPUS = [
    ('float', '1.0'), ('float', '1e5'), ('float', '1.'), ('float', '+INF'), ('double', '+INF'),
    ('integer', '1_0'), ('integer', '١٢'), ('integer', '\xa012'), ('integer', '1 '), ('int', ' 12 '),
    ('byte', '128'), ('byte', '-129'), ('byte', '127'), ('byte', '-128'), ('unsignedByte', '256'), ('unsignedByte', '-0'),
    ('positiveInteger', '0'), ('negativeInteger', '-0'), ('nonPositiveInteger', '+0'),
    ('unsignedLong', '18446744073709551616'), ('unsignedLong', '18446744073709551615'),
    ('long', '9223372036854775808'), ('long', '-9223372036854775808'),
    ('decimal', '1 2'), ('decimal', ' 1. 5'), ('decimal', '.'), ('decimal', '-.'), ('decimal', '+.5'), ('decimal', '5.'),
    ('decimal', '-0.0'), ('decimal', '1e2'),
    ('double', '-nan'), ('double', '+NaN'), ('double', '1_0'), ('double', '١'), ('double', 'inf'), ('double', 'Infinity'),
    ('double', '1e'), ('double', '.e1'), ('double', '1.e1'), ('double', '.5e-3'), ('double', '1e400'), ('float', '1e39'),
    ('float', '1e-40'), ('float', '-1e-40'),
    ('boolean', '\xa0true'), ('boolean', ' true '), ('boolean', 'TRUE'), ('boolean', '0 1'), ('boolean', 'true\n'),
    ('integer', '12\n'), ('hexBinary', '0F\n'), ('hexBinary', '\xa00F'), ('hexBinary', '0 F'), ('hexBinary', '0f'),
    ('base64Binary', 'AA= ='), ('base64Binary', 'AB=='), ('base64Binary', 'A A A A'), ('base64Binary', 'AAAA\n'),
    ('base64Binary', 'AA==AAAA'), ('base64Binary', '='),
    ('token', 'a  b'), ('language', 'en-US '), ('NCName', 'a:b'), ('date', '2000-02-30'), ('dateTime', '0000-01-01T00:00:00'),
    ('gYear', '0000'), ('duration', 'P'), ('duration', 'PT'), ('anyURI', 'a b'), ('QName', 'xs:integer'),
]


def urlparse_oracle(s: str):
    """the standard library's part of AnyURI.validate: (1 if urlparse / .port raised ValueError else 0, the path component)"""
    from urllib.parse import urlparse
    v = xsd_collapse(s)
    try:
        parts = urlparse(v)
        _ = parts.port
        return 0, parts.path
    except ValueError:
        return 1, ''


def name_boundary_cases():
    """every border of the XML 1.0 (5th ed.) NameStartChar / NameChar ranges (first and last code point of each range and the
    neighbours outside), in first and in later position, for the four pattern families — a deterministic sweep"""
    ranges = [(0x41, 0x5A), (0x5F, 0x5F), (0x61, 0x7A), (0xC0, 0xD6), (0xD8, 0xF6), (0xF8, 0x2FF), (0x370, 0x37D), (0x37F, 0x1FFF),
              (0x200C, 0x200D), (0x2070, 0x218F), (0x2C00, 0x2FEF), (0x3001, 0xD7FF), (0xF900, 0xFDCF), (0xFDF0, 0xFFFD),
              (0x10000, 0xEFFFF), (0x2D, 0x2E), (0x30, 0x39), (0x3A, 0x3A), (0xB7, 0xB7), (0x300, 0x36F), (0x203F, 0x2040)]
    cps_ = sorted({c for a, b in ranges for c in (a - 1, a, b, b + 1) if 0 < c < 0x110000 and not 0xD800 <= c < 0xE000})
    out = []
    for t in ('NCName', 'Name', 'NMTOKEN', 'QName'):
        for c in cps_:
            out.append((t, chr(c)))
            out.append((t, 'a' + chr(c)))
        if t == 'QName':
            out += [(t, 'p:' + chr(c)) for c in cps_[::3]] + [(t, chr(c) + ':a') for c in cps_[1::3]]
    return out


def date_fields_text(kind, val):
    """(text, fields) of a date/time value: `ok:year:month:day:us:tz` as the Lean driver prints Cal.DT"""
    if kind != 'ok':
        return str(val), None
    try:
        tz = val.tzinfo
        if tz is None:
            tzm = 'n'
        else:
            off = tz.utcoffset(None)
            tot = off.days * 86400 + off.seconds
            tzm = str(tot // 60) if tot % 60 == 0 and off.microseconds == 0 else f'?{off!r}'
        us = ((val.hour * 60 + val.minute) * 60 + val.second) * 10 ** 6 + val.microsecond
        fields = (val.year, val.month, val.day, us, tzm)
        return 'ok:%d:%d:%d:%d:%s' % fields, fields
    except Exception as e:
        return 'ERR:OTHER:' + type(e).__name__, None


# ------------------------------------------------------------------------------ lexical correspondence
def x_paths(impl: Impl, t: str, s, v: str, pnames=('2', '31')):
    """the four XPath paths under XSD version v -> dict name -> ('ok', value) | ('err', text)"""
    out = {}
    for pn in pnames:
        if t == 'QName' and pn == '2':
            continue   # XPath 2.0 allows only string literals as operand of a cast to xs:QName
        out[f'cast{pn}'] = impl.xpath(pn, v, f'$s cast as xs:{t}', {'s': s})
        out[f'fn{pn}'] = impl.xpath(pn, v, f'xs:{t}($s)', {'s': s})
        out[f'castable{pn}'] = impl.xpath(pn, v, f'$s castable as xs:{t}', {'s': s})
    return out


def lexical_cases(run: Run, impl: Impl, cases: list) -> None:
    """cases: (type, string).  For every case all paths under both XSD versions."""
    st = run.stats
    lines = []
    for t, s in cases:
        if t in MODELLED:
            for v in ('none', '10', '11'):
                lines.append(f'op=ctor T={t} V={v} S={cps(s)}')
            lines.append(f'op=valid T={t} S={cps(s)}')
        elif t in DUR_TYPES:
            lines.append(f'op=dur K={t} S={cps(s)}')
        elif t in GREG_TYPES:
            lines.append(f'op=greg K={t} S={cps(s)}')
        elif t == 'language':
            lines.append(f'op=lang S={cps(s)}')
        elif t in NAME_TYPES:
            lines.append(f'op=name K={NAME_TYPES[t]} S={cps(s)}')
        elif t in STR_TYPES:
            lines.append(f'op=str K={t} S={cps(s)}')
        elif t == 'anyURI':
            fails_, path_ = urlparse_oracle(s)
            lines.append(f'op=uri F={fails_} P={cps(path_)} S={cps(s)}')
        elif t in DATE_TYPES:
            lines.append(f'op=date K={t} V=11 S={cps(s)}')
            if t != 'dateTimeStamp':
                lines.append(f'op=date K={t} V=10 S={cps(s)}')
    answers = iter(run.driver('C10', lines))

    def parse(ans):
        f = dict(kv.split('=', 1) for kv in ans.split(' ') if '=' in kv)
        return f.get('model'), f.get('modelN'), f.get('spec'), f.get('inK', '')

    for t, s in cases:
        case = {'type': t, 'string': s, 'cps': cps(s)}
        modelled = t in MODELLED
        st.case(['lex', t, s], nontrivial=True)
        st.count('lex:type:' + t)
        m = {}
        if modelled:
            for v in ('none', '10', '11'):
                m[v] = parse(next(answers))
            mvalid = parse(next(answers))
            fl = m['none'][3]
        else:
            if t in DUR_TYPES:
                dur_ans = parse(next(answers))
            if t in GREG_TYPES:
                greg_ans = parse(next(answers))
            if t == 'language':
                lang_ans = parse(next(answers))
            if t in NAME_TYPES:
                name_ans = parse(next(answers))
            if t in STR_TYPES:
                str_ans = parse(next(answers))
            if t == 'anyURI':
                uri_ans = parse(next(answers))
            if t in DATE_TYPES:
                date_ans = {'11': parse(next(answers))}
                if t != 'dateTimeStamp':
                    date_ans['10'] = parse(next(answers))
            fl = ('w' if any((c.isspace() and c not in ' \t\n\r') for c in s) else '') + \
                 ('v' if s != xsd_collapse(s) else '')
        tags_w = []   # F10w, F10v are fixed on fix-c10-2: nothing is excused any more
        tags_v = []
        if 'w' in fl:
            st.count('lex:flag:non-xsd-white')
        if 'v' in fl:
            st.count('lex:flag:not-ws-normal')

        # ---- path 1: constructor of the datatypes layer, no version
        qname_ns_error = False
        if t == 'QName':
            kind, val = impl.xpath('31', '1.1', 'xs:QName($s)', {'s': s})
            if kind != 'ok':
                qname_ns_error = val == 'ERR:FONS0004'   # unknown prefix: not a lexical condition
                val = 'ERR:V'
        else:
            kind, val = impl.direct(t, s, None)
        d_text = ('ok:' + value_text(val)) if kind == 'ok' else val
        st.count('lex:ctor:' + ('ok' if kind == 'ok' else val))
        if modelled:
            mm, mn, sp, _ = m['none']
            i_raw = model_text(t, val) if kind == 'ok' else val
            i_norm = modelN_text(t, val) if kind == 'ok' else val
            if t in ('double', 'float') and kind == 'ok' and mm == 'ok:num':
                # finite value: trusted reference float(collapsed literal) (+ xs:float clamping)
                ref = float_ref(t, xsd_collapse_py(s))
                ref_t = 'ok:' + fhex(ref)
                if i_raw != ref_t:
                    run.disagree(Disagreement(case, impl=i_raw, model=ref_t, spec=ref_t, what='ctor-float-value',
                                              site=f'datatypes {t}'))
                i_raw = i_norm = 'ok:num'
            elif t in ('double', 'float') and kind == 'ok':
                i_raw = i_norm = {'nan': 'ok:nan', 'inf': 'ok:inf', '-inf': 'ok:-inf'}.get(fhex(val), 'ok:num!' + fhex(val))
            if i_norm != sp:
                run.disagree(Disagreement(case, impl=i_norm, model=mn, spec=sp, what='ctor-vs-lexical-space',
                                          site=f'datatypes {t}(str)', tags=tags_w))
            elif i_raw != mm:
                run.disagree(Disagreement(case, impl=i_raw, model=mm, what='ctor-model', site=f'datatypes {t}(str)'))
            # is_valid
            iv = impl.is_valid(t, s)
            st.count('lex:is_valid:' + iv)
            if iv != mvalid[2]:
                run.disagree(Disagreement(case, impl=iv, model=mvalid[0], spec=mvalid[2], what='is_valid-vs-constructor',
                                          site=f'{t}.validate', tags=tags_v + tags_w))
            elif iv != mvalid[0]:
                run.disagree(Disagreement(case, impl=iv, model=mvalid[0], what='is_valid-model', site=f'{t}.validate'))
            # spec sanity: spec of is_valid == spec ctor ok (same definition, printed twice)
        else:
            if t in DUR_TYPES:
                # Lean model (exact mirror incl. overflow limits and microsecond rounding) and XSD value
                mm, _, sp, _ = dur_ans
                if kind == 'ok':
                    try:
                        got_d = f'ok:{val.months}:{int(val.seconds * 10 ** 6)}'
                    except Exception as e:
                        got_d = 'ERR:OTHER:' + type(e).__name__
                else:
                    got_d = {'ERR:A': 'ERR:O'}.get(val, val)
                st.count('lex:duration-model:' + (got_d if got_d.startswith('ERR') else 'ok'))
                spec_cmp = sp
                if sp.endswith(':~') and got_d.startswith('ok:'):     # > 6 fraction digits: months only
                    spec_cmp = got_d if got_d.split(':')[1] == sp.split(':')[1] else sp
                if got_d == 'ERR:O' and mm == 'ERR:O':
                    spec_cmp = got_d      # implementation limit (2^31 months / 2^63 seconds): FODT0002, not a lexical matter
                if got_d != spec_cmp:
                    run.disagree(Disagreement(case, impl=got_d, model=mm, spec=spec_cmp, what='duration-vs-xsd-value',
                                              site=f'datetime.py {t}.fromstring'))
                elif got_d != mm:
                    run.disagree(Disagreement(case, impl=got_d, model=mm, what='duration-model',
                                              site=f'datetime.py {t}.fromstring'))
            if t == 'language':
                mm, _, sp, _ = lang_ans
                got_l = ('ok:' + cps(str(val))) if kind == 'ok' else val
                st.count('lex:language-model')
                if got_l != sp:
                    run.disagree(Disagreement(case, impl=got_l, model=mm, spec=sp, what='language-vs-xsd',
                                              site='string.py Language.__new__'))
                elif got_l != mm:
                    run.disagree(Disagreement(case, impl=got_l, model=mm, what='language-model', site='string.py Language.__new__'))
            if t in NAME_TYPES:
                mm, _, sp, nfl = name_ans
                if t == 'QName':
                    got_n = 'ok' if kind == 'ok' else val
                else:
                    got_n = ('ok:' + cps(str(val))) if kind == 'ok' else val
                st.count('lex:name-model:' + t)
                if 'n' in nfl:     # cannot happen while EPV.C10.name_tables_agree holds (F10n fixed on fix-c10-4)
                    st.count('lex:flag:name-char-classified-differently')
                tags_n = []
                if t == 'QName':
                    # the constructor itself with a bound namespace: any prefix is acceptable, only the lexical form counts
                    try:
                        impl.types['QName']('urn:x', s)
                        got_q = 'ok'
                    except ValueError:
                        got_q = 'ERR:V'
                    except Exception as e:
                        got_q = 'ERR:OTHER:' + type(e).__name__
                    st.count('lex:qname-ctor-bound:' + got_q)
                    if got_q != mm:
                        run.disagree(Disagreement(case, impl=got_q, model=mm, what='qname-ctor-model', site='qname.py AbstractQName.__init__'))
                    if got_q != sp:
                        run.disagree(Disagreement(case, impl=got_q, model=mm, spec=sp, what='qname-ctor-vs-xml-production',
                                                  site='qname.py AbstractQName.__init__', tags=[]))
                if qname_ns_error:
                    pass       # undeclared prefix (FONS0004): only the bound constructor above is compared
                elif got_n != mm:        # the tie first: the tables of the model are generated from the live patterns
                    run.disagree(Disagreement(case, impl=got_n, model=mm, what='name-model', site=f'datatypes {t}.pattern'))
                    if got_n != sp:
                        run.disagree(Disagreement(case, impl=got_n, model=mm, spec=sp, what='name-vs-xml-production',
                                                  site=f'datatypes {t}.pattern', tags=tags_n))
                elif got_n != sp:
                    run.disagree(Disagreement(case, impl=got_n, model=mm, spec=sp, what='name-vs-xml-production',
                                              site=f'datatypes {t}.pattern', tags=tags_n))
            if t == 'anyURI':
                mm, _, sp, _ = uri_ans
                got_u = ('ok:' + cps(str(val))) if kind == 'ok' else val
                st.count('lex:anyURI-model:' + ('ok' if kind == 'ok' else str(val)))
                want_u = 'ok:' + cps(xsd_collapse(s)) + ':hash=1:pct=1:colon=1'    # colon: RFC 3986 fact checked by the correspondence only
                if kind == 'ok' and (sp != want_u or got_u != sp.split(':hash=')[0]):
                    # what an accepted value must look like (EPV.C10.anyURI_accepted; the leading-colon fact rests on urlparse's path and is observed, not proved)
                    run.disagree(Disagreement(case, impl=got_u, model=mm, spec=sp, what='anyURI-accepted-shape',
                                              site='uri.py AnyURI.validate'))
                elif got_u != mm:
                    run.disagree(Disagreement(case, impl=got_u, model=mm, what='anyURI-model', site='uri.py AnyURI.validate'))
            if t in STR_TYPES:
                mm, _, sp, _ = str_ans
                if kind == 'ok':
                    try:
                        got_t = 'ok:' + cps(val.value if t == 'untypedAtomic' else str(val))
                    except Exception as e:
                        got_t = 'ERR:OTHER:' + type(e).__name__
                else:
                    got_t = val
                st.count('lex:string-model:' + t)
                if got_t != mm:
                    run.disagree(Disagreement(case, impl=got_t, model=mm, what='string-type-model', site=f'datatypes {t}'))
                if got_t != sp:
                    run.disagree(Disagreement(case, impl=got_t, model=mm, spec=sp, what='string-type-vs-whitespace-facet',
                                              site=f'datatypes {t}'))
            if t in DATE_TYPES:
                for ver, (mm, _, sp, _) in date_ans.items():
                    if ver == '11':
                        k2, v2 = kind, val
                    else:     # the XSD 1.0 classes through the public path
                        k2, v2 = impl.xpath('2', '1.0', f'xs:{t}($s)', {'s': s})
                        if k2 != 'ok':
                            v2 = {'ERR:FORG0001': 'ERR:V', 'ERR:FODT0001': 'ERR:A'}.get(v2, v2)
                    st.count(f'lex:date-model:{t}/{ver}:' + ('ok' if k2 == 'ok' else str(v2)))
                    got_d, ok_fields = date_fields_text(k2, v2)
                    if got_d != {'ERR:O': 'ERR:A'}.get(mm, mm):
                        run.disagree(Disagreement(dict(case, xsd=ver), impl=got_d, model=mm, what='date-model',
                                                  site=f'datetime.py {t}.fromstring (XSD {ver})'))
                    # against the lexical productions: acceptance, and the fields of the literal
                    if sp == 'ERR:V':
                        want = 'error'
                        got_s = 'error' if k2 != 'ok' else got_d
                    else:
                        f = sp.split(':')[1:]
                        ay, fm, fd_, fh, fmi, fs_, fus = (int(x) for x in f[:7])
                        stored = ay if ay > 0 else ay - 1
                        if abs(stored) >= 2 ** 31:
                            continue           # beyond the implementation's year limit nothing is specified
                        if fh == 24:
                            want = f'ok:tz={f[7]}'
                            got_s = f'ok:tz={ok_fields[4]}' if ok_fields else got_d
                        else:
                            want = f'ok:{ay}:{fm}:{fd_}:{((fh * 60 + fmi) * 60 + fs_) * 10 ** 6 + fus}:{f[7]}'
                            if ok_fields:
                                iy = ok_fields[0]
                                got_s = f'ok:{iy if iy > 0 else iy + 1}:{ok_fields[1]}:{ok_fields[2]}:{ok_fields[3]}:{ok_fields[4]}'
                            else:
                                got_s = got_d
                    if got_s != want:
                        run.disagree(Disagreement(dict(case, xsd=ver), impl=got_s, model=mm, spec=want, what='date-vs-xsd-lexical',
                                                  site=f'datetime.py {t}.fromstring (XSD {ver})'))
            if t in GREG_TYPES:
                mm, _, sp, _ = greg_ans
                if kind == 'ok':
                    try:
                        off = val.tzinfo.utcoffset(None) if val.tzinfo is not None else None
                        tzm = 'none' if off is None else str(off.days * 1440 + off.seconds // 60)
                        got_g = f'ok:{val.month}:{val.day}:{val.hour}:{val.minute}:{val.second}:{val.microsecond}:{tzm}'
                    except Exception as e:
                        got_g = 'ERR:OTHER:' + type(e).__name__
                else:
                    got_g = val
                st.count('lex:greg-model:' + ('ok' if kind == 'ok' else val))
                if got_g != sp:
                    run.disagree(Disagreement(case, impl=got_g, model=mm, spec=sp, what='time-gregorian-vs-xsd',
                                              site=f'datetime.py {t}.fromstring'))
                elif got_g != mm:
                    run.disagree(Disagreement(case, impl=got_g, model=mm, what='time-gregorian-model',
                                              site=f'datetime.py {t}.fromstring'))
            if t in XSD_REF:
                want = 'ok' if xsd_ref_ok(t, s) else 'ERR:V'
                got = 'ok' if kind == 'ok' else val
                if t in DUR_TYPES and val == 'ERR:A':
                    got = 'ok'    # OverflowError (FODT0002): implementation limit on a literal of the lexical space
                st.count(f'lex:xsd-reference-regex:{t}')
                if got != want:
                    run.disagree(Disagreement(case, impl=got, spec=want, what='ctor-vs-xsd-reference-regex',
                                              site=f'datatypes {t}', tags=[]))
            # is_valid agrees with the constructor (path against path)
            if t not in ('string', 'untypedAtomic') and not qname_ns_error:
                iv = impl.is_valid(t, s)
                expect = '1' if kind == 'ok' else '0'
                st.count('lex:is_valid:' + iv)
                if iv != expect:
                    tags_p = []   # F10p fixed on fix-c10-2
                    run.disagree(Disagreement(case, impl=iv, spec=expect, what='is_valid-vs-constructor(path)',
                                              site=f'{t}.validate', tags=tags_v + tags_w + tags_p))

        # ---- validate() accepts an instance of the type itself
        if kind == 'ok' and t not in ('QName', 'string', 'untypedAtomic'):
            try:
                own = '1' if impl.types[t].is_valid(val) else '0'
            except Exception as e:
                own = 'ERR:OTHER:' + type(e).__name__
            st.count('lex:is_valid(instance)')
            if own != '1':
                run.disagree(Disagreement(case, impl=own, spec='1', what='is_valid-of-own-instance', site=f'{t}.validate'))

        # ---- date/time family: the canonical string against an independently computed expectation
        if kind == 'ok' and t in TZ_BASE:
            exp = expected_date_canonical(t, s)
            if exp is not None:
                st.count('lex:date-canonical-expected')
                try:
                    got_c = str(val)
                except Exception as e:
                    got_c = 'ERR:OTHER:' + type(e).__name__
                if got_c != exp:
                    run.disagree(Disagreement(case, impl=got_c, spec=exp, what='date-canonical-string',
                                              site=f'{t}.__str__ / Timezone', tags=tags_w))
        # ---- canonical string re-parsed: equal value, equal hash
        if kind == 'ok' and t not in ('QName',):
            try:
                cs = canon_str(val)
                if cs is not None:
                    k2, v2 = impl.direct(t, cs, None)
                    if k2 != 'ok':
                        run.disagree(Disagreement(dict(case, canonical=cs), impl=v2, spec='ok', what='canonical-reparse',
                                                  site=f'{t}.__str__'))
                    else:
                        same = (v2 == val) and (hash(v2) == hash(val)) and canon_str(v2) == cs
                        if not same:
                            run.disagree(Disagreement(dict(case, canonical=cs), impl='ne:' + value_text(v2),
                                                      spec='eq:' + value_text(val), what='canonical-fixed-point',
                                                      site=f'{t}.__str__/__eq__/__hash__',
                                                      tags=[]))
                        st.count('lex:canonical-reparsed')
            except Exception as e:
                run.disagree(Disagreement(case, impl='ERR:OTHER:' + type(e).__name__, spec='ok', what='canonical-exception',
                                          site=f'{t}.__str__'))

        # ---- XPath paths under both versions
        for v, vk in (('1.0', '10'), ('1.1', '11')):
            paths = x_paths(impl, t, s, v)
            if t == 'QName':     # needs the in-scope namespaces: the constructor function is the reference path
                dk, dv = paths['fn31']
                if dk != 'ok':
                    dk, dv = 'err', {'ERR:FORG0001': 'ERR:V', 'ERR:FONS0004': 'ERR:NS'}.get(dv, dv)
            else:
                dk, dv = impl.direct(t, s, v)
            # expected from the versioned constructor path
            if run.rng.random() < 0.04 and t != 'QName':
                # the other public evaluation paths must give what token.evaluate() gives
                pn_ = run.rng.choice(['2', '31'])
                for form, key in ((f'$s cast as xs:{t}', f'cast{pn_}'), (f'xs:{t}($s)', f'fn{pn_}'),
                                  (f'$s castable as xs:{t}', f'castable{pn_}')):
                    k0, r0 = paths[key]
                    base = ('ok:' + value_text(r0)) if k0 == 'ok' else r0
                    for pname_, got_ in impl.public_paths(pn_, v, form, {'s': s}).items():
                        st.count('lex:public-path:' + pname_.split('/')[0])
                        if got_ != base:
                            run.disagree(Disagreement(dict(case, xsd=v, expr=form, path=pname_), impl=got_, spec=base,
                                                      what='public-path-vs-evaluate', site='xpath_selectors.py / XPathContext'))
            for name, (k, r) in paths.items():
                st.count(f'lex:{name[:-1] if name[-1] in "2" else name[:-2]}:' + ('ok' if k == 'ok' else r))
                if name.startswith('castable'):
                    got = ('1' if r is True else '0' if r is False else f'?{r!r}') if k == 'ok' else r
                    expect = '1' if dk == 'ok' else '0'
                    if t == 'dateTimeStamp' and v == '1.0':
                        continue
                    if got != expect:
                        run.disagree(Disagreement(dict(case, xsd=v, path=name), impl=got, spec=expect,
                                                  what='castable-vs-constructor', site='_xpath2_operators.py castable',
                                                  tags=[]))
                    continue
                got = ('ok:' + value_text(r)) if k == 'ok' else r
                expect = ('ok:' + value_text(dv)) if dk == 'ok' else expected_code(t, dv)
                if t == 'dateTimeStamp' and v == '1.0':
                    continue   # xs:dateTimeStamp is not defined with XSD 1.0
                if got != expect:
                    run.disagree(Disagreement(dict(case, xsd=v, path=name), impl=got, spec=expect,
                                              what='cast-vs-constructor', site='_xpath2_constructors.py cast'))
            if modelled:
                mm, mn, sp, _ = m[vk]
                i_norm = modelN_text(t, dv) if dk == 'ok' else dv
                if t in ('double', 'float') and dk == 'ok':
                    i_norm = {'nan': 'ok:nan', 'inf': 'ok:inf', '-inf': 'ok:-inf'}.get(fhex(dv), 'ok:num')
                    if mm == 'ok:num':
                        i_norm = 'ok:num'
                if i_norm != sp:
                    run.disagree(Disagreement(dict(case, xsd=v), impl=i_norm, model=mn, spec=sp,
                                              what='ctor-vs-lexical-space', site=f'datatypes {t}.make(str, xsd_version)',
                                              tags=tags_w))
                elif i_norm != mn:
                    run.disagree(Disagreement(dict(case, xsd=v), impl=i_norm, model=mn, what='ctor-model',
                                              site=f'datatypes {t}.make(str, xsd_version)'))


def canon_str(val):
    """the canonical string of a value built by the datatypes layer (None: rendered only by string_value)"""
    if isinstance(val, bool):
        return 'true' if val else 'false'
    if isinstance(val, (float, Decimal)):
        return None
    return str(val)


DATE_FAMILY = ['date', 'dateTime', 'dateTimeStamp', 'time', 'gYear', 'gYearMonth', 'gMonth', 'gMonthDay', 'gDay',
               'duration', 'yearMonthDuration', 'dayTimeDuration']
PATTERN_TEXT: dict = {}


def pattern_matches(t: str, s: str) -> bool:
    import re
    p = PATTERN_TEXT.get(t)
    return p is not None and re.match(p, s) is not None


# XSD 1.1 Part 2 regular expressions of types that have no Lean recogniser but a complete lexical definition
# by a regular expression in the recommendation (3.3.6 duration, 3.3.8 time, 3.3.12-14 gMonthDay/gDay/gMonth,
# 3.4.3 language, 3.4.26/27 yearMonthDuration / dayTimeDuration): reference recognisers of the harness
# (model validation by observation, not proof)
_TZ = r'(Z|(\+|-)((0[0-9]|1[0-3]):[0-5][0-9]|14:00))?'
_DT = r'(T(([0-9]+H)([0-9]+M)?([0-9]+(\.[0-9]+)?S)?|([0-9]+M)([0-9]+(\.[0-9]+)?S)?|([0-9]+(\.[0-9]+)?S)))'
XSD_REF = {
    'language': r'[a-zA-Z]{1,8}(-[a-zA-Z0-9]{1,8})*',
    'gDay': r'---(0[1-9]|[12][0-9]|3[01])' + _TZ,
    'gMonth': r'--(0[1-9]|1[0-2])' + _TZ,
    'gMonthDay': r'--(0[1-9]|1[0-2])-(0[1-9]|[12][0-9]|3[01])' + _TZ,
    'time': r'(([01][0-9]|2[0-3]):[0-5][0-9]:[0-5][0-9](\.[0-9]+)?|(24:00:00(\.0+)?))' + _TZ,
    'duration': r'-?P((([0-9]+Y([0-9]+M)?([0-9]+D)?|([0-9]+M)([0-9]+D)?|([0-9]+D))' + _DT + r'?)|' + _DT + r')',
    'yearMonthDuration': r'-?P((([0-9]+Y)([0-9]+M)?)|([0-9]+M))',
    'dayTimeDuration': r'-?P(([0-9]+D)' + _DT + r'?|' + _DT + r')',
}


def xsd_ref_ok(t: str, s: str) -> bool:
    import re
    x = xsd_collapse(s)
    if not re.fullmatch(XSD_REF[t], x):
        return False
    if t == 'gMonthDay':     # 3.3.12: the day must exist in the month (February: up to 29)
        return int(x[5:7]) <= [0, 31, 29, 31, 30, 31, 30, 31, 31, 30, 31, 30, 31][int(x[2:4])]
    return True


def zero_foreign_components(t: str, s: str) -> bool:
    """trigger of F10u: a derived duration type, the string is an xs:duration literal outside the derived
    type's lexical space, and every component the derived type may not have is written with value zero"""
    import re
    if t not in ('yearMonthDuration', 'dayTimeDuration'):
        return False
    x = xsd_collapse(s)
    if not re.fullmatch(XSD_REF['duration'], x) or re.fullmatch(XSD_REF[t], x):
        return False
    m = re.fullmatch(r'-?P(?:([0-9]+)Y)?(?:([0-9]+)M)?(?:([0-9]+)D)?(?:T(?:([0-9]+)H)?(?:([0-9]+)M)?(?:([0-9.]+)S)?)?', x)
    if m is None:
        return False
    y, mo, d, h, mi, sec = m.groups()
    foreign = [d, h, mi, sec] if t == 'yearMonthDuration' else [y, mo]
    return all(v is None or float(v) == 0 for v in foreign)


def expected_code(t: str, ctor_err: str) -> str:
    """the error code the cast layer must produce for a *string* operand when the datatypes constructor
    raised: _xpath2_constructors.py maps ValueError -> FORG0001 (FODT0001/2 for OverflowError of date/duration),
    ArithmeticError -> FOCA0002, TypeError -> XPTY0004/FORG0006"""
    if ctor_err == 'ERR:V':
        return 'ERR:FORG0001'
    if ctor_err == 'ERR:NS':
        return 'ERR:FONS0004'
    if ctor_err == 'ERR:A':
        if t in ('duration', 'yearMonthDuration', 'dayTimeDuration'):
            return 'ERR:FODT0002'
        if t in ('decimal', 'double', 'float') or t in INT_TYPES:
            return 'ERR:FOCA0002'
        return 'ERR:FODT0001'
    return 'ERR:?' + ctor_err


def xsd_collapse(s: str) -> str:
    return ' '.join(x for x in ''.join(' ' if c in '\t\n\r' else c for c in s).split(' ') if x)


def xsd_collapse_py(s: str) -> str:
    from elementpath.helpers import collapse_white_spaces
    return collapse_white_spaces(s)


# ------------------------------------------------------------------------------ canonical strings
def canon_cases(run: Run, impl: Impl) -> None:
    rng = run.rng
    st = run.stats
    n = run.scale(1500, 15000)
    ints = [0, -0, 1, -1, 10, -10, 127, -128, 2 ** 63, -2 ** 63, 10 ** 30, -10 ** 30 + 1] + \
           [rng.randint(-10 ** rng.randint(1, 30), 10 ** rng.randint(1, 30)) for _ in range(n)]
    decs = ['0', '-0', '0.0', '-0.00', '1.50', '-1.50', '100', '100.00', '.5', '5.', '+007.0070', '-.001', '000', '0.10',
            '123456789012345678901234567890.123456789012345678901234567890'] + \
           [mutate(rng, g_decimal(rng)) for _ in range(n)]
    lines = [f'op=canon T=integer I={v}' for v in ints] + [f'op=canon T=decimal S={cps(s)}' for s in decs] + \
            ['op=canon T=boolean B=1', 'op=canon T=boolean B=0']
    ans = run.driver('C10', lines)

    def parse(a):
        f = dict(kv.split('=', 1) for kv in a.split(' ') if '=' in kv)
        return f.get('model'), f.get('modelN'), f.get('spec'), f.get('inK', '')

    k = 0
    for v in ints:
        mm, mn, sp, _ = parse(ans[k]); k += 1
        st.case(['canon-int', v]); st.count('canon:integer')
        kind, r = impl.xpath('2', '1.1', 'string(xs:integer($s))', {'s': str(v)})
        got = r if kind == 'ok' else r
        i2 = str(impl.types['integer'](v))
        for g, site in ((got, 'fn:string'), (i2, 'Integer.__str__')):
            if g != sp:
                run.disagree(Disagreement({'integer': v}, impl=g, model=mm, spec=sp, what='canonical-integer', site=site))
            elif g != mm:
                run.disagree(Disagreement({'integer': v}, impl=g, model=mm, what='canonical-integer-model', site=site))
    for s in decs:
        mm, mn, sp, fl = parse(ans[k]); k += 1
        st.case(['canon-dec', s]); st.count('canon:decimal')
        kind, r = impl.xpath('2', '1.1', 'string(xs:decimal($s))', {'s': s})
        got = r if kind == 'ok' else ('ERR:V' if r == 'ERR:FORG0001' else r)
        tags = []
        if got != sp:
            run.disagree(Disagreement({'decimal': s, 'cps': cps(s)}, impl=got, model=mm, spec=sp, what='canonical-decimal',
                                      site='base.py string_value(Decimal)', tags=tags))
        elif got != mm:
            run.disagree(Disagreement({'decimal': s, 'cps': cps(s)}, impl=got, model=mm, what='canonical-decimal-model',
                                      site='base.py string_value(Decimal)'))
        elif kind == 'ok':
            if mn != '1':
                run.disagree(Disagreement({'decimal': s}, impl=got, model=mn, spec='1', what='canonical-decimal-not-canonical',
                                          site='base.py string_value(Decimal)'))
            # fixed point on the real code: re-parse the canonical string
            k2, r2 = impl.xpath('2', '1.1', 'string(xs:decimal($s))', {'s': got})
            k3, r3 = impl.xpath('2', '1.1', 'xs:decimal($s) eq xs:decimal($t)', {'s': got, 't': s})
            if (k2, r2) != ('ok', got) or (k3, r3) != ('ok', True):
                run.disagree(Disagreement({'decimal': s, 'canonical': got}, impl=f'{r2!r};{r3!r}', spec=f'{got!r};True',
                                          what='canonical-decimal-fixed-point', site='base.py string_value(Decimal)'))
            st.count('canon:decimal-fixed-point')
    for b in (True, False):
        mm, mn, sp, _ = parse(ans[k]); k += 1
        kind, r = impl.xpath('2', '1.1', 'string($s)', {'s': b})
        if r != sp:
            run.disagree(Disagreement({'boolean': b}, impl=r, model=mm, spec=sp, what='canonical-boolean', site='string_value'))


# ------------------------------------------------------------------------------ phase 5: decimal -> string on tuples
def dectuple_cases(run: Run, impl: Impl) -> None:
    """Decimals that did not come from a literal: `Decimal((sign, digits, exp))` passed as a variable.  The model
    (`Lex.pyDecOfTuple` = format(d,'f'), then `Lex.decCanon`), the real `string()` / `xs:string()` / `cast as` paths and the
    numeric spec `XSD.decimalCanon` of ±coef/10^k must agree (theorem `dec_tuple_string_eq_spec`).  A positive exponent is
    handed to the model as coef*10^exp with scale 0 (the same number and the same `format(d,'f')` text)."""
    from decimal import Decimal
    rng = run.rng
    st = run.stats
    n = run.scale(1200, 12000)
    tuples = [(0, (0,), 0), (1, (0,), 0), (1, (0,), -2), (0, (0, 0), -1), (0, (1, 5, 0, 0), -5), (1, (1, 2, 3, 4, 5), -2),
              (0, (7,), 0), (1, (1, 2, 0, 0), 0), (0, (5,), -1), (1, (5,), -3), (0, (1,), 3), (1, (1, 0), 2), (0, (0,), 4),
              (0, (1, 0, 0), -2), (1, (9,) * 30, -15), (0, (1,) + (0,) * 25, -25), (0, (1,), -30)]
    for _ in range(n):
        nd = rng.choice([1, 1, 2, 3, 5, 8, 20, 40])
        kind = rng.randrange(6)
        digs = [rng.randrange(10) for _ in range(nd)]
        if kind == 0:
            digs = [0] * nd                                   # zero coefficient, any scale
        elif kind == 1:
            z = rng.randint(1, nd)
            digs[-z:] = [0] * z                               # trailing zeros
        elif kind == 2:
            z = rng.randint(1, nd)
            digs[:z] = [0] * z                                # leading zeros in the tuple
        exp = -rng.choice([0, 0, 1, 2, nd - 1, nd, nd + 1, nd + rng.randint(0, 6), rng.randint(0, 45)]) \
            if rng.random() < 0.9 else rng.randint(1, 6)
        tuples.append((rng.randrange(2), tuple(digs), exp))
    lines = []
    for sign, digs, exp in tuples:
        coef = int(''.join(map(str, digs)))
        c, k = (coef * 10 ** exp, 0) if exp > 0 else (coef, -exp)
        lines.append(f'op=dectuple N={sign} C={c} K={k}')
    ans = run.driver('C10', lines)
    exprs = [('string($d)', 'fn:string'), ('xs:string($d)', 'xs:string'), ('$d cast as xs:string', 'cast as xs:string'),
             ('string($d cast as xs:untypedAtomic)', 'cast as xs:untypedAtomic'), ('concat($d, "")', 'fn:concat')]
    for (sign, digs, exp), a in zip(tuples, ans):
        f = dict(kv.split('=', 1) for kv in a.split(' ') if '=' in kv)
        mm, mfmt, sp = f.get('model'), f.get('modelN'), f.get('spec')
        d = Decimal((sign, digs, exp))
        case = {'decimal-tuple': [sign, ''.join(map(str, digs)), exp]}
        coef = int(''.join(map(str, digs)))
        nontrivial = not (exp == 0 and digs[0] != 0)
        st.case(['dectuple', sign, ''.join(map(str, digs)), exp], nontrivial=nontrivial)
        st.count('dectuple:' + ('zero' if coef == 0 else 'posexp' if exp > 0 else 'integer' if exp == 0 else
                                'fraction-only' if -exp >= len(str(coef)) else 'mixed'))
        if coef == 0 and sign:
            st.count('dectuple:negative-zero')
        if exp < 0 and coef % 10 == 0:
            st.count('dectuple:trailing-zero')
        if digs[0] == 0 and len(digs) > 1:
            st.count('dectuple:leading-zero-digits')
        try:
            pf = format(d, 'f')
        except Exception as e:  # noqa
            pf = 'ERR:OTHER:' + type(e).__name__
        if pf != mfmt:
            run.disagree(Disagreement(case, impl=pf, model=mfmt, what='decimal-format-f-model', site="format(Decimal,'f')"))
        exs = exprs if rng.random() < 0.25 or len(digs) <= 2 else exprs[:2]
        for expr, site in exs:
            kind, r = impl.xpath('2', '1.1', expr, {'d': d})
            got = str(r) if kind == 'ok' else r
            st.count('dectuple-path:' + site)
            if got != sp:
                run.disagree(Disagreement(dict(case, expr=expr), impl=got, model=mm, spec=sp, what='decimal-tuple-string',
                                          site='base.py atomic_string_value/string_value(Decimal) via ' + site))
            elif got != mm:
                run.disagree(Disagreement(dict(case, expr=expr), impl=got, model=mm, what='decimal-tuple-string-model',
                                          site='base.py string_value(Decimal) via ' + site))


# ------------------------------------------------------------------------------ binary codecs
def binary_cases(run: Run, impl: Impl) -> None:
    rng = run.rng
    st = run.stats
    from elementpath.datatypes import HexBinary, Base64Binary
    n = run.scale(1000, 10000)
    octs = [[], [0], [255], [0, 0], [255, 255, 255], [65, 66, 67, 68], list(range(256))] + \
           [[rng.randrange(256) for _ in range(rng.randint(0, rng.choice([3, 8, 40, 100])))] for _ in range(n)]
    lines = []
    for o in octs:
        y = ','.join(map(str, o)) if o else '_'
        lines += [f'op=hexenc Y={y}', f'op=b64enc Y={y}']
    ans = run.driver('C10', lines)

    def parse(a):
        f = dict(kv.split('=', 1) for kv in a.split(' ') if '=' in kv)
        return f.get('model'), f.get('modelN'), f.get('spec')

    k = 0
    for o in octs:
        st.case(['bin', o], nontrivial=len(o) > 0)
        st.count(f'bin:len%3={len(o) % 3}')
        hm, hn, hs = parse(ans[k]); k += 1
        bm, bn, bs = parse(ans[k]); k += 1
        want = '[' + ','.join(map(str, o)) + ']'
        case = {'octets': o}
        try:
            import codecs
            h = HexBinary(codecs.encode(bytes(o), 'hex').decode())
            b = Base64Binary(h)                    # cast hexBinary -> base64Binary
            h2 = HexBinary(b)                      # and back
            got = {
                'hex-str': str(h), 'b64-str': str(b).replace('\n', ''),
                'b64-octets': '[' + ','.join(map(str, b.decode())) + ']',
                'hex2-octets': '[' + ','.join(map(str, h2.decode())) + ']',
                'eq': str(h == b and b == h2 and hash(h) == hash(h2)),
            }
        except Exception as e:
            got = {'exception': 'ERR:OTHER:' + type(e).__name__}
        exp = {'hex-str': hm, 'b64-str': bm, 'b64-octets': want, 'hex2-octets': want, 'eq': 'True'}
        for key in exp:
            if got.get(key) != exp[key]:
                spec = want if key.endswith('octets') else None
                if key == 'eq':
                    spec = 'True'
                run.disagree(Disagreement(dict(case, check=key), impl=got.get(key, got.get('exception')), model=exp[key],
                                          spec=spec, what='hex-base64-' + key, site='binary.py'))
        # the model's own codecs against the spec octets (model validation)
        for nm, (mn_, sp_) in (('hex', (hn, hs)), ('b64', (bn, bs))):
            if mn_ != want or sp_ != want:
                run.disagree(Disagreement(dict(case, check='model-' + nm), impl=want, model=mn_, spec=sp_,
                                          what='codec-model-self-check', site='lean'))
        if len(str(b)) <= 76:
            # XPath level
            kind, r = impl.xpath('31', '1.1', 'string(xs:hexBinary(xs:base64Binary(xs:hexBinary($s))))', {'s': str(h)})
            if r != hm:
                run.disagree(Disagreement(dict(case, check='xpath-roundtrip'), impl=r, model=hm, spec=hm,
                                          what='hex-base64-xpath-roundtrip', site='_xpath2_constructors.py cast__binary_types'))


# ------------------------------------------------------------------------------ casting matrix (path vs path)
def source_values(impl: Impl, rng) -> dict:
    """source type -> list of XPath expressions producing values of that type"""
    src = {
        'string': ["'abc'", "' 1 '", "'1.50'", "'true'", "'INF'", "''", "'2000-01-01'", "'P1D'", "'0F'", "'xs:a'"],
        'untypedAtomic': ["xs:untypedAtomic('1_0')", "xs:untypedAtomic(' 12 ')", "xs:untypedAtomic('+INF')",
                          "xs:untypedAtomic('true')", "xs:untypedAtomic('1.5')", "xs:untypedAtomic('2000-01-01Z')"],
        'boolean': ['true()', 'false()'],
        'integer': ['0', '12', '-1', '128', '255', '65536', '123456789012345678901234567890'],
        'decimal': ['1.5', '-0.0', '1.50', '100.0', '0.000001', '12345678901234567890.5', '-1.0'],
        'double': ['1e0', '-0e0', '1.5e0', '1e100', '1e-7', "xs:double('NaN')", "xs:double('INF')", "xs:double('-INF')",
                   '1e6', '123456.789e0', '1e21', '0.00001e0', '1e15'],
        'float': ["xs:float('1.5')", "xs:float('NaN')", "xs:float('-INF')", "xs:float('1e10')", "xs:float('0')"],
    }
    lex = {
        'byte': ['1', '-128'], 'short': ['300'], 'int': ['70000'], 'long': ['5000000000'],
        'unsignedByte': ['200'], 'unsignedShort': ['40000'], 'unsignedInt': ['3000000000'],
        'unsignedLong': ['10000000000000000000'], 'nonNegativeInteger': ['0', '7'], 'positiveInteger': ['7'],
        'nonPositiveInteger': ['0', '-7'], 'negativeInteger': ['-7'],
        'date': ['2000-01-01', '1999-12-31Z', '-0044-03-15'], 'dateTime': ['2000-01-01T12:00:00', '1999-12-31T23:59:59.5Z'],
        'time': ['12:00:00', '23:59:59.5+05:30'], 'gYear': ['2000', '1999Z'], 'gYearMonth': ['2000-02'],
        'gMonth': ['--02'], 'gMonthDay': ['--02-29'], 'gDay': ['---31'],
        'duration': ['P1Y2M3DT4H5M6S', '-P1D', 'PT0S'], 'yearMonthDuration': ['P14M', '-P1Y'],
        'dayTimeDuration': ['PT36H', 'P1DT0.5S'],
        'hexBinary': ['0F', '', 'cafe'], 'base64Binary': ['QUJD', '', 'AA=='],
        'anyURI': ['http://example.com/a', 'a%20b'], 'QName': ['xs:integer', 'local'],
        'normalizedString': [' a  b '], 'token': ['a b'], 'language': ['en-US'], 'NMTOKEN': ['a:b'], 'Name': ['a:b'],
        'NCName': ['ab'], 'ID': ['ab'], 'IDREF': ['ab'], 'ENTITY': ['ab'],
    }
    for t, vals in lex.items():
        src[t] = [f"xs:{t}('{v}')" for v in vals]
    src['dateTimeStamp'] = ["xs:dateTimeStamp('2000-01-01T12:00:00Z')"]
    return src


def sequence_cases(run: Run, impl: Impl) -> None:
    """operands that are not a single item: the empty sequence and a sequence of two items, with and without the
    occurrence indicator '?' (XPath 2.0 3.10.2 / 3.10.3; the constructor function xs:T(E) is `E cast as xs:T?`)"""
    st = run.stats
    targets = [t for t in sorted(impl.types) if t not in SKIPPED_TYPES]
    for t in targets:
        for v in ('1.0', '1.1'):
            if t == 'dateTimeStamp' and v == '1.0':
                continue
            for pn in ('2', '31'):
                exp = {
                    f'() cast as xs:{t}?': "ok:[]", f'() castable as xs:{t}?': 'ok:bool:true',
                    f'() cast as xs:{t}': 'ERR:XPTY0004', f'() castable as xs:{t}': 'ok:bool:false',
                    f'xs:{t}(())': 'ok:[]',
                    f'(1, 2) cast as xs:{t}?': 'ERR:XPTY0004', f'(1, 2) castable as xs:{t}?': 'ok:bool:false',
                    f'(1, 2) cast as xs:{t}': 'ERR:XPTY0004', f'(1, 2) castable as xs:{t}': 'ok:bool:false',
                    f'xs:{t}((1, 2))': 'ERR:XPTY0004',
                }
                if t == 'QName' and pn == '2':
                    exp = {k: w for k, w in exp.items() if k.startswith('()') or k.startswith('xs:QName(())')}
                for expr, want in exp.items():
                    k, r = impl.xpath(pn, v, expr, {})
                    got = ('ok:' + value_text(r)) if k == 'ok' else r
                    st.case(['seq', expr, v, pn]); st.count('seq:' + want)
                    if got != want:
                        run.disagree(Disagreement({'expression': expr, 'xsd': v, 'parser': pn}, impl=got, spec=want,
                                                  what='cast-of-empty-or-multiple-items',
                                                  site='_xpath2_operators.py cast/castable, contructors.py evaluate'))


# ------------------------------------------------------------------------------ the value of a QName cast from a string
XML_NS = 'http://www.w3.org/XML/1998/namespace'
XSD_NS = 'http://www.w3.org/2001/XMLSchema'
FN_NS = 'http://www.w3.org/2005/xpath-functions'
# the statically known namespaces are host-defined in XPath: the library documents xml, xs, fn, err for every parser (the
# test strings use only these prefixes, the options' prefixes and undeclared ones such as xsi and zz9)
PREDECLARED = {'xml': XML_NS, 'xs': XSD_NS, 'fn': FN_NS, 'err': 'http://www.w3.org/2005/xqt-errors'}
QNAME_CONFIGS = [     # (name, namespaces= option, default_namespace= option)
    ('default+p+q', {'p': 'urn:p', 'q': 'urn:q'}, 'urn:d'),
    ('p+q', {'p': 'urn:p', 'q': 'urn:q'}, None),
    ('default-only', {}, 'http://example.com/ns'),
    ('default=xsd', {'p': 'urn:p', 'P': 'urn:P2'}, XSD_NS),
]


def xp_str(s: str) -> str:
    return "'" + s.replace("'", "''") + "'"


def qname_value_cases(run: Run, impl: Impl) -> None:
    """xs:QName from a string under non-default parser options: the *components* of the value (namespace URI, prefix, local
    name) against the Lean model of AbstractQName.make and the F&O rule (prefix in the statically known namespaces, an
    unprefixed name in the default element/type namespace), through the constructor function, `cast as`, the accessor
    functions and `eq fn:QName(uri, lexical)`."""
    rng, st = run.rng, run.stats
    n = run.scale(35, 600)
    fixed = ['a', 'p:a', 'q:b', 'xs:integer', 'fn:abs', 'xml:lang', 'zz9:a', ' a ', ' p:a', 'p:a ', '\n p:a\t', 'P:a', 'p:1a', '1:a',
             ':a', 'a:', 'p:q:a', '', ' ', 'p: a', 'xsi:type', "o'k", 'p:\u00e9', '\u00e9']
    lines, cases = [], []
    for cname, nsopt, dflt in QNAME_CONFIGS:
        strings = list(fixed)
        for _ in range(n):
            pre = rng.choice(['', '', '', 'p:', 'q:', 'xs:', 'fn:', 'xml:', 'zz9:', 'P:', ':'])
            body = g_name(rng) if rng.random() < 0.8 else rng.choice(['', '1a', 'a b', 'a:b', '-a'])
            strings.append(mutate(rng, pre + body) if rng.random() < 0.5 else
                           rng.choice(['', ' ', '\n', '\t ']) + pre + body + rng.choice(['', ' ', '\n']))
        known = dict(PREDECLARED)
        known.update(nsopt)
        nfield = '|'.join(f'{cps(k)}/{cps(u)}' for k, u in sorted(known.items())) or '-'
        for s in strings:
            lines.append(f'op=qres N={nfield} D={cps(dflt) if dflt is not None else "-"} S={cps(s)}')
            cases.append((cname, nsopt, dflt, s))
    answers = run.driver('C10', lines)
    for (cname, nsopt, dflt, s), ans in zip(cases, answers):
        f = dict(kv.split('=', 1) for kv in ans.split(' ') if '=' in kv)
        mm, sp = f.get('model'), f.get('spec')
        for pn in ('2', '30', '31'):
            key = impl.option_parser(pn, 'q:' + cname, nsopt, dflt)
            case = {'config': cname, 'namespaces': nsopt, 'default_namespace': dflt, 'parser': pn, 'string': s, 'cps': cps(s)}
            st.case(['qname-value', cname, pn, s], nontrivial=True)
            lit = xp_str(s)
            forms = {'ctor-literal': (f'xs:QName({lit})', {}), 'cast-literal': (f'{lit} cast as xs:QName', {})}
            if pn != '2':
                forms.update({'ctor-var': ('xs:QName($s)', {'s': s}), 'cast-var': ('$s cast as xs:QName', {'s': s}),
                              'item#1': ('xs:QName#1($s)', {'s': s}), 'arrow': ('$s => xs:QName()', {'s': s}),
                              'map!': ('$s ! xs:QName(.)', {'s': s})})
            if pn == '30':
                del forms['arrow']      # the arrow operator is XPath 3.1
            for fname, (expr, vs) in forms.items():
                k, r = impl.xpath(key[0], key[1], expr, vs)
                if k == 'ok' and isinstance(r, list) and len(r) == 1:
                    r = r[0]
                if k == 'ok':
                    try:
                        got = f'ok:{cps(r.uri or "")}:{cps(r.prefix or "")}:{cps(r.local_name)}'
                    except Exception as e:
                        got = f'?{r!r}:{type(e).__name__}'
                else:
                    got = {'ERR:FORG0001': 'ERR:V', 'ERR:FONS0004': 'ERR:K'}.get(r, r)
                st.count('qname-value:' + fname + ':' + (got if got.startswith('ERR') else 'ok'))
                want = got if (sp == 'ERR' and got.startswith('ERR')) else sp
                if got != mm:
                    run.disagree(Disagreement(dict(case, path=fname, expr=expr), impl=got, model=mm, what='qname-value-model',
                                              site='qname.py AbstractQName.make'))
                if got != want:
                    run.disagree(Disagreement(dict(case, path=fname, expr=expr), impl=got, model=mm, spec=sp,
                                              what='qname-value-vs-static-context', site='qname.py AbstractQName.make'))
                elif k == 'ok' and fname in ('ctor-literal', 'cast-literal'):
                    # the same components through the accessor functions and through `eq`
                    uri, pre, loc = (''.join(chr(int(c)) for c in x.split(',')) if x != '_' else '' for x in sp.split(':')[1:4])
                    acc = {
                        f'namespace-uri-from-QName({expr})': uri, f'prefix-from-QName({expr})': pre,
                        f'local-name-from-QName({expr})': loc,
                        f'{expr} eq QName({xp_str(uri)}, {xp_str(s.strip())})': True,
                        f'{expr} eq QName({xp_str(uri + "x")}, {xp_str(s.strip())})': False,
                    }
                    for e2, exp in acc.items():
                        k2, r2 = impl.xpath(key[0], key[1], e2, {})
                        g2 = (r2 if isinstance(r2, bool) else ('' if r2 == [] or r2 is None else str(r2))) if k2 == 'ok' else r2
                        st.count('qname-value:accessor')
                        if g2 != exp:
                            run.disagree(Disagreement(dict(case, path=fname, expr=e2), impl=repr(g2), spec=repr(exp),
                                                      what='qname-accessor-vs-static-context', site='fn QName accessors'))


# ------------------------------------------------------------------------------ constructors applied as function items
FUNC_FORMS = {      # every way of applying the constructor of T to the value of E; reference: xs:T(E)
    'named-ref': 'xs:{t}#1({e})',
    'let-ref': 'let $f := xs:{t}#1 return $f({e})',
    'function-lookup': "function-lookup(xs:QName('xs:{t}'), 1)({e})",
    'for-each': 'for-each({e}, xs:{t}#1)',
    'simple-map': '({e}) ! xs:{t}(.)',
    'arrow': '({e}) => xs:{t}()',
    'partial': 'xs:{t}(?)({e})',
}


PARTIAL_BROKEN = ('string', 'boolean', 'QName', 'dateTime', 'dateTimeStamp')     # trigger of F10j


def funcitem_cases(run: Run, impl: Impl) -> None:
    """`xs:T#1(E)`, `function-lookup(...)(E)`, `for-each(E, xs:T#1)`, `E ! xs:T(.)`, `E => xs:T()`, `xs:T(?)(E)` must agree with
    `xs:T(E)` on success, value and error code, for every T and every source value (XPath 3.0 and 3.1 parsers)."""
    rng, st = run.rng, run.stats
    src = source_values(impl, rng)
    src['string'] = src['string'] + ["'false'", "'maybe'", "'0'", "'1'", "'12'", "'1999-12-31T23:59:59Z'", "'12:00:00'"]
    targets = [t for t in sorted(impl.types) if t not in SKIPPED_TYPES]
    cells = [(stype, e, t) for stype, exprs in sorted(src.items()) for e in exprs for t in targets]
    if run.quick:      # every target with every string source, a sample of the other cells
        cells = [c for c in cells if c[0] == 'string' or rng.random() < 0.12]
    for stype, e, t in cells:
        for pn in ('30', '31'):
            v = '1.1' if (run.quick or t == 'dateTimeStamp' or stype == 'dateTimeStamp') else rng.choice(['1.0', '1.1'])
            k0, r0 = impl.xpath(pn, v, f'xs:{t}({e})', {})
            base = ('ok:' + value_text(r0)) if k0 == 'ok' else r0
            st.case(['funcitem', e, t, pn], nontrivial=True)
            for fname, tpl in FUNC_FORMS.items():
                if fname == 'arrow' and pn == '30':
                    continue      # the arrow operator is XPath 3.1
                expr = tpl.format(t=t, e=e)
                k, r = impl.xpath(pn, v, expr, {})
                if k == 'ok' and isinstance(r, list) and len(r) == 1:
                    r = r[0]
                got = ('ok:' + value_text(r)) if k == 'ok' else r
                st.count('funcitem:' + fname + ':' + ('ok' if k == 'ok' else 'err'))
                # finding F10j: the placeholder form of the constructors that share their name with a function (own `nud`)
                tags = ['F10j'] if fname == 'partial' and t in PARTIAL_BROKEN else []
                if got != base:
                    run.disagree(Disagreement({'source': e, 'source_type': stype, 'target': t, 'xsd': v, 'parser': pn,
                                               'form': fname, 'expr': expr}, impl=got, spec=base, tags=tags,
                                              what='function-item-vs-constructor-call', site='xpath_tokens/functions.py XPathFunction.__call__'))


def matrix_cases(run: Run, impl: Impl) -> None:
    st = run.stats
    src = source_values(impl, run.rng)
    targets = [t for t in sorted(impl.types) if t not in SKIPPED_TYPES]
    versions = ['1.1'] if run.quick else ['1.0', '1.1']
    pnames = ['31'] if run.quick else ['2', '31']
    for stype, exprs in sorted(src.items()):
        for e in exprs:
            for t in targets:
                for v in versions:
                    if (stype == 'dateTimeStamp' or t == 'dateTimeStamp') and v == '1.0':
                        continue
                    for pn in pnames:
                        if t == 'QName' and pn == '2':
                            continue
                        c = impl.xpath(pn, v, f'({e}) cast as xs:{t}', {})
                        f = impl.xpath(pn, v, f'xs:{t}({e})', {})
                        b = impl.xpath(pn, v, f'({e}) castable as xs:{t}', {})
                        case = {'source': e, 'source_type': stype, 'target': t, 'xsd': v, 'parser': pn}
                        st.case(['matrix', e, t, v, pn], nontrivial=True)
                        st.count('matrix:cell:' + ('ok' if c[0] == 'ok' else c[1]))
                        ct = ('ok:' + value_text(c[1])) if c[0] == 'ok' else c[1]
                        ft = ('ok:' + value_text(f[1])) if f[0] == 'ok' else f[1]
                        bt = ('1' if b[1] is True else '0' if b[1] is False else f'?{b[1]!r}') if b[0] == 'ok' else b[1]
                        if c[0] != 'ok' and f[0] != 'ok':
                            # both fail: the property speaks about success and value; codes are only counted
                            st.count('matrix:both-fail:' + ('same-code' if ct == ft else f'{ct[4:]}-vs-{ft[4:]}'))
                        elif ct != ft:
                            run.disagree(Disagreement(case, impl=ct, spec=ft, what='cast-vs-constructor-function',
                                                      site='_xpath2_operators.py cast / _xpath2_constructors.py'))
                        exp_b = '1' if c[0] == 'ok' else '0'
                        if c[0] != 'ok' and c[1] in ('ERR:XPST0080', 'ERR:XPST0051', 'ERR:XPST0017', 'ERR:XPST0003'):
                            exp_b = c[1]    # static errors are raised by castable too
                        if bt != exp_b:
                            run.disagree(Disagreement(case, impl=bt, spec=exp_b, what='castable-vs-cast',
                                                      site='_xpath2_operators.py castable'))
                        if c[0] == 'ok' and t not in ('QName',):
                            # value preserved through the string form where F&O casts via the canonical string
                            pass


# ------------------------------------------------------------------------------ casting corner (model + spec)
CAST_TARGETS = ['string', 'untypedAtomic', 'boolean', 'decimal', 'double', 'float'] + INT_TYPES


def gen_double(rng) -> float:
    import struct
    r = rng.random()
    if r < 0.12:
        return rng.choice([math.nan, math.inf, -math.inf, 0.0, -0.0])
    if r < 0.30:
        return float(rng.choice([1, -1, 10, 100, 127, 128, -129, 255, 256, 65536, 10 ** 5, 10 ** 6, 10 ** 7, 10 ** 15,
                                 10 ** 16, 10 ** 17, 10 ** 21, 10 ** 22, 2 ** 53, 2 ** 63, 2 ** 64, -2 ** 63, 10 ** 100]))
    if r < 0.55:
        e = rng.randint(-12, 22)
        m = rng.choice([1, 1, 12, 15, 123, 1234567, rng.randint(1, 10 ** rng.randint(1, 17))])
        x = float(f'{m}e{e}')
        return -x if rng.random() < 0.3 else x
    if r < 0.75:
        return float(g_double(rng).replace('+INF', 'INF')) if True else 0.0
    if r < 0.9:
        return rng.choice([1e-4, 9.999e-5, 1e-5, 1e-6, 9.99e-7, 1e-7, 1e-10, 1.5e-10, 999999.0, 1e6, 1234567.0, 1e15,
                           123456789012345680.0, 1e16, 1.5e16, 1e-300, 5e-324, 1.7976931348623157e308, 0.1, 0.5, 0.25,
                           1.5, 2.5, -1.5, 100000.0, 123456.789]) * rng.choice([1, 1, -1])
    return struct.unpack('<d', struct.pack('<Q', rng.getrandbits(64)))[0]


def dbl_fields(x: float) -> str:
    if math.isnan(x):
        return 'X=nan R=' + cps('nan')
    if math.isinf(x):
        return ('X=inf' if x > 0 else 'X=-inf') + ' R=' + cps(repr(x))
    n, d = abs(x).as_integer_ratio()
    k = d.bit_length() - 1
    neg = 1 if math.copysign(1.0, x) < 0 else 0
    return f'X={neg}:{n}:{k} R={cps(repr(x))}'


def boundary_integers():
    """integers at the borders that matter for a cast: ±0, ±1, around ±2^53 (exact integers of a double), around the overflow
    threshold of xs:double ±(2^1024 − 2^970) and of xs:float, and far beyond (both signs)"""
    out = [0, 1, -1]
    for b in (2 ** 24, 2 ** 53, 2 ** 63, 2 ** 64, 2 ** 128 - 2 ** 103, 2 ** 1024 - 2 ** 970, 2 ** 1024, 10 ** 309, 10 ** 400):
        for d in (-1, 0, 1):
            out += [b + d, -(b + d)]
    return out


def gen_atom(rng):
    """-> (kind, python value for the XPath variable, request fields)"""
    from elementpath.datatypes import UntypedAtomic
    r = rng.random()
    if r < 0.40:
        t = rng.choice(['integer', 'decimal', 'double', 'boolean', 'byte', 'unsignedByte', 'long', 'string'])
        s = gen_string(rng, t)
        if rng.random() < 0.5:
            return 'str', s, f'K=str S={cps(s)}'
        return 'untyped', UntypedAtomic(s), f'K=untyped S={cps(s)}'
    if r < 0.45:
        b = rng.random() < 0.5
        return 'bool', b, f'K=bool B={1 if b else 0}'
    if r < 0.62:
        try:
            v = int(g_integer(rng, rng.choice(INT_TYPES)))
        except ValueError:
            v = rng.randint(-300, 300)
        if rng.random() < 0.05:
            v = rng.choice(boundary_integers())
        return 'int', v, f'K=int I={v}'
    if r < 0.78:
        s = g_decimal(rng)
        if rng.random() < 0.3:
            s = rng.choice(['0', '-0', '0.0', '-0.00', '1.50', '-1.50', '100', '100.00', '.5', '5.', '127.9', '128.0', '-128.9',
                            '-129.0', '255.99', '0.999', '-0.999', '9223372036854775807.5', '1' + '0' * 400])
        return 'dec', Decimal(s), f'K=dec S={cps(s)}'
    x = gen_double(rng)
    return 'dbl', x, 'K=dbl ' + dbl_fields(x)


def cast_value_text(v, target: str, ref=None):
    """(raw text in the model's vocabulary, value-normalised text in the spec's vocabulary)"""
    from elementpath.datatypes import UntypedAtomic
    if isinstance(v, bool):
        t = 'ok:bool:' + ('true' if v else 'false')
        return t, t
    if isinstance(v, float):
        c = 'nan' if math.isnan(v) else ('inf' if v == math.inf else '-inf' if v == -math.inf else 'num')
        return 'ok:dbl:' + c, 'ok:dbl:' + c
    if isinstance(v, int):
        return f'ok:int:{int(v)}', f'ok:int:{int(v)}'
    if isinstance(v, Decimal):
        tp = v.as_tuple()
        coef = int(''.join(map(str, tp.digits)))
        if not isinstance(tp.exponent, int) or tp.exponent > 0:
            return f'ok:dec:?{v!r}', f'ok:dec:?{v!r}'
        return f'ok:dec:{tp.sign}:{coef}:{-tp.exponent}', 'ok:dec:' + norm_dec_text(v)[3:]
    if isinstance(v, UntypedAtomic):
        return 'ok:untyped:' + cps(v.value), 'ok:untyped:' + cps(v.value)
    if isinstance(v, str):
        return 'ok:str:' + cps(v), 'ok:str:' + cps(v)
    return 'ok:?' + value_text(v), 'ok:?' + value_text(v)


def cast_cases(run: Run, impl: Impl) -> None:
    rng = run.rng
    st = run.stats
    n = run.scale(5000, 60000)
    seeds = []
    from elementpath.datatypes import UntypedAtomic
    for x in [1e-7, 1e-5, 1e-6, 1e6, 1e15, 1e16, 1e21, 1e100, 1.5e-7, 1.5e-10, 1e-10, 0.00001, 123456.789, -0.0, 0.0, math.nan,
              math.inf, -math.inf, 1.0, 100.0, 1234567.0, 0.1]:
        for t in ('string', 'untypedAtomic', 'decimal', 'integer', 'boolean', 'byte'):
            seeds.append((('dbl', x, 'K=dbl ' + dbl_fields(x)), t))
    for s in ['+INF', ' 12 ', '1_0', '1 2', 'true', '-0.0', '1e400']:
        for t in ('double', 'float', 'decimal', 'integer', 'boolean', 'string', 'untypedAtomic'):
            seeds.append((('str', s, f'K=str S={cps(s)}'), t))
            seeds.append((('untyped', UntypedAtomic(s), f'K=untyped S={cps(s)}'), t))
    for s in ['-0.0', '1.50', '100.00', '-128.9', '0.999']:
        for t in CAST_TARGETS:
            seeds.append((('dec', Decimal(s), f'K=dec S={cps(s)}'), t))
    for v_ in boundary_integers():
        for t in ('double', 'float', 'decimal', 'integer', 'string', 'untypedAtomic', 'boolean'):
            seeds.append((('int', v_, f'K=int I={v_}'), t))
    for tname, (lo_, hi_) in sorted(BOUNDS_PY.items()):
        for v_ in [b + d for b in (lo_, hi_) if b is not None for d in (-1, 0, 1)]:
            seeds.append((('int', v_, f'K=int I={v_}'), tname))
    cases = seeds + [(gen_atom(rng), rng.choice(CAST_TARGETS)) for _ in range(n)]
    versions = [('1.0', '10'), ('1.1', '11')]
    lines = []
    for (kind, val, fields), t in cases:
        for _, vk in versions:
            lines.append(f'op=cast V={vk} {fields} T={t}')
    ans = iter(run.driver('C10', lines))
    for (kind, val, fields), t in cases:
        for v, vk in versions:
            a = next(ans)
            if not a.startswith('model='):
                run.disagree(Disagreement({'request': fields, 'target': t}, impl='driver:' + a, what='protocol'))
                continue
            f = dict(kv.split('=', 1) for kv in a.split(' ') if '=' in kv)
            mm, mn, sp, fl = f.get('model'), f.get('modelN'), f.get('spec'), f.get('inK', '')
            case = {'source_kind': kind, 'source': repr(val), 'request': fields, 'target': t, 'xsd': v}
            st.case(['cast', fields, t, v], nontrivial=True)
            st.count(f'cast:{kind}->{t if t not in INT_TYPES else "integer-family"}')
            tags = []
            if 'r' in fl:
                run.disagree(Disagreement(case, impl=repr(val), model='pyRepr differs', what='pyRepr-model',
                                          site='CPython repr(float) vs EPV.LexLemmas.pyRepr'))
            if kind == 'dbl':
                st.count('cast:dbl:repr-model-checked')
            results = {}
            for pn in ('2', '31'):
                results[f'cast{pn}'] = impl.xpath(pn, v, f'$s cast as xs:{t}', {'s': val})
                results[f'fn{pn}'] = impl.xpath(pn, v, f'xs:{t}($s)', {'s': val})
                results[f'castable{pn}'] = impl.xpath(pn, v, f'$s castable as xs:{t}', {'s': val})
                if t == 'double' and kind in ('int', 'dec'):
                    # the other roads from a number to the same double: through the string form, fn:number, a literal-free sum
                    results[f'fn-of-string{pn}'] = impl.xpath(pn, v, 'xs:double(xs:string($s))', {'s': val})
                    results[f'number{pn}'] = impl.xpath(pn, v, 'number($s)', {'s': val})
                    results[f'item#1{pn}'] = impl.xpath('31', v, 'xs:double#1($s)', {'s': val})
            for name, (k, r) in results.items():
                if name.startswith('castable'):
                    got = ('1' if r is True else '0' if r is False else f'?{r!r}') if k == 'ok' else r
                    mexp = '1' if mm.startswith('ok') else '0'
                    sexp = '1' if sp.startswith('ok') else '0'
                    if got != sexp:
                        run.disagree(Disagreement(dict(case, path=name), impl=got, model=mexp, spec=sexp,
                                                  what='castable-vs-spec', site='_xpath2_operators.py castable', tags=tags))
                    elif got != mexp:
                        run.disagree(Disagreement(dict(case, path=name), impl=got, model=mexp, what='castable-model',
                                                  site='_xpath2_operators.py castable'))
                    continue
                if k == 'ok':
                    raw, norm = cast_value_text(r, t)
                    if t in ('double', 'float') and isinstance(r, float) and not math.isnan(r):
                        # finite / overflowed value: CPython's own conversion is the trusted reference
                        try:
                            src = xsd_collapse_py(val.value if kind == 'untyped' else val) if kind in ('str', 'untyped') else val
                            if kind == 'int':
                                src = str(int(val))     # F&O: through the string form (INF beyond the range)
                            ref = float_ref(t, src) if not (kind == 'dbl') else float_ref(t, repr(val))
                            if kind == 'dec' and val == 0:
                                ref = 0.0          # xs:decimal has no negative zero: through the canonical form '0'
                            # finding F10nn: fn:number of an xs:decimal zero with a negative Python sign answers -0.0
                            tags_nn = ['F10nn'] if (name.startswith('number') and kind == 'dec' and val == 0 and val.is_signed()
                                                    and fhex(r) == fhex(-0.0)) else []
                            if fhex(ref) != fhex(r):
                                run.disagree(Disagreement(dict(case, path=name), impl=fhex(r), model=fhex(ref), spec=fhex(ref),
                                                          what='cast-double-value', site='get_double / Float.__new__', tags=tags_nn))
                            if mm == 'ok:dbl:num':
                                raw = norm = 'ok:dbl:num'
                        except (ValueError, OverflowError):
                            pass
                else:
                    raw, norm = r, 'ERR'
                    st.count('cast:err:' + r)
                if norm != sp:
                    run.disagree(Disagreement(dict(case, path=name), impl=norm, model=mn, spec=sp, what='cast-vs-F&O',
                                              site='_xpath2_constructors.py cast__*', tags=tags))
                elif raw != mm:
                    run.disagree(Disagreement(dict(case, path=name), impl=raw, model=mm, what='cast-model',
                                              site='_xpath2_constructors.py cast__*'))


# ------------------------------------------------------------------------------ timezones
TZ_BASE = {   # a canonical literal without timezone for every type that takes one
    'time': '12:00:00', 'date': '2000-01-01', 'dateTime': '2000-01-01T12:00:00', 'dateTimeStamp': '2000-01-01T12:00:00',
    'gYear': '2000', 'gYearMonth': '2000-02', 'gMonth': '--02', 'gMonthDay': '--02-29', 'gDay': '---31',
}
TZ_SUFFIX = r'(Z|[+-][0-9]{2}:[0-9]{2})$'


def tz_minutes_of_text(t: str):
    """independent reading of a timezone literal (harness side): minutes, sign applied to hours and minutes"""
    import re
    if t == 'Z':
        return 0
    m = re.fullmatch(r'([+-])([0-9]{2}):([0-9]{2})', t)
    if not m:
        return None
    h, mi = int(m.group(2)), int(m.group(3))
    if not ((h <= 13 and mi <= 59) or (h == 14 and mi == 0)):
        return None
    v = h * 60 + mi
    return -v if m.group(1) == '-' else v


def tz_cases(run: Run, impl: Impl) -> None:
    import datetime
    from elementpath.datatypes import Timezone
    rng = run.rng
    st = run.stats
    offsets = list(range(-840, 841))
    near = ['+14:01', '-14:01', '+15:00', '+5:30', '-0:30', '+05:3', '+05:60', 'z', '+0530', '+05-30', '+-5:30', '--05:30',
            '+1:000', 'Z0', 'ZZ', '+24:00', '-00:60', '+00:0', '+٠٥:٣٠', '+05:30Z', 'Z+05:30', '+05:30:00', '+', '-', '+:',
            '+05:', '+ 5:30', '-13:60', '+14:00:', '+014:00', '-14:0', '+13:5', '+1４:00']
    for _ in range(run.scale(150, 1500)):
        t = tz_text(rng.randint(-840, 840))
        k = rng.randrange(len(t) + 1)
        t = rng.choice([t[:k] + t[k + 1:], t[:k] + rng.choice('0123456789:+-Zz.') + t[k:],
                        t[:k] + rng.choice('0123456789:+-Z') + t[k + 1:]])
        if t and t[0] in '+-Zz' and not any(c.isspace() for c in t):
            near.append(t)
    zero_forms = ['Z', '+00:00', '-00:00']
    texts = [tz_text(m) for m in offsets] + zero_forms + near
    lines = [f'op=tzcanon M={m}' for m in offsets] + [f'op=tz S={cps(t)}' for t in texts]
    ans = run.driver('C10', lines)

    def parse(a):
        f = dict(kv.split('=', 1) for kv in a.split(' ') if '=' in kv)
        return f.get('model'), f.get('spec')

    def uncps(x):
        return '' if x == '_' else ''.join(chr(int(c)) for c in x.split(','))

    # (1) canonical rendering of every offset
    for i, m in enumerate(offsets):
        mm, sp = parse(ans[i])
        st.case(['tz-canon', m]); st.count('tz:canon')
        want = tz_text(m)
        try:
            got = str(Timezone(datetime.timedelta(minutes=m)))
        except Exception as e:
            got = 'ERR:OTHER:' + type(e).__name__
        if uncps(sp) != want:
            run.disagree(Disagreement({'minutes': m}, impl=want, model=uncps(mm), spec=uncps(sp), what='tz-spec-self-check',
                                      site='lean'))
        if got != uncps(sp):
            run.disagree(Disagreement({'minutes': m}, impl=got, model=uncps(mm), spec=uncps(sp), what='tz-canonical',
                                      site='datetime.py Timezone.tzname'))
        elif got != uncps(mm):
            run.disagree(Disagreement({'minutes': m}, impl=got, model=uncps(mm), what='tz-canonical-model',
                                      site='datetime.py Timezone.tzname'))
    # (2) every literal / near miss: Timezone.fromstring via the xs:time constructor, value and canonical string
    types_for = lambda t: list(TZ_BASE) if (t in zero_forms or rng.random() < 0.03) else ['time']
    for j, t in enumerate(texts):
        mm, sp = parse(ans[len(offsets) + j])
        st.case(['tz-lex', t]); st.count('tz:lexical:' + ('ok' if sp.startswith('ok') else 'rejected'))
        ref = tz_minutes_of_text(t)
        ref_txt = 'ERR:V' if ref is None else f'ok:{ref}:{cps(tz_text(ref))}'
        if sp != ref_txt:
            run.disagree(Disagreement({'tz': t}, impl=ref_txt, model=mm, spec=sp, what='tz-spec-self-check', site='lean'))
        for ty in types_for(t):
            s = TZ_BASE[ty] + t
            case = {'type': ty, 'string': s, 'cps': cps(s), 'tz': t}
            kind, val = impl.direct(ty, s, None)
            if kind == 'ok':
                try:
                    off = val.tzinfo.utcoffset(None)
                    mins = off.days * 1440 + off.seconds // 60
                    can = str(val)
                    got = f'ok:{mins}:{cps(can[len(TZ_BASE[ty]):])}' if can.startswith(TZ_BASE[ty]) else f'ok:{mins}:?{cps(can)}'
                except Exception as e:
                    got = 'ERR:OTHER:' + type(e).__name__
            else:
                got = val
            st.count(f'tz:ctor:{ty}')
            if got != sp:
                run.disagree(Disagreement(case, impl=got, model=mm, spec=sp, what='timezone-value-and-canonical-string',
                                          site='datetime.py Timezone.fromstring / tzname'))
            elif got != mm:
                run.disagree(Disagreement(case, impl=got, model=mm, what='timezone-model',
                                          site='datetime.py Timezone.fromstring / tzname'))
            if kind == 'ok' and sp.startswith('ok'):
                # fixed point on the real code: the canonical string re-parses to an equal value with an equal hash
                k2, v2 = impl.direct(ty, str(val), None)
                if k2 != 'ok' or not (v2 == val and hash(v2) == hash(val) and str(v2) == str(val)):
                    run.disagree(Disagreement(case, impl=str(v2), spec=str(val), what='timezone-canonical-fixed-point',
                                              site='datetime.py'))


def expected_date_canonical(t: str, s: str):
    """independent expected canonical string of a date/time literal whose non-timezone part is already canonical:
    the literal with its timezone replaced by the canonical timezone.  None when the body may be re-written
    (24:00:00, trailing fractional zeros, years that XSD versions print differently)."""
    import re
    x = xsd_collapse(s)
    m = re.search(TZ_SUFFIX, x)
    body, tz = (x[:m.start()], m.group(1)) if m else (x, '')
    if '24:00' in body or re.search(r'\.[0-9]*0$', body) or re.search(r'\.$', body):
        return None
    if re.search(r'\.[0-9]{7,}$', body):     # more than microseconds: implementation-defined precision
        return None
    if t in ('date', 'dateTime', 'dateTimeStamp', 'gYear', 'gYearMonth'):
        y = re.match(r'-?[0-9]+', body)
        if y is None or body.startswith('-') or len(y.group(0)) != 4 or y.group(0) == '0000':
            return None
    if tz == '':
        return body
    mins = tz_minutes_of_text(tz)
    return None if mins is None else body + tz_text(mins)


# ------------------------------------------------------------------------------ value-derivation histories
HIST_NEW = {
    'dateTime': ['2000-01-01T12:00:00', '1999-12-31T23:59:59.5', '2024-02-29T00:00:00Z', '2000-06-15T08:30:00+05:30',
                 '1970-01-01T00:00:00-00:30', '0044-03-15T12:00:00', '2000-01-01T24:00:00', '9998-12-31T23:00:00-14:00'],
    'date': ['2000-01-01', '1999-12-31Z', '2024-02-29+14:00', '2000-03-01-05:00', '0044-03-15'],
    'time': ['12:00:00', '23:59:59.5', '00:00:00Z', '08:30:00+05:30', '12:00:00-00:30', '24:00:00'],
    'gYear': ['2000', '1999Z'], 'gYearMonth': ['2000-02'], 'gMonth': ['--02+01:00'], 'gMonthDay': ['--02-29'],
    'gDay': ['---31Z'], 'dateTimeStamp': ['2000-01-01T12:00:00Z', '2000-01-01T12:00:00-08:00'],
}
ADJUST_FN = {'dateTime': 'adjust-dateTime-to-timezone', 'dateTimeStamp': 'adjust-dateTime-to-timezone',
             'date': 'adjust-date-to-timezone', 'time': 'adjust-time-to-timezone'}


def gen_history(rng) -> list:
    """a history = list of operations on a pool of values; every operation is data, so a history can be
    replayed and shrunk"""
    t = rng.choice(['dateTime', 'dateTime', 'date', 'date', 'time', 'time', 'dateTimeStamp', 'gYear', 'gYearMonth',
                    'gMonth', 'gMonthDay', 'gDay'])
    ops = [('new', t, rng.choice(HIST_NEW[t]))]
    n = 1
    for _ in range(rng.randint(2, 7)):
        i = rng.randrange(n)
        r = rng.random()
        if r < 0.25:
            ops.append(('hash', i))
        elif r < 0.50:
            tz = rng.choice([('dur', rng.choice([0, 60, -60, 120, 330, -30, 840, -840, rng.randint(-840, 840)])),
                             ('dur', rng.randint(-840, 840)), ('empty',), ('implicit', rng.choice([0, 120, -300, 330]))])
            ops.append(('adjust', i) + tz); n += 1
        elif r < 0.62:
            ops.append(('add', i, rng.choice(['PT1H', '-PT36H', 'P1D', 'PT0S', 'P1M', '-P1Y', 'PT0.5S', 'P400D']))); n += 1
        elif r < 0.70:
            ops.append(('copy', i)); n += 1
        elif r < 0.80:
            ops.append(('settz', i, rng.choice([None, 0, 120, -30, 330, 840]))); n += 1
        elif r < 0.90:
            ops.append(('cast', i, rng.choice(['dateTime', 'date', 'time', 'gYear', 'gYearMonth', 'gMonth', 'gMonthDay',
                                               'gDay', 'string', 'untypedAtomic']))); n += 1
        else:
            ops.append(('cmp', i, rng.randrange(n), rng.choice(['eq', 'lt', 'ge']), rng.choice([None, 0, 120, -300])))
    return ops


def run_history(impl: Impl, ops: list):
    """execute a history; after every operation check, for every value produced so far,
    T(str(v)) == v, hash(T(str(v))) == hash(v), set / dict membership both ways, and that earlier values
    still print as they did.  -> None | (step index, what, details)"""
    import datetime
    from copy import copy
    from elementpath.datatypes import AbstractDateTime, Timezone, DateTime, Date, Time
    from elementpath.datatypes import DateTimeStamp
    vals = []      # (value, str at creation)
    seen = set()   # the set of the history: values hashed so far stay members
    flags = set()  # trigger predicates of listed findings, computed from the operations

    def tz_of(minutes):
        return None if minutes is None else Timezone(datetime.timedelta(minutes=minutes))

    def invariant(v):
        if not isinstance(v, AbstractDateTime):
            return None
        T = type(v)
        sv = str(v)
        try:
            w = T.fromstring(sv)
        except Exception as e:
            return f'canonical string {sv!r} does not re-parse: {type(e).__name__}'
        try:
            if not (w == v and v == w):
                return f'{T.__name__}({sv!r}) != the value'
            if hash(w) != hash(v):
                return f'hash({T.__name__}({sv!r})) != hash(value)'
            if w not in {v} or v not in {w} or {v: 1}.get(w) != 1 or {w: 1}.get(v) != 1:
                return f'set/dict lookup of {T.__name__}({sv!r}) fails'
            if str(w) != sv:
                return f'canonical string not a fixed point: {str(w)!r} vs {sv!r}'
        except Exception as e:
            return 'exception in ==/hash: ' + type(e).__name__
        return None

    for k, op in enumerate(ops):
        kind = op[0]
        try:
            if kind == 'new':
                st, v = impl.direct(op[1], op[2], None)
                if st != 'ok':
                    return None
                vals.append((v, str(v)))
            else:
                i = op[1]
                if i >= len(vals):
                    continue
                v = vals[i][0]
                tname = next((n for n, c in (('dateTimeStamp', None),) if False), None)
                if kind == 'hash':
                    hash(v); seen.add(v)
                elif kind == 'copy':
                    c = copy(v); vals.append((c, str(c)))
                elif kind == 'settz':
                    if isinstance(v, DateTimeStamp) and op[2] is None:
                        continue      # not an operation the library performs on its own
                    if isinstance(v, AbstractDateTime):
                        c = copy(v); c.tzinfo = tz_of(op[2]); vals.append((c, str(c)))
                elif kind == 'adjust':
                    fn = 'adjust-dateTime-to-timezone' if isinstance(v, DateTime) else \
                         'adjust-date-to-timezone' if isinstance(v, Date) else \
                         'adjust-time-to-timezone' if isinstance(v, Time) else None
                    if fn is None:
                        continue
                    if op[2] == 'dur':
                        m = op[3]
                        d = ('-' if m < 0 else '') + f'PT{abs(m)}M'
                        st, r = impl.xpath('31', '1.1', f"{fn}($v, xs:dayTimeDuration('{d}'))", {'v': v})
                    elif op[2] == 'empty':
                        st, r = impl.xpath('31', '1.1', f'{fn}($v, ())', {'v': v})
                    else:
                        st, r = impl.xpath('31', '1.1', f'{fn}($v)', {'v': v}, timezone=tz_of(op[3]))
                    if st == 'ok' and isinstance(r, AbstractDateTime):
                        vals.append((r, str(r)))
                elif kind == 'add':
                    dt = 'yearMonthDuration' if op[2].lstrip('-').startswith('P') and 'T' not in op[2] and \
                        op[2][-1] in 'YM' else 'dayTimeDuration'
                    st, r = impl.xpath('31', '1.1', f"$v + xs:{dt}('{op[2]}')", {'v': v})
                    if st == 'ok' and isinstance(r, AbstractDateTime):
                        vals.append((r, str(r)))
                elif kind == 'cast':
                    st, r = impl.xpath('31', '1.1', f'xs:{op[2]}($v)', {'v': v})
                    if st == 'ok' and isinstance(r, AbstractDateTime):
                        vals.append((r, str(r)))
                elif kind == 'cmp':
                    j = op[2]
                    if j < len(vals):
                        impl.xpath('31', '1.1', f'$a {op[3]} $b', {'a': v, 'b': vals[j][0]}, timezone=tz_of(op[4]))
        except Exception as e:
            return k, 'exception', f'{type(e).__name__}: {e}', flags
        for idx, (x, s0) in enumerate(vals):
            if isinstance(x, AbstractDateTime):
                try:
                    if str(x) != s0:
                        return k, 'operand-mutated', f'value #{idx} printed {s0!r} when created, now {str(x)!r}', flags
                except Exception as e:
                    return k, 'exception', f'str(): {type(e).__name__}', flags
            why = invariant(x)
            if why is not None:
                return k, 'canonical-fixed-point-and-hash', f'value #{idx}: {why}', flags
        for x in list(seen):
            if x not in seen:
                return k, 'set-membership-lost', f'a hashed value is no longer found in the set that contains it: {str(x)!r}', flags
    return None


def show_history(ops, upto=None) -> list:
    out = ['# after every step each value v so far is checked: T(str(v)) == v, equal hash, set/dict lookup (so every '
           'value has been hashed before the next step)']
    n = 0
    for k, op in enumerate(ops if upto is None else ops[:upto + 1]):
        if op[0] == 'new':
            out.append(f'v{n} = xs:{op[1]}({op[2]!r})'); n += 1
        elif op[0] == 'hash':
            out.append(f'hash(v{op[1]})  # put into a set')
        elif op[0] == 'copy':
            out.append(f'v{n} = copy(v{op[1]})'); n += 1
        elif op[0] == 'settz':
            out.append(f'v{n} = copy(v{op[1]}); v{n}.tzinfo = {op[2]} min'); n += 1
        elif op[0] == 'adjust':
            out.append(f'v{n} = adjust-*-to-timezone(v{op[1]}, {op[2:]})'); n += 1
        elif op[0] == 'add':
            out.append(f'v{n} = v{op[1]} + {op[2]}'); n += 1
        elif op[0] == 'cast':
            out.append(f'v{n} = xs:{op[2]}(v{op[1]})'); n += 1
        elif op[0] == 'cmp':
            out.append(f'v{op[1]} {op[3]} v{op[2]}  # implicit timezone {op[4]}')
    return out


def shrink_history(impl: Impl, ops: list, what: str) -> list:
    """drop operations while the same kind of failure remains (indices are re-validated by run_history)"""
    changed = True
    while changed:
        changed = False
        for k in range(len(ops) - 1, 0, -1):
            cand = ops[:k] + ops[k + 1:]
            # dropping a value-producing op shifts later indices: keep only candidates whose indices stay in range
            r = run_history(impl, cand)
            if r is not None and r[1] == what:
                ops, changed = cand, True
                break
    return ops


HIST_CORPUS = [
    [('new', 'time', '12:00:00'), ('hash', 0), ('adjust', 0, 'dur', 120)],
    [('new', 'dateTime', '2000-01-01T12:00:00'), ('hash', 0), ('adjust', 0, 'implicit', -300), ('hash', 1)],
    [('new', 'date', '2000-01-01'), ('hash', 0), ('copy', 0), ('settz', 1, 330)],
    [('new', 'dateTime', '2000-06-15T08:30:00+05:30'), ('hash', 0), ('adjust', 0, 'empty'), ('adjust', 1, 'dur', -30)],
    [('new', 'time', '12:00:00'), ('hash', 0), ('cmp', 0, 0, 'eq', 120), ('adjust', 0, 'dur', 0)],
    [('new', 'dateTime', '2000-01-01T12:00:00'), ('add', 0, 'PT1H'), ('hash', 1), ('adjust', 1, 'dur', 60), ('cast', 2, 'date')],
]


def history_cases(run: Run, impl: Impl) -> None:
    rng = run.rng
    st = run.stats
    hs = [list(h) for h in HIST_CORPUS] + [gen_history(rng) for _ in range(run.scale(700, 8000))]
    for ops in hs:
        st.case(['history', ops], nontrivial=len(ops) > 2)
        for op in ops:
            st.count('hist:op:' + op[0])
        r = run_history(impl, ops)
        if r is None:
            continue
        k, what, why, fl = r
        small = shrink_history(impl, ops[:k + 1], what)
        r2 = run_history(impl, small) or r
        run.disagree(Disagreement({'history': show_history(small), 'ops': [list(o) for o in small]},
                                  impl=r2[2], spec='T(str(v)) == v, equal hash, found in set/dict, operands unchanged',
                                  tags=sorted(r2[3]),
                                  what='history:' + what, site='datetime.py AbstractDateTime __hash__/__eq__/tzinfo/copy; '
                                  'xpath_tokens/base.py adjust_datetime, implicit_timezone_operands'))


def mutable_types_scan() -> dict:
    """ast scan of the datatypes package: classes with __slots__ / property setters, and the places of the library
    that assign such attributes after construction"""
    import ast
    import elementpath
    base = Path(elementpath.__file__).parent
    out = {'slots': {}, 'setters': [], 'assignments_outside_init': []}
    for f in sorted((base / 'datatypes').glob('*.py')):
        tree = ast.parse(f.read_text())
        for node in ast.walk(tree):
            if isinstance(node, ast.ClassDef):
                for b in node.body:
                    if isinstance(b, ast.Assign) and any(isinstance(t, ast.Name) and t.id == '__slots__' for t in b.targets):
                        try:
                            v = ast.literal_eval(b.value)
                        except Exception:
                            v = '?'
                        if v:
                            out['slots'][f'{f.name}:{node.name}'] = list(v) if isinstance(v, (tuple, list)) else v
                    if isinstance(b, ast.FunctionDef):
                        for d in b.decorator_list:
                            if isinstance(d, ast.Attribute) and d.attr == 'setter':
                                out['setters'].append(f'{f.name}:{node.name}.{b.name}')
    attrs = {'tzinfo', '_dt', '_year', 'months', 'seconds', 'uri', 'qname', 'prefix', 'local_name', 'ordered', 'namespace'}
    for f in sorted(base.rglob('*.py')):
        try:
            tree = ast.parse(f.read_text())
        except SyntaxError:
            continue
        for fn in ast.walk(tree):
            if isinstance(fn, (ast.FunctionDef, ast.AsyncFunctionDef)) and fn.name != '__init__':
                for node in ast.walk(fn):
                    if isinstance(node, (ast.Assign, ast.AugAssign)):
                        tg = node.targets if isinstance(node, ast.Assign) else [node.target]
                        for t in tg:
                            if isinstance(t, ast.Attribute) and t.attr in attrs and \
                                    not (isinstance(t.value, ast.Name) and t.value.id in ('self', 'cls')):
                                out['assignments_outside_init'].append(
                                    f'{f.relative_to(base)}:{node.lineno} {ast.unparse(t)}')
    return out


# ------------------------------------------------------------------------------ translator
# ------------------------------------------------------------------------------ the casting table (F&O 3.1 §19.1.1)
CAST_TYPES = ['untypedAtomic', 'string', 'float', 'double', 'decimal', 'integer', 'duration', 'yearMonthDuration',
              'dayTimeDuration', 'dateTime', 'time', 'date', 'gYearMonth', 'gYear', 'gMonthDay', 'gDay', 'gMonth', 'boolean',
              'base64Binary', 'hexBinary', 'anyURI', 'QName']          # the order of the recommendation (= XSD.castTypes)
_STR_PROBES = ['1', 'abc', 'true', '2000-01-01', 'P1D', 'xs:a', '0F', '12:00:00', '2000-01-01T00:00:00', '2000-01-01T00:00:00Z', '2000', '2000-01',
               '--01', '--01-01', '---01', 'P1Y', 'PT1S', '%zz']
CAST_PROBES = {       # fixed source values per type: every value class that decides between Y and M
    'untypedAtomic': [f"xs:untypedAtomic('{x}')" for x in _STR_PROBES],
    'string': [f"'{x}'" for x in _STR_PROBES],
    'float': ["xs:float('1.5')", "xs:float('NaN')", "xs:float('INF')", "xs:float('0')"],
    'double': ['1.5e0', "xs:double('NaN')", "xs:double('-INF')", '0e0', '1e300'],
    'decimal': ['1.5', '0.0', '-7.0', '12345678901234567890.5'],
    'integer': ['0', '1', '-7', '123456789012345678901234567890', '-' + '9' * 400, '9' * 400, '9007199254740993', '-9007199254740993'],
    'duration': ["xs:duration('P1Y2M3DT4H')", "xs:duration('PT0S')"],
    'yearMonthDuration': ["xs:yearMonthDuration('P14M')"], 'dayTimeDuration': ["xs:dayTimeDuration('PT36H')"],
    'dateTime': ["xs:dateTime('2000-01-01T12:00:00Z')", "xs:dateTime('1999-12-31T23:59:59.5')"],
    'time': ["xs:time('12:00:00')", "xs:time('23:59:59.5+05:30')"], 'date': ["xs:date('2000-02-29Z')", "xs:date('2000-02-29')"],
    'gYearMonth': ["xs:gYearMonth('2000-02')", "xs:gYearMonth('2000-02-05:00')"], 'gYear': ["xs:gYear('2000')", "xs:gYear('2000Z')"],
    'gMonthDay': ["xs:gMonthDay('--02-29')", "xs:gMonthDay('--02-29Z')"], 'gDay': ["xs:gDay('---31')", "xs:gDay('---31+14:00')"],
    'gMonth': ["xs:gMonth('--02')", "xs:gMonth('--02Z')"], 'boolean': ['true()', 'false()'],
    'base64Binary': ["xs:base64Binary('QUJD')", "xs:base64Binary('')"], 'hexBinary': ["xs:hexBinary('0F')", "xs:hexBinary('')"],
    'anyURI': ["xs:anyURI('http://a/b')", "xs:anyURI('')"], 'QName': ["xs:QName('xs:a')", "xs:QName('local')"],
    # derived types (= XSD.derivedTypes, same order)
    'byte': ["xs:byte('1')"], 'short': ["xs:short('300')"], 'int': ["xs:int('70000')"], 'long': ["xs:long('5000000000')"],
    'unsignedByte': ["xs:unsignedByte('200')"], 'unsignedShort': ["xs:unsignedShort('40000')"],
    'unsignedInt': ["xs:unsignedInt('3000000000')"], 'unsignedLong': ["xs:unsignedLong('10000000000000000000')"],
    'nonNegativeInteger': ["xs:nonNegativeInteger('7')"], 'positiveInteger': ["xs:positiveInteger('7')"],
    'nonPositiveInteger': ["xs:nonPositiveInteger('-7')"], 'negativeInteger': ["xs:negativeInteger('-7')"],
    'normalizedString': ["xs:normalizedString('a b')"], 'token': ["xs:token('a b')"], 'language': ["xs:language('en')"],
    'NMTOKEN': ["xs:NMTOKEN('a')"], 'Name': ["xs:Name('a')"], 'NCName': ["xs:NCName('a')"], 'ID': ["xs:ID('a')"],
    'IDREF': ["xs:IDREF('a')"], 'ENTITY': ["xs:ENTITY('a')"], 'dateTimeStamp': ["xs:dateTimeStamp('2000-01-01T00:00:00Z')"],
}
ALL_CAST_TYPES = list(CAST_PROBES)       # the 22 table types, then the 22 derived types


def cast_probe_results(impl, form: str, s: str, t: str):
    """the outcomes ('ok' or the error code) of applying the cast / the constructor function of t to every probe value of s"""
    out = []
    for e in CAST_PROBES[s]:
        expr = f'({e}) cast as xs:{t}' if form == 'cast' else f'xs:{t}({e})'
        k, r = impl.xpath('31', '1.1', expr, {})
        out.append('ok' if k == 'ok' else r)
    return out


def cast_verdict(results, form: str = 'cast') -> str:
    """Y: every probe value is cast; N: every one is refused — by the cast expression as a type error (XPTY0004); the
    constructor function reports a refused source type as FORG0001 like a bad value (finding F10l, pinned by the suite), so
    for that path N is observed as "no probe value succeeds" (every M cell of the table has a succeeding probe); M: else"""
    if all(r == 'ok' for r in results):
        return 'Y'
    if form == 'cast' and all(r == 'ERR:XPTY0004' for r in results):
        return 'N'
    if form == 'ctor' and all(r != 'ok' for r in results):
        return 'N'
    return 'M'


def cast_table_cases(run: Run, impl: Impl) -> None:
    """every probe value of every source type through `cast as`, the constructor function and `castable as` for every target
    type, judged cell by cell against the F&O table executed by the Lean driver: N — refused (XPTY0004 from the cast
    expression; any error from the constructor function, F10l); Y — accepted; M — never a type error; and for a pair with a
    derived type: permitted iff the pair of table ancestors is not N"""
    st = run.stats
    try:      # the class itself: a dateTimeStamp cannot exist without a timezone
        impl.types['dateTimeStamp'](2000, 1, 1)
        run.disagree(Disagreement({'python': 'DateTimeStamp(2000, 1, 1)'}, impl='ok', spec='ERR:V', what='dateTimeStamp-without-timezone',
                                  site='datetime.py DateTimeStamp.__init__'))
    except ValueError:
        pass
    pairs = [(a, b) for a in ALL_CAST_TYPES for b in ALL_CAST_TYPES]
    answers = run.driver('C10', [f'op=castv A={a} B={b}' for a, b in pairs])
    for (a, b), ans in zip(pairs, answers):
        f = dict(kv.split('=', 1) for kv in ans.split(' ') if '=' in kv)
        verdict, allowed = f['spec'].split(':')
        table_cell = a in CAST_TYPES and b in CAST_TYPES
        for e in CAST_PROBES[a]:
            case = {'source': e, 'source_type': a, 'target': b, 'table_verdict': verdict, 'permitted': allowed}
            st.case(['cast-table', e, b], nontrivial=True)
            kc, rc = impl.xpath('31', '1.1', f'({e}) cast as xs:{b}', {})
            kf, rf = impl.xpath('31', '1.1', f'xs:{b}({e})', {})
            kb, rb = impl.xpath('31', '1.1', f'({e}) castable as xs:{b}', {})
            got = {'cast': 'ok' if kc == 'ok' else rc, 'ctor': 'ok' if kf == 'ok' else rf,
                   'castable': ('1' if rb is True else '0' if rb is False else f'?{rb!r}') if kb == 'ok' else rb}
            st.count('cast-table:' + verdict)
            if allowed == '0':
                want = {'cast': 'ERR:XPTY0004', 'ctor': got['ctor'] if got['ctor'] != 'ok' else 'ERR', 'castable': '0'}
            elif table_cell and verdict == 'Y':
                want = {'cast': 'ok', 'ctor': 'ok', 'castable': '1'}
            else:    # M, or a derived type: the value decides, but never as a type error of the cast expression
                want = dict(got)
                if got['cast'] == 'ERR:XPTY0004':
                    want['cast'] = 'ok-or-value-error'
            if got != want:
                run.disagree(Disagreement(case, impl=repr(got), spec=repr(want), what='cast-vs-casting-table',
                                          site='_xpath2_operators.py cast / _xpath2_constructors.py'))
            # the result of a successful cast is a value of the target type: its string form is a literal of T that re-reads
            # as T to the same value (for xs:dateTimeStamp this is "the timezone is there")
            for form, (k_, r_) in (('cast', (kc, rc)), ('ctor', (kf, rf))):
                if k_ != 'ok' or isinstance(r_, list):
                    continue
                ks, rs = impl.xpath('31', '1.1', 'xs:string($v)', {'v': r_})
                text = rs if ks == 'ok' else None
                k2, r2 = impl.xpath('31', '1.1', f'xs:{b}($t)', {'t': text}) if isinstance(text, str) else ('err', rs)
                st.count('cast-table:result-reparsed')
                if k2 == 'ok':
                    try:     # the same value (a subtype instance may come back as its base type) with the same string form
                        same = (r2 == r_) or (isinstance(r2, float) and isinstance(r_, float) and math.isnan(r2) and math.isnan(r_))
                        k3, r3 = impl.xpath('31', '1.1', 'xs:string($v)', {'v': r2})
                        back = 'ok:same' if same and r3 == text else 'ok:' + value_text(r2)
                    except Exception as e:
                        back = 'ERR:OTHER:' + type(e).__name__
                else:
                    back = r2
                if back != 'ok:same':
                    run.disagree(Disagreement(dict(case, form=form, result=value_text(r_), result_string=text),
                                              impl=back, spec='ok:same', what='cast-result-string-reparses',
                                              site=f'datatypes {b}: the value produced by a cast'))


def translate_tables(run: Run) -> dict:
    import re
    from elementpath.datatypes import builtin_atomic_types, Integer
    from elementpath import helpers
    types = {k[3:]: v for k, v in builtin_atomic_types.items() if k.startswith('xs:')}
    fam = [(n, c) for n, c in types.items() if isinstance(c, type) and issubclass(c, Integer)]
    fam.sort(key=lambda nc: (len(nc[1].__mro__), nc[0]))
    rows = []
    for n, c in fam:
        mro = [b.name for b in c.__mro__[1:] if isinstance(b, type) and issubclass(b, Integer) and getattr(b, 'name', None)]
        rows.append((n, c._lower_bound, c._higher_bound, mro))
        BOUNDS_PY[n] = (c._lower_bound, (c._higher_bound - 1) if c._higher_bound is not None else None)
    ws = helpers.Patterns.whitespaces
    white = [cp for cp in range(0x110000) if ws.fullmatch(chr(cp))]

    def pat(p):
        return getattr(p, '_pattern', None) if not isinstance(p, re.Pattern) else p.pattern

    pats = []
    for n in sorted(types):
        p = pat(getattr(types[n], 'pattern', None))
        if p is not None:
            pats.append((n, p))
            PATTERN_TEXT[n] = p
    for extra in ('numeric_literal', 'whitespaces'):
        p = getattr(helpers.Patterns, extra, None)
        pats.append(('Patterns.' + extra, pat(p) if p is not None else '<missing>'))
    out = ['/- GENERATED by harness/c10.py from the live elementpath -- do not edit -/',
           'namespace EPV.Gen.C10', '',
           '/-- (name, _lower_bound, _higher_bound, names of the integer classes in __mro__[1:]) -/',
           'def intTable : List (String × Option Int × Option Int × List String) := [']
    out.append(',\n'.join(f'  ({lean_str(n)}, {lean_opt_int(lo)}, {lean_opt_int(hi)}, [{", ".join(lean_str(m) for m in mro)}])'
                          for n, lo, hi, mro in rows) + ']')
    out.append('')
    out.append('/-- code points matched by helpers.Patterns.whitespaces (one character, fullmatch) -/')
    out.append('def whitespaceCPs : List Nat := [' + ', '.join(map(str, white)) + ']')
    import unicodedata, hashlib, tempfile, os, json
    cache_file = Path(tempfile.gettempdir()) / 'verif-c10-name-tables.json'
    try:
        cache = json.loads(cache_file.read_text())
    except Exception:
        cache = {}

    def cached_ranges(pattern, probe, pred):
        """the table is a function of the pattern text, the probe and the Unicode tables of the interpreter"""
        key = hashlib.sha256(repr((pattern.pattern, pattern.flags, probe, unicodedata.unidata_version,
                                   sys.version)).encode()).hexdigest()
        if key not in cache:
            cache[key] = cp_ranges(pred)
            cache['dirty'] = True
        return [tuple(x) for x in cache[key]]

    def cp_ranges(pred):
        res, a = [], None
        for cp in range(0x110000):
            if pred(chr(cp)):
                if a is None:
                    a = cp
            elif a is not None:
                res.append((a, cp)); a = None
        if a is not None:
            res.append((a, 0x110000))
        return res

    name_tables = {}
    for key, tname in (('ncname', 'NCName'), ('name', 'Name'), ('nmtoken', 'NMTOKEN')):
        cp_ = types[tname].pattern          # the compiled live pattern (LazyPattern descriptor)
        name_tables[key + 'First'] = cached_ranges(cp_, '%s', lambda ch: cp_.fullmatch(ch) is not None)
        name_tables[key + 'Later'] = cached_ranges(cp_, 'a%s', lambda ch: cp_.fullmatch('a' + ch) is not None)
    qp_ = types['QName'].pattern
    name_tables['qnameFirst'] = cached_ranges(qp_, '%s', lambda ch: qp_.fullmatch(ch) is not None)
    name_tables['qnameLater'] = cached_ranges(qp_, 'a%s', lambda ch: qp_.fullmatch('a' + ch) is not None)
    name_tables['qnamePFirst'] = cached_ranges(qp_, '%s:a', lambda ch: qp_.fullmatch(ch + ':a') is not None)
    name_tables['qnamePLater'] = cached_ranges(qp_, 'a%s:a', lambda ch: qp_.fullmatch('a' + ch + ':a') is not None)
    if cache.pop('dirty', False):
        try:
            tmp_ = cache_file.with_suffix('.%d.tmp' % os.getpid())
            tmp_.write_text(json.dumps(cache))
            os.replace(tmp_, cache_file)
        except OSError:
            pass
    # the harness's own view: do the live character classes coincide with the XML 1.0 (5th ed.) productions?
    xs_ = [(0x41, 0x5B), (0x5F, 0x60), (0x61, 0x7B), (0xC0, 0xD7), (0xD8, 0xF7), (0xF8, 0x300), (0x370, 0x37E), (0x37F, 0x2000),
           (0x200C, 0x200E), (0x2070, 0x2190), (0x2C00, 0x2FF0), (0x3001, 0xD800), (0xF900, 0xFDD0), (0xFDF0, 0xFFFE),
           (0x10000, 0xF0000)]
    xc_ = xs_ + [(0x2D, 0x2F), (0x30, 0x3A), (0xB7, 0xB8), (0x300, 0x370), (0x203F, 0x2041)]
    col_ = [(0x3A, 0x3B)]

    def same_set(tbl, ref):
        merged = []
        for a, b in sorted(ref):
            if merged and a <= merged[-1][1]:
                merged[-1] = (merged[-1][0], max(merged[-1][1], b))
            else:
                merged.append((a, b))
        return [tuple(x) for x in tbl] == merged
    agree = (same_set(name_tables['ncnameFirst'], xs_) and same_set(name_tables['ncnameLater'], xc_)
             and same_set(name_tables['nameFirst'], xs_ + col_) and same_set(name_tables['nameLater'], xc_ + col_)
             and same_set(name_tables['nmtokenFirst'], xc_ + col_) and same_set(name_tables['nmtokenLater'], xc_ + col_)
             and same_set(name_tables['qnameFirst'], xs_) and same_set(name_tables['qnameLater'], xc_)
             and same_set(name_tables['qnamePFirst'], xs_) and same_set(name_tables['qnamePLater'], xc_))
    out.append('/-- the translator\'s own comparison of the ten tables below with the XML 1.0 (5th ed.) NameStartChar / NameChar '
               'productions (code point by code point, in Python); `EPV.C10.name_tables_status` re-computes it in the kernel -/')
    out.append(f'def nameTablesAgreeClaim : Bool := {"true" if agree else "false"}')
    out.append('/-- code points the live patterns of xs:NCName / xs:Name / xs:NMTOKEN accept in first / in later position '
               '(half-open ranges; depends on the Unicode tables of the running CPython) -/')
    for k_, v_ in name_tables.items():
        out.append(f'def {k_} : List (Nat × Nat) := [' + ', '.join(f'({a}, {b})' for a, b in v_) + ']')
    out.append('def booleanValues : List String := [' + ', '.join(lean_str(x) for x in sorted(helpers.BOOLEAN_VALUES)) + ']')
    out.append('def infOrNan : List String := [' + ', '.join(lean_str(x) for x in sorted(helpers.NUMERIC_INF_OR_NAN)) + ']')
    out.append('/-- pattern source text of each builtin atomic type (LazyPattern._pattern) -/')
    out.append('def patterns : List (String × String) := [')
    out.append(',\n'.join(f'  ({lean_str(n)}, {lean_str(p)})' for n, p in pats) + ']')
    # the casting table of the live code: for every pair of types the verdict derived from the dispatch of the constructor
    # (`cast as` and the constructor function separately) on the fixed probe values
    impl_ = Impl()
    cast_tables = {}
    for form in ('cast', 'ctor'):
        types_ = ALL_CAST_TYPES if form == 'cast' else CAST_TYPES
        verd = {(a, b): cast_verdict(cast_probe_results(impl_, form, a, b), form) for a in types_ for b in types_}
        cast_tables[form] = verd
        cname = 'Cast' if form == 'cast' else 'Ctor'
        out.append(f'/-- verdicts of `{"E cast as xs:T" if form == "cast" else "xs:T(E)"}` (XPath 3.1 parser, XSD 1.1) on the probe values '
                   'of every source type: Y all succeed, N all refused, M otherwise; F&O table types, row-major -/')
        out.append(f'def castVerdicts{cname} : List (String × String × String) := [')
        out.append(',\n'.join('  ' + ', '.join(f'({lean_str(a)}, {lean_str(b)}, {lean_str(verd[(a, b)])})' for b in CAST_TYPES)
                              for a in CAST_TYPES) + ']')
        if form == 'cast':
            out.append('/-- the same for all constructible atomic types: is the pair permitted (verdict other than N) -/')
            out.append('def castAllowedCast : List (String × String × Bool) := [')
            out.append(',\n'.join('  ' + ', '.join(f'({lean_str(a)}, {lean_str(b)}, {"true" if verd[(a, b)] != "N" else "false"})'
                                                    for b in ALL_CAST_TYPES) for a in ALL_CAST_TYPES) + ']')
    out.append('end EPV.Gen.C10')
    text = '\n'.join(out) + '\n'
    gen = LEAN / 'EPV' / 'Gen' / 'C10Tables.lean'
    gen.parent.mkdir(exist_ok=True)
    if not gen.exists() or gen.read_text() != text:
        gen.write_text(text)
    return {'cast_table_cells': len(ALL_CAST_TYPES) ** 2, 'integer_types': len(rows), 'whitespace_codepoints': len(white), 'name_table_ranges': {k: len(v) for k, v in name_tables.items()}, 'name_tables_agree_with_xml': agree,
            'patterns': len(pats), 'rows': [(n, lo, hi) for n, lo, hi, _ in rows]}


# ------------------------------------------------------------------------------ search / shrink
def search(run: Run):
    """a proof or the correspondence broke: look for a concrete failing input on the real code.
    (1) every integer within 2 of every bound of every integer type, with / without sign and leading zeros;
    (2) all strings of length <= 4 over a numeric alphabet for the numeric types and boolean;
    (3) all strings of length <= 4 over a hex / base64 alphabet."""
    from itertools import product
    sub = Run(PROP, run.tier, run.seed)
    impl = Impl()
    cases = []
    pts = set()
    for k in (7, 8, 15, 16, 31, 32, 63, 64):
        pts |= {2 ** k, -2 ** k}
    pts |= {0, 1, -1}
    for t in INT_TYPES:
        for p in sorted(pts):
            for d in (-2, -1, 0, 1, 2):
                v = p + d
                cases.append((t, str(v)))
                if v >= 0:
                    cases.append((t, '+' + str(v)))
                    cases.append((t, '-' + str(v)) if v == 0 else (t, '0' + str(v)))
    alpha = ['0', '1', '.', 'e', '+', '-', ' ', 'E']
    short = [''.join(p) for k in range(0, 5) for p in product(alpha, repeat=k)]
    for t in ('decimal', 'double', 'float', 'integer'):
        cases += [(t, s) for s in short]
    for s in ['INF', '-INF', '+INF', 'NaN', '+NaN', 'nan', 'inf', 'INF ', ' NaN', 'I NF', 'true', 'false', '1', '0', 'tru',
              'True', ' true', 'true ', '00', '01', 'truefalse']:
        for t in ('double', 'float', 'boolean', 'decimal'):
            cases.append((t, s))
    for k in range(0, 5):
        for p in product(['0', 'f', 'G', ' '], repeat=k):
            cases.append(('hexBinary', ''.join(p)))
        for p in product(['A', 'Q', 'B', '=', ' '], repeat=k):
            cases.append(('base64Binary', ''.join(p)))
    for i in range(0, len(cases), 3000):
        lexical_cases(sub, impl, cases[i:i + 3000])
    canon_cases(sub, impl)
    binary_cases(sub, impl)
    cast_cases(sub, impl)
    tz_cases(sub, impl)
    history_cases(sub, impl)
    cast_table_cases(sub, impl)
    run.notes.append(f'search: {len(cases)} exhaustive small-scope lexical cases + canon + binary, '
                     f'{len(sub.disagreements)} disagreements')
    return sub.disagreements


def shrink(d: Disagreement) -> Disagreement:
    """delta-debug the string of a lexical case: drop characters while the same kind of disagreement remains"""
    case = d.case
    if not isinstance(case, dict) or 'string' not in case or 'type' not in case:
        return d
    impl = Impl()
    t, s = case['type'], case['string']

    def fails(x):
        sub = Run(PROP, 'quick', 0)
        try:
            lexical_cases(sub, impl, [(t, x)])
        except Exception:
            return None
        known = load_known(PROP)
        for dd in sub.disagreements:
            if dd.what == d.what and dd.kind == d.kind and not any(f['id'] in dd.tags for f in known):
                return dd
        return None

    best = d
    changed = True
    while changed and len(s) > 0:
        changed = False
        for k in range(len(s)):
            x = s[:k] + s[k + 1:]
            dd = fails(x)
            if dd is not None:
                s, best, changed = x, dd, True
                break
    return best


# ------------------------------------------------------------------------------ body
def body(run: Run) -> int:
    info = translate_tables(run)
    run.stats.extra['tables'] = info
    run.trusted_base += [
        'translator harness/c10.py::translate_tables (prints live class attributes / regex sources as Lean literals)',
        "CPython `re` (the hand-written recognisers of EPV/Model/Lexical.lean are tied to the pattern *texts* pinned by "
        "EPV.C10.patterns_pinned and to the behaviour of `re` on them only by the correspondence)",
        'CPython int(str) / Decimal(str) / format(Decimal, "f") on strings of the XSD lexical alphabet; float(str) and '
        'repr(float) (finite values of doubles are compared with CPython float() as reference, not with a Lean model)',
        'codecs hex/base64 of CPython (compared with the Lean codecs on every run)']
    run.assumptions += [
        'xs:anyURI: urllib.parse.urlparse (does it raise, which path does it return) is an oracle of the Lean model '
        'Lex.anyUriCtor; the model covers the library\'s own checks, XSD 1.1 makes every string an anyURI literal',
        'xs:anyAtomicType, xs:NOTATION, xs:error have no usable constructor and are excluded']
    run.prove(['EPV.Props.C10', 'EPV.Props.C10Tables', 'EPV.Props.C10Tz', 'EPV.Props.C10Dur', 'EPV.Props.C10Greg', 'EPV.Props.C10Names', 'EPV.Props.C10Date', 'EPV.Props.C10Str', 'EPV.Props.C10Uri', 'EPV.Props.C10CastTable', 'EPV.Props.C10DecStr'], ['EPV.Spec.XSDLexical', 'EPV.Model.Lexical'])
    try:
        impl = Impl()
        rng = run.rng
        types = [t for t in sorted(impl.types) if t not in SKIPPED_TYPES]
        cases = [c for c in CORPUS if c[0] in impl.types]
        cases += name_boundary_cases()
        per_type = run.scale(350, 3000)
        for t in types:
            k = per_type * (2 if t in MODELLED else 1)
            cases += [(t, gen_string(rng, t)) for _ in range(k)]
        run.stats.rule = (
            'lexical: (type, string) with the string drawn from the lexical grammar of the type (or of another type), then '
            'mutated (white space of the XSD and of the Python-only kind around/inside, deleted / inserted / replaced '
            'characters, out-of-range-by-one integers, leading zeros, signs); each case runs T(s), T.is_valid(s), and under '
            'XSD 1.0 and 1.1 and XPath 2.0 and 3.1 parsers `$s cast as xs:T`, `xs:T($s)`, `$s castable as xs:T`; modelled '
            'types are compared with the Lean model and spec. canon: integers / decimal literals -> canonical string, '
            're-parsed. bin: octet lists through hex/base64 codecs and casts. matrix: (source value, target type) cells. '
            'distinct = distinct (kind, type, input) triples')
        for i in range(0, len(cases), 3000):
            lexical_cases(run, impl, cases[i:i + 3000])
        canon_cases(run, impl)
        dectuple_cases(run, impl)
        binary_cases(run, impl)
        cast_cases(run, impl)
        tz_cases(run, impl)
        history_cases(run, impl)
        run.stats.extra['mutable_after_construction'] = mutable_types_scan()
        sequence_cases(run, impl)
        matrix_cases(run, impl)
        qname_value_cases(run, impl)
        funcitem_cases(run, impl)
        cast_table_cases(run, impl)
    except DriverError as e:
        run.broken.append('driver:C10 ' + str(e)[:300])
    return run.finish('proof', shrink=shrink, search=search)


if __name__ == '__main__':
    cli(PROP, body, translate=translate_tables)

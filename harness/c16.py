"""
C16 — function items are first-class values: closures, partial application, HOFs.

 prove     : EPV.Props.C16 (closure_eq_spec(_partial) + kernel-checked counter-examples,
             hof_eq_expansion, sort_perm_sorted_stable, partial_apply_eq_direct, call_repeatable)
 correspond: generated *typed, closed* programs of the fragment (integers, booleans, sequences,
             for/let, inline functions, dynamic calls, `name#1` references, partial application,
             `!`, for-each/filter/fold-left/fold-right/for-each-pair/apply/sort) are evaluated by the
             real elementpath (`select(None, expr, parser=XPath31Parser, item=1)`), by the Lean model
             (implementation semantics: token slots, shared/private variable dicts) and by the Lean
             specification (lexical closures, F&O definitions of the HOFs); results as canonical text.
 cfg       : which of the repairs F16 (fresh function item per evaluation) and F05 (private dict
             in a call) the live tree contains is read off two canonical witnesses; the model is run
             with that configuration (both configurations are covered by the theorems).
 search    : exhaustive small programs: every closure-history shape x every way of using it.
"""
from __future__ import annotations

import math
import sys
from decimal import Decimal
from pathlib import Path

sys.path.insert(0, str(Path(__file__).resolve().parent.parent))
from harness.common import (Run, Disagreement, cli, DriverError)  # noqa: E402

PROP = 'C16'
FUEL = 400
CI_URI = 'http://www.w3.org/2005/xpath-functions/collation/html-ascii-case-insensitive'
CP_URI = 'http://www.w3.org/2005/xpath-functions/collation/codepoint'

# ------------------------------------------------------------------------------- types
I, B = 'I', 'B'
N, A = 'N', 'A'      # N: one numeric item (integer / decimal / double), A: one atomic item (N or boolean)


def S(t):
    return ('S', t)


IS = S(I)


def F(args, ret):
    return ('F', tuple(args), ret)


def is_fun(t):
    return isinstance(t, tuple) and t[0] == 'F'


def is_seq(t):
    return isinstance(t, tuple) and t[0] == 'S'


def subtype(a, b) -> bool:
    """a value of type a can be used where b is expected"""
    if a == b:
        return True
    if (a, b) in ((I, N), (I, A), (N, A), (B, A)):
        return True
    if is_seq(b) and not is_seq(a):
        return subtype(a, b[1])
    if is_seq(a) and is_seq(b):
        return subtype(a[1], b[1])
    if is_fun(a) and is_fun(b):
        return len(a[1]) == len(b[1]) and all(subtype(x, y) for x, y in zip(b[1], a[1])) and subtype(a[2], b[2])
    return False


BUILTINS = {
    'abs': F([I], I), 'count': F([IS], I), 'sum': F([IS], I), 'reverse': F([IS], IS),
    'head': F([IS], IS), 'tail': F([IS], IS), 'exists': F([IS], B), 'empty': F([IS], B),
    'remove': F([IS, I], IS), 'insert-before': F([IS, I, IS], IS),
    'position': F([], I), 'last': F([], I), 'data': F([], I),     # read the focus the reference captured
}
ARITY = {'remove': 2, 'insert-before': 3, 'position': 0, 'last': 0, 'data': 0}
# builtins that work on sequences of any items (function items included)
POLY = {'count': lambda t: F([t], I), 'reverse': lambda t: F([t], t), 'head': lambda t: F([t], t),
        'tail': lambda t: F([t], t), 'exists': lambda t: F([t], B), 'empty': lambda t: F([t], B)}


# --------------------------------------------------------------------------- printers
def is_atomic(e) -> bool:
    return e[0] in ('lit', 'dlit', 'elit', 'slit', 'nan', 'inf', 'negz', 'var', 'dot', 'pos', 'last', 'tt', 'ff', 'emp', 'par')


def xp(e) -> str:
    """XPath text.  Parentheses are semantically neutral in the model except directly around a
    function expression in the function-argument position of a HOF (`par`)."""
    k = e[0]
    if k == 'lit':
        return str(e[1]) if e[1] >= 0 else f'(-{-e[1]})'
    if k == 'dlit':
        return f'{e[1]}.0' if e[1] >= 0 else f'(-{-e[1]}.0)'
    if k == 'elit':
        return f'{e[1]}e0' if e[1] >= 0 else f'(-{-e[1]}e0)'
    if k == 'slit':
        return '"' + e[1] + '"'
    if k == 'nan':
        # ('nan', 'float'): xs:float NaN, used only as a constant key component
        return "xs:float('NaN')" if len(e) > 1 and e[1] == 'float' else "xs:double('NaN')"
    if k == 'inf':
        return "xs:double('INF')" if e[1] else "xs:double('-INF')"
    if k == 'negz':
        return '(-0e0)'
    if k == 'inst':
        return f'{wrap(e[2])} instance of xs:{e[1]}'
    if k == 'tt':
        return 'true()'
    if k == 'ff':
        return 'false()'
    if k == 'emp':
        return '()'
    if k == 'var':
        return f'$v{e[1]}'
    if k == 'dot':
        return '.'
    if k == 'pos':
        return 'position()'
    if k == 'last':
        return 'last()'
    if k in ('add', 'sub', 'mul', 'gt', 'eq'):
        op = {'add': '+', 'sub': '-', 'mul': '*', 'gt': 'gt', 'eq': 'eq'}[k]
        return f'{wrap(e[1])} {op} {wrap(e[2])}'
    if k == 'cat':
        return f'{wrap(e[1])}, {wrap(e[2])}'
    if k == 'ite':
        return f'if ({xp(e[1])}) then {wrap(e[2])} else {wrap(e[3])}'
    if k == 'for':
        return f'for $v{e[1]} in {seqarg(e[2])} return {wrap(e[3])}'
    if k == 'let':
        return f'let $v{e[1]} := {wrap(e[2])} return {wrap(e[3])}'
    if k == 'fn':
        return 'function(' + ', '.join(f'$v{p}' for p in e[2]) + ') { ' + xp(e[3]) + ' }'
    if k == 'tfn':
        ps = ', '.join(f'$v{p} as {xty(t)}' for p, t in zip(e[2], e[3]))
        return f'function({ps}) as {xty(e[4])} {{ {xp(e[5])} }}'
    if k == 'named':
        # both spellings of a named function reference (EQName with and without prefix)
        n = ARITY.get(e[1], 1)
        return f'fn:{e[1]}#{n}' if len(e) > 2 and e[2] else f'{e[1]}#{n}'
    if k == 'call':
        f = xp(e[1]) if e[1][0] == 'var' else f'({xp(e[1])})'
        return f + '(' + ', '.join('?' if a is None else wrap(a) for a in e[2]) + ')'
    if k == 'spart':
        return e[1] + '(' + ', '.join('?' if a is None else wrap(a) for a in e[2]) + ')'
    if k == 'par':
        return f'({xp(e[1])})'
    if k == 'smap':
        return f'{seqarg(e[1])} ! {wrap(e[2])}'
    if k == 'forEach':
        return f'for-each({seqarg(e[1])}, {funarg(e[2])})'
    if k == 'filter':
        return f'filter({seqarg(e[1])}, {funarg(e[2])})'
    if k == 'foldL':
        return f'fold-left({seqarg(e[1])}, {wrap(e[2])}, {funarg(e[3])})'
    if k == 'foldR':
        return f'fold-right({seqarg(e[1])}, {wrap(e[2])}, {funarg(e[3])})'
    if k == 'pairs':
        return f'for-each-pair({seqarg(e[1])}, {seqarg(e[2])}, {funarg(e[3])})'
    if k == 'sortK':
        # e[3]: collation argument: 'default' = `()` (the parser's default collation), or an explicit URI
        col = e[3] if len(e) > 3 else 'default'
        carg = {'default': '()', 'codepoint': f'"{CP_URI}"', 'asciici': f'"{CI_URI}"'}[col]
        return f'sort({seqarg(e[1])}, {carg}, {funarg(e[2])})'
    if k == 'apply':
        return f'apply({funarg(e[1])}, [' + ', '.join(wrap(m) for m in e[2]) + '])'
    raise ValueError(k)


XTY = {'item': 'item()', 'atomic': 'xs:anyAtomicType', 'integer': 'xs:integer', 'decimal': 'xs:decimal',
       'double': 'xs:double', 'boolean': 'xs:boolean', 'func': 'function(*)'}


def xty(t: str) -> str:
    occ = t[-1] if t[-1] in '?*+' else ''
    return XTY[t.rstrip('?*+')] + occ


def wrap(e) -> str:
    return xp(e) if is_atomic(e) else f'({xp(e)})'


def seqarg(e) -> str:
    """sequence-argument positions (range of `for`, sequence arguments of the HOFs): the real code
    pulls them lazily.  Parenthesised (materialised) by default; a `!` expression marked lazy
    (`('smap', a, b, True)`) is printed bare, so that the lazy generator is consumed while the
    functions are being called (the model is eager: equal results are part of the tie since the
    repair `… iterate their sequence argument on a copy of the context`)."""
    if e[0] == 'smap' and len(e) > 3 and e[3]:
        return xp(e)
    return xp(e) if e[0] in ('lit', 'dlit', 'elit', 'slit', 'var', 'emp', 'par') else f'({xp(e)})'


def funarg(e) -> str:
    # a bare function expression takes the raw-token shortcut of the HOFs; `par` forces evaluation
    return xp(e) if e[0] in ('fn', 'tfn', 'var', 'par') else f'({xp(e)})'


def proto(e, dc: bool = False) -> str:
    """driver tokens; `dc`: the parser evaluating the program has html-ascii-case-insensitive as its
    default collation (the collation in force of every sort is resolved here)"""
    out: list[str] = []

    def go(e):
        k = e[0]
        if k in ('lit', 'dlit', 'elit', 'var'):
            out.extend([k, str(e[1])])
        elif k == 'slit':
            out.extend(['slit', str(len(e[1]))] + [str(ord(ch)) for ch in e[1]])
        elif k in ('nan', 'negz'):
            out.append(k)
        elif k == 'inf':
            out.append('inf+' if e[1] else 'inf-')
        elif k == 'sortK':
            col = e[3] if len(e) > 3 else 'default'
            ci = dc if col == 'default' else (col == 'asciici')
            out.extend(['sortK', '1' if ci else '0']); go(e[1]); go(e[2])
        elif k == 'inst':
            out.extend(['inst', e[1]]); go(e[2])
        elif k in ('tt', 'ff', 'emp', 'dot', 'pos', 'last'):
            out.append(k)
        elif k in ('add', 'sub', 'mul', 'gt', 'eq', 'cat', 'smap', 'forEach', 'filter'):
            out.append(k); go(e[1]); go(e[2])      # (a 4th element of smap is a printing hint)
        elif k in ('ite', 'foldL', 'foldR', 'pairs'):
            out.append(k); go(e[1]); go(e[2]); go(e[3])
        elif k in ('for', 'let'):
            out.extend([k, str(e[1])]); go(e[2]); go(e[3])
        elif k == 'fn':
            out.extend(['fn', str(e[1]), str(len(e[2]))] + [str(p) for p in e[2]]); go(e[3])
        elif k == 'tfn':
            out.extend(['tfn', str(e[1]), str(len(e[2]))] + [str(p) for p in e[2]] + list(e[3]) + [e[4]]); go(e[5])
        elif k == 'named':
            out.extend(['named', e[1]])
        elif k == 'call':
            out.append('call'); go(e[1]); out.append(str(len(e[2])))
            for a in e[2]:
                if a is None:
                    out.append('?')
                else:
                    go(a)
        elif k == 'spart':
            out.extend(['spart', e[1], str(len(e[2]))])
            for a in e[2]:
                if a is None:
                    out.append('?')
                else:
                    go(a)
        elif k == 'par':
            out.append('par'); go(e[1])
        elif k == 'apply':
            out.append('apply'); go(e[1]); out.append(str(len(e[2])))
            for m in e[2]:
                go(m)
        else:
            raise ValueError(k)
    go(e)
    return ' '.join(out)


def renumber(e):
    """token numbers of the function expressions = order of occurrence"""
    n = [0]

    def go(e):
        if e is None or not isinstance(e, tuple):
            return e
        k = e[0]
        if k == 'fn':
            t = n[0]; n[0] += 1
            return ('fn', t, e[2], go(e[3]))
        if k == 'tfn':
            t = n[0]; n[0] += 1
            return ('tfn', t, e[2], e[3], e[4], go(e[5]))
        if k == 'call':
            return ('call', go(e[1]), [None if a is None else go(a) for a in e[2]])
        if k == 'apply':
            return ('apply', go(e[1]), [go(m) for m in e[2]])
        if k == 'spart':
            return ('spart', e[1], [None if a is None else go(a) for a in e[2]])
        if k in ('lit', 'dlit', 'elit', 'slit', 'nan', 'inf', 'negz', 'var', 'named'):
            return e
        if k == 'inst':
            return ('inst', e[1], go(e[2]))
        if k in ('for', 'let'):
            return (k, e[1], go(e[2]), go(e[3]))
        return (k,) + tuple(go(x) for x in e[1:])
    return go(e)


def size(e) -> int:
    if e is None or not isinstance(e, tuple):
        return 0
    k = e[0]
    if k in ('lit', 'dlit', 'elit', 'slit', 'nan', 'inf', 'negz', 'var', 'named'):
        return 1
    if k == 'fn':
        return 1 + size(e[3])
    if k == 'tfn':
        return 1 + size(e[5])
    if k == 'spart':
        return 1 + sum(size(a) for a in e[2])
    if k in ('call', 'apply'):
        return 1 + size(e[1]) + sum(size(a) for a in e[2])
    if k in ('for', 'let'):
        return 1 + size(e[2]) + size(e[3])
    return 1 + sum(size(x) for x in e[1:])


def names(e, acc: set):
    """every variable name occurring in e (references, binders, parameters)"""
    if e is None or not isinstance(e, tuple):
        return acc
    k = e[0]
    if k == 'var':
        acc.add(e[1])
    elif k in ('lit', 'dlit', 'elit', 'slit', 'nan', 'inf', 'negz', 'named'):
        pass
    elif k == 'fn':
        acc.update(e[2]); names(e[3], acc)
    elif k == 'tfn':
        acc.update(e[2]); names(e[5], acc)
    elif k == 'spart':
        for a in e[2]:
            names(a, acc)
    elif k in ('call', 'apply'):
        names(e[1], acc)
        for a in e[2]:
            names(a, acc)
    elif k in ('for', 'let'):
        acc.add(e[1]); names(e[2], acc); names(e[3], acc)
    else:
        for x in e[1:]:
            names(x, acc)
    return acc


def wellformed(e) -> bool:
    """the parser rejects a `for` whose variable name occurs anywhere in its range expression
    (XPST0008 'loop variable in its range expression', a static rule of the code outside C16)"""
    if e is None or not isinstance(e, tuple):
        return True
    k = e[0]
    if k in ('lit', 'dlit', 'elit', 'slit', 'nan', 'inf', 'negz', 'var', 'named'):
        return True
    if k == 'for' and e[1] in names(e[2], set()):
        return False
    if k == 'fn':
        return wellformed(e[3])
    if k == 'tfn':
        return wellformed(e[5])
    if k == 'spart':
        return all(wellformed(a) for a in e[2])
    if k in ('call', 'apply'):
        return wellformed(e[1]) and all(wellformed(a) for a in e[2])
    if k in ('for', 'let'):
        return wellformed(e[2]) and wellformed(e[3])
    return all(wellformed(x) for x in e[1:])


def kinds(e, acc: set):
    if e is None or not isinstance(e, tuple):
        return acc
    k = e[0]
    acc.add(k)
    if k in ('lit', 'dlit', 'elit', 'slit', 'nan', 'inf', 'negz', 'var', 'named'):
        return acc
    if k == 'tfn':
        acc.add('fn'); kinds(e[5], acc)
    elif k == 'fn':
        kinds(e[3], acc)
    elif k == 'spart':
        for a in e[2]:
            kinds(a, acc)
    elif k in ('call', 'apply'):
        kinds(e[1], acc)
        for a in e[2]:
            if a is None:
                acc.add('placeholder')
            kinds(a, acc)
    elif k in ('for', 'let'):
        kinds(e[2], acc); kinds(e[3], acc)
    else:
        for x in e[1:]:
            kinds(x, acc)
    return acc


# --------------------------------------------------------------------------- generator
class Gen:
    def __init__(self, rng, noise=0.0):
        self.rng = rng
        self.noise = noise      # probability of a deliberately ill-typed/ill-arity spot
        self.tags: set[str] = set()

    # scope: list of (id, type), later entries shadow earlier ones
    def visible(self, sc, want):
        seen, out = set(), []
        for vid, t in reversed(sc['vars']):
            if vid in seen:
                continue
            seen.add(vid)
            if subtype(t, want):
                out.append(vid)
        return out

    def fresh(self, sc, avoid=()):
        r = self.rng
        used = {v for v, _ in sc['vars']}
        if used and r.random() < 0.3:
            cand = [v for v in used if v not in avoid]
            if cand:
                self.tags.add('shadowing')
                return r.choice(sorted(cand))
        n = 0
        while n in used or n in avoid:
            n += 1
        return n

    def bind(self, sc, vid, t, **kw):
        new = dict(sc)
        new['vars'] = sc['vars'] + [(vid, t)]
        new.update(kw)
        return new

    def lit(self):
        return ('lit', self.rng.choice([0, 1, 2, 3, 5, 7, 10, -1, -4]))

    def gen(self, t, sc, d):
        r = self.rng
        vs = self.visible(sc, t)
        if d <= 0:
            return self.leaf(t, sc, vs)
        if vs and r.random() < 0.25:
            return ('var', r.choice(vs))
        if r.random() < 0.12:
            return self.binder(t, sc, d)
        if t == I:
            return self.gen_int(sc, d)
        if t == B:
            return self.gen_bool(sc, d)
        if t in (N, A):
            return self.gen_atomic(t, sc, d)
        if is_fun(t):
            return self.gen_fun(t, sc, d)
        if is_seq(t):
            return self.gen_seq(t, sc, d)
        raise ValueError(t)

    def leaf(self, t, sc, vs):
        r = self.rng
        if vs and r.random() < 0.6:
            return ('var', r.choice(vs))
        if t == I:
            if sc.get('dot') == I and r.random() < 0.5:
                return ('dot',)
            if sc.get('dot') is not None and not sc.get('infn') and r.random() < 0.15:
                return (r.choice(['pos', 'last']),)
            if self.noise and sc.get('infn') and r.random() < self.noise:
                self.tags.add('noise:focus')      # `.` in a function body: focus absent (F16f)
                return ('dot',)
            return self.lit()
        if t == B:
            return (r.choice(['tt', 'ff']),)
        if t in (N, A):
            return self.numlit(t)
        if is_seq(t):
            if t[1] in (N, A):
                n = r.choice([1, 2, 3, 4, 5])
                e = self.numlit(t[1])
                for _ in range(n - 1):
                    e = ('cat', e, self.numlit(t[1]))
                return e
            if t[1] == I:
                n = r.choice([0, 1, 2, 3, 3, 4])
                if n == 0:
                    return ('emp',)
                e = self.lit()
                for _ in range(n - 1):
                    e = ('cat', e, self.lit())
                return e
            return self.leaf(t[1], sc, [])
        if is_fun(t):
            return self.gen_fun(t, sc, 0)
        raise ValueError(t)

    def numlit(self, t):
        """small numbers in all three numeric types (and booleans for A): equal values of different
        type are frequent"""
        r = self.rng
        if t == A and r.random() < 0.3:
            return (r.choice(['tt', 'ff']),)
        v = r.choice([0, 1, 1, 1, 2, 2, 3, -1])
        return (r.choice(['lit', 'dlit', 'elit']), v)

    def typecode(self, v, sc, d):
        """an integer (sequence) that tells the type of $v apart: nested `instance of` tests"""
        r = self.rng
        codes = r.sample(range(0, 6), 4)
        tests = ['boolean', 'integer', 'decimal', 'double']
        r.shuffle(tests)
        if 'decimal' in tests and 'integer' in tests and tests.index('decimal') < tests.index('integer'):
            pass    # then integers take the decimal branch too: still a function of the type
        e = ('lit', codes[3])
        for t, c in zip(tests[:3], codes[:3]):
            e = ('ite', ('inst', t, ('var', v)), ('lit', c), e)
        self.tags.add('typecode')
        return e

    def gen_atomic(self, t, sc, d):
        r = self.rng
        k = r.random()
        if k < 0.35:
            return self.numlit(t)
        if k < 0.5:
            return (r.choice(['add', 'sub', 'mul']), self.gen(N, sc, d - 1), self.gen(N, sc, d - 1))
        if k < 0.6:
            return ('call', ('named', 'abs'), [self.gen(N, sc, d - 1)])
        if k < 0.7:
            return ('call', ('named', 'sum'), [self.gen(S(N), sc, d - 1)])
        if k < 0.8:
            return ('ite', self.gen(B, sc, d - 1), self.gen(t, sc, d - 1), self.gen(t, sc, d - 1))
        if k < 0.9:
            return self.call_of(F([r.choice([I, N, A])], t), sc, d)
        if t == A:
            return self.gen(r.choice([N, B]), sc, d - 1)
        return self.gen(I, sc, d - 1)

    def binder(self, t, sc, d):
        """let / (for returning a sequence) / if around an expression of type t"""
        r = self.rng
        k = r.random()
        if k < 0.6:
            bt = r.choice([I, I, IS, F([I], I), F([I], IS), B])
            x = self.fresh(sc)
            return ('let', x, self.gen(bt, sc, d - 1), self.gen(t, self.bind(sc, x, bt), d - 1))
        return ('ite', self.gen(B, sc, d - 1), self.gen(t, sc, d - 1), self.gen(t, sc, d - 1))

    def call_of(self, ft, sc, d, fexpr=None):
        """a call of a function of type ft (arguments generated)"""
        f = fexpr if fexpr is not None else self.gen(ft, sc, d - 1)
        args = [self.gen(a, sc, d - 2) for a in ft[1]]
        if self.noise and self.rng.random() < self.noise and args and not is_fun(ft[2]):
            self.tags.add('noise:arity')
            args = args[:-1] if self.rng.random() < 0.5 else args + [self.lit()]
        return ('call', f, args)

    def gen_int(self, sc, d):
        r = self.rng
        avs = [v for v in self.visible(sc, A) if v not in self.visible(sc, I) and v not in self.visible(sc, B)]
        if avs and r.random() < 0.4:
            return self.typecode(r.choice(avs), sc, d)
        k = r.random()
        if k < 0.22:
            op = r.choice(['add', 'add', 'sub', 'mul'])
            a, b = self.gen(I, sc, d - 1), self.gen(I, sc, d - 1)
            if self.noise and r.random() < self.noise:
                self.tags.add('noise:operand')
                b = self.gen(r.choice([IS, B]), sc, d - 1)
            return (op, a, b)
        if k < 0.30:
            return self.leaf(I, sc, self.visible(sc, I))
        if k < 0.55:
            nargs = r.choice([0, 1, 1, 2, 2, 3])
            ft = F([r.choice([I, I, IS, F([I], I)]) for _ in range(nargs)], I)
            return self.call_of(ft, sc, d)
        if k < 0.7:
            return ('call', ('named', r.choice(['count', 'sum'])), [self.gen(IS, sc, d - 1)])
        if k < 0.76:
            return ('call', ('named', 'abs'), [self.gen(I, sc, d - 1)])
        if k < 0.86:
            # fold to a single integer
            f = self.gen(F([I, I], I), sc, d - 1)
            return (r.choice(['foldL', 'foldR']), self.gen(IS, sc, d - 1), self.gen(I, sc, d - 1), self.hofwrap(f))
        if k < 0.93:
            ms = [self.gen(I, sc, d - 2) for _ in range(r.choice([1, 2, 2]))]
            f = self.gen(F([I] * len(ms), I), sc, d - 1)
            return ('apply', self.hofwrap(f), ms)
        return self.binder(I, sc, d)

    def gen_bool(self, sc, d):
        r = self.rng
        if r.random() < 0.15:
            return ('inst', r.choice(['integer', 'decimal', 'double', 'boolean']), self.gen(A, sc, d - 1))
        k = r.random()
        if k < 0.1:
            return (r.choice(['gt', 'eq']), self.gen(N, sc, d - 1), self.gen(N, sc, d - 1))
        if k < 0.55:
            return (r.choice(['gt', 'gt', 'eq']), self.gen(I, sc, d - 1), self.gen(I, sc, d - 1))
        if k < 0.7:
            return ('call', ('named', r.choice(['exists', 'empty'])), [self.gen(IS, sc, d - 1)])
        if k < 0.85:
            return self.call_of(F([I], B), sc, d)
        return (r.choice(['tt', 'ff']),)

    def hofwrap(self, f):
        """function argument of a HOF: bare function expression (raw-token path), parenthesised
        (evaluated), or whatever it is"""
        if f[0] == 'fn' and self.rng.random() < 0.4:
            return ('par', f)
        return f

    def gen_fun(self, t, sc, d):
        r = self.rng
        _, args, ret = t
        k = r.random()
        if d > 0:
            if k < 0.18 and 1 <= len(args) < 3:
                # partial application of a function with more parameters
                extra = r.choice([1, 1, 2])
                pos = sorted(r.sample(range(len(args) + extra), extra))
                full, it = [], iter(args)
                fixed_t = []
                for i in range(len(args) + extra):
                    if i in pos:
                        ft = r.choice([I, I, IS])
                        full.append(ft); fixed_t.append(ft)
                    else:
                        full.append(next(it))
                f = self.gen(F(full, ret), sc, d - 1)
                call_args = [self.gen(full[i], sc, d - 2) if i in pos else None for i in range(len(full))]
                if self.noise and r.random() < self.noise:
                    self.tags.add('noise:partial-arity')   # one placeholder too many (F16e)
                    call_args.append(None)
                self.tags.add('partial')
                return ('call', f, call_args)
            if k < 0.24:
                # maker: a function returning this function, called now
                at = r.choice([I, I, IS])
                mk = self.gen(F([at], t), sc, d - 1)
                self.tags.add('maker')
                return ('call', mk, [self.gen(at, sc, d - 2)])
            if k < 0.30:
                return self.binder(t, sc, d)
            if k < 0.36 and args:
                # identity partial application  f(?, ?, …)
                f = self.gen(t, sc, d - 1)
                self.tags.add('partial')
                return ('call', f, [None] * len(args))
        if not args and subtype(I, ret) and sc.get('dot') is not None and not sc.get('infn') and r.random() < 0.35:
            # reference to a focus-dependent function: captures the focus of this place
            self.tags.add('focusref')
            return ('named', r.choice(['position', 'last'] + (['data', 'data'] if sc.get('dot') == I else [])),
                    r.random() < 0.3)
        if len(args) == 1 and subtype(args[0], IS) and subtype(IS, ret) and d > 0 \
                and r.random() < 0.2:
            # static partial application with fixed arguments taken from the scope / the focus:
            # insert-before(?, P, X) / remove(?, P)
            self.tags.add('spart-nonliteral')
            pe = self.gen(I, sc, 1)
            if r.random() < 0.5:
                return ('spart', 'remove', [None, pe])
            return ('spart', 'insert-before', [None, pe, self.gen(r.choice([I, IS]), sc, 1)])
        if len(args) in (2, 3) and r.random() < 0.2:
            for name in ('remove', 'insert-before'):
                if subtype(BUILTINS[name], t):
                    return ('named', name, r.random() < 0.3)
        if len(args) == 1 and r.random() < 0.25:
            for name, bt in sorted(BUILTINS.items(), key=lambda kv: r.random()):
                if subtype(bt, t):
                    return ('named', name, r.random() < 0.3)
            if is_seq(args[0]) or is_fun(args[0]):
                for name, mk in sorted(POLY.items(), key=lambda kv: r.random()):
                    if subtype(mk(args[0] if is_seq(args[0]) else S(args[0])), t):
                        return ('named', name)
        # inline function expression
        ps, sc2 = [], dict(sc, dot=None, infn=True)
        for a in args:
            p = self.fresh(sc2, avoid=ps)
            ps.append(p)
            sc2 = self.bind(sc2, p, a)
        sc2['dot'] = None
        body = self.gen(ret, sc2, d - 1)
        if r.random() < 0.3:
            # declared parameter and result types (function conversion rules)
            self.tags.add('typed-fn')
            tys = [self.annot(a, False) for a in args]
            rt = self.annot(ret, True)
            if self.noise and r.random() < self.noise * 2:
                self.tags.add('noise:type')
                wrong = r.choice(['boolean', 'func', 'integer', 'double+', 'item'])
                if tys and r.random() < 0.6:
                    tys[r.randrange(len(tys))] = wrong
                else:
                    rt = wrong
            return ('tfn', 0, ps, tys, rt, body)
        return ('fn', 0, ps, body)

    def annot(self, t, result):
        """a declared type that accepts every value of the generator's type t (the value may be
        promoted: integer/decimal -> double only where the generator's type is already 'any numeric')"""
        r = self.rng
        if t == I:
            return r.choice(['integer', 'integer', 'decimal', 'atomic', 'item', 'integer?', 'item*', 'atomic+'])
        if t == N:
            return r.choice(['atomic', 'item', 'double', 'atomic?'])
        if t == A:
            return r.choice(['atomic', 'item'])
        if t == B:
            return r.choice(['boolean', 'boolean', 'atomic', 'item'])
        if is_fun(t):
            return r.choice(['func', 'func', 'item', 'func?', 'func*', 'func+'])
        if is_seq(t):
            el = t[1]
            if el == I:
                return r.choice(['integer*', 'decimal*', 'atomic*', 'item*'])
            if el == N:
                return r.choice(['atomic*', 'item*', 'double*'])
            if el in (A, B):
                return r.choice(['atomic*', 'item*'])
            return r.choice(['func*', 'item*'])
        return 'item*'

    def seqexpr(self, t, sc, d):
        """a sequence argument: sometimes a bare (lazily consumed) `a ! b`"""
        r = self.rng
        if is_seq(t) and d > 1 and r.random() < 0.25:
            self.tags.add('lazy-seqarg')
            st = r.choice([IS, IS, t])
            return ('smap', self.gen(st, sc, d - 1), self.gen(r.choice([t, t[1]]), dict(sc, dot=st[1]), d - 1), True)
        return self.gen(t, sc, d)

    def gen_seq(self, t, sc, d):
        r = self.rng
        el = t[1]
        k = r.random()
        if k < 0.12:
            return ('cat', self.gen(r.choice([t, el]), sc, d - 1), self.gen(r.choice([t, el]), sc, d - 1))
        if k < 0.24:
            st = r.choice([IS, IS, S(F([I], I))]) if d > 2 else IS
            body_t = r.choice([t, el])
            rng_e = self.seqexpr(st, sc, d - 1)
            x = self.fresh(sc, avoid=sorted(names(rng_e, set())))
            return ('for', x, rng_e, self.gen(body_t, self.bind(sc, x, st[1]), d - 1))
        if k < 0.34:
            st = r.choice([IS, IS, S(F([I], I)), S(F([], I))]) if d > 2 else IS
            return ('smap', self.gen(st, sc, d - 1), self.gen(r.choice([t, el]), dict(sc, dot=st[1]), d - 1))
        if k < 0.44:
            st = r.choice([IS, IS, S(F([I], I))]) if d > 2 else IS
            f = self.gen(F([st[1]], r.choice([t, el])), sc, d - 1)
            return ('forEach', self.seqexpr(st, sc, d - 1), self.hofwrap(f))
        if k < 0.52:
            pt = B
            if self.noise and r.random() < self.noise:
                self.tags.add('noise:predicate')      # `a single boolean value required`
                pt = r.choice([I, IS])
            f = self.gen(F([el], pt), sc, d - 1)
            return ('filter', self.seqexpr(t, sc, d - 1), self.hofwrap(f))
        if k < 0.62:
            st = r.choice([IS, IS, S(F([I], I))]) if d > 2 else IS
            left = r.random() < 0.5
            ft = F([t, st[1]], t) if left else F([st[1], t], t)
            if self.noise and r.random() < self.noise:
                self.tags.add('noise:hof-arity')      # `function arity must be 2`
                ft = F([t], t)
            f = self.gen(ft, sc, d - 1)
            return ('foldL' if left else 'foldR', self.seqexpr(st, sc, d - 1), self.gen(t, sc, d - 1), self.hofwrap(f))
        if k < 0.70:
            s1 = r.choice([IS, IS, S(F([I], I))]) if d > 2 else IS
            f = self.gen(F([s1[1], I], r.choice([t, el])), sc, d - 1)
            return ('pairs', self.seqexpr(s1, sc, d - 1), self.seqexpr(IS, sc, d - 1), self.hofwrap(f))
        if k < 0.78 and el in (I, N, A):
            if el != I and r.random() < 0.6:
                # a key that tells equal values of different type apart (and optionally the value)
                p = self.fresh(sc)
                key = self.typecode(p, sc, d)
                u = r.random()
                if u < 0.3:
                    key = ('cat', key, ('ite', ('inst', 'boolean', ('var', p)), ('lit', 0), ('var', p)))
                elif u < 0.5:
                    key = ('cat', ('ite', ('inst', 'boolean', ('var', p)), ('lit', 1), ('var', p)), key)
                kf = ('fn', 0, [p], key)
            elif r.random() < 0.25:
                # boolean key components (false < true), alone or followed by a numeric component
                p = self.fresh(sc)
                scp = self.bind(dict(sc, dot=None, infn=True), p, el)
                key = self.gen(B, scp, max(d - 2, 1))
                if r.random() < 0.5:
                    key = ('cat', key, self.gen(I, scp, 1))
                kf = ('fn', 0, [p], key)
                self.tags.add('sort-boolkey')
            else:
                kf = self.gen(F([el], r.choice([I, I, IS])), sc, d - 1)
            self.tags.add('sort' if el == I else 'sort-mixed')
            return ('sortK', self.seqexpr(t, sc, d - 1), kf)
        if k < 0.84:
            return ('call', ('named', r.choice(['reverse', 'tail', 'head'])), [self.gen(t, sc, d - 1)])
        if k < 0.92:
            nargs = r.choice([0, 1, 1, 2])
            ft = F([r.choice([I, I, IS, F([I], I)]) for _ in range(nargs)], r.choice([t, el]))
            return self.call_of(ft, sc, d)
        if k < 0.96:
            ms = [self.gen(r.choice([I, IS]), sc, d - 2) for _ in range(r.choice([1, 2]))]
            f = self.gen(F([IS] * len(ms), r.choice([t, el])), sc, d - 1)
            return ('apply', self.hofwrap(f), ms)
        return self.leaf(t, sc, self.visible(sc, t))

    # ---- closure histories: the shapes the property is about -----------------------------
    def history(self, d):
        """create several function items from ONE function expression inside for/let scopes, keep
        them (variable / sequence), call them later in some order, several times"""
        r = self.rng
        sc0 = {'vars': [], 'dot': I}
        n = r.choice([2, 2, 3, 4])
        xs = self.leaf(IS, sc0, [])
        while xs[0] == 'emp':
            xs = self.leaf(IS, sc0, [])
        i = self.fresh(sc0)
        sci = self.bind(sc0, i, I)
        arity = r.choice([0, 0, 1, 1, 2])
        ft = F([I] * arity, I)
        # the function expression mentions the loop variable
        ps, scb = [], dict(sci, dot=None)
        for _ in range(arity):
            p = self.fresh(scb, avoid=ps + [i])
            ps.append(p)
            scb = self.bind(scb, p, I)
        body = self.gen(I, scb, max(d - 2, 1))
        if r.random() < 0.8:
            body = (r.choice(['add', 'sub', 'mul', 'add']), ('var', i), body) if r.random() < 0.7 else ('cat', ('var', i), body)
            if body[0] == 'cat':
                ft = F([I] * arity, IS)
        fexpr = ('fn', 0, ps, body)
        how = r.random()
        if how > 0.88:
            # static partial applications whose fixed arguments read the focus / the loop variable
            arity, ft = 1, F([I], IS)

            def fixed_i(inloop):
                c = ['dot', 'pos', 'last'] if not inloop else ['var']
                k = r.choice(c + ['lit'])
                return ('var', i) if k == 'var' else (self.lit() if k == 'lit' else (k,))

            def sp(inloop):
                if r.random() < 0.4:
                    return ('spart', 'remove', [None, fixed_i(inloop)])
                x = fixed_i(inloop)
                if r.random() < 0.4:
                    x = ('cat', x, fixed_i(inloop))
                return ('spart', 'insert-before', [None, fixed_i(inloop), x])
            u = r.random()
            if u < 0.45:
                makers = ('smap', xs, sp(False))
            elif u < 0.8:
                makers = ('for', i, xs, sp(True))
            else:
                makers = ('cat', ('smap', xs, sp(False)), ('for', i, xs, sp(True)))
            self.tags.add('spart-history')
        elif arity == 0 and how < 0.45:
            # references to focus-dependent functions created under different foci: `xs ! f#0`
            ft = F([], I)
            xs2 = xs
            if r.random() < 0.3:
                xs2 = ('call', ('named', 'reverse'), [xs])
            f0 = lambda: ('named', r.choice(['position', 'last', 'data', 'data']), r.random() < 0.3)   # noqa: E731
            u = r.random()
            if u < 0.5:
                makers = ('smap', xs2, f0())
            elif u < 0.7:
                makers = ('smap', xs2, ('cat', f0(), f0()))
            elif u < 0.85:
                makers = ('smap', xs2, ('let', self.fresh(sc0, avoid=[i]), ('dot',), f0()))
            else:
                makers = ('cat', ('smap', xs2, f0()), ('for', i, xs, f0()))
            self.tags.add('focusref-history')
        elif how < 0.55:
            makers = ('for', i, xs, fexpr)
        elif how < 0.75:
            makers = ('forEach', xs, ('fn', 0, [i], fexpr))
        elif how < 0.9:
            m = self.fresh(sc0)
            makers = ('let', m, ('fn', 0, [i], fexpr), ('for', i, xs, ('call', ('var', m), [('var', i)])))
        else:
            makers = ('for', i, xs, ('let', self.fresh(sci), ('var', i), fexpr))
        fs = self.fresh(sc0)
        scf = self.bind(sc0, fs, S(ft), dot=None)

        def args():
            return [self.gen(I, scf, 1) for _ in range(arity)]

        def use():
            u = r.random()
            src = ('var', fs)
            if r.random() < 0.25:
                src = ('call', ('named', r.choice(['reverse', 'tail', 'head'])), [src])
            if u < 0.3:
                return ('smap', src, ('call', ('dot',), args()))
            if u < 0.5:
                f = self.fresh(scf, avoid=[fs])
                return ('for', f, src, ('call', ('var', f), [self.gen(I, self.bind(scf, f, ft), 1) for _ in range(arity)]))
            if u < 0.65:
                f = self.fresh(scf)
                return ('forEach', src, self.hofwrap(('fn', 0, [f], ('call', ('var', f), args()))))
            if u < 0.75:
                a, f = self.fresh(scf), None
                f = self.fresh(scf, avoid=[a])
                left = r.random() < 0.5
                body2 = ('cat', ('var', a), ('call', ('var', f), args()))
                return ('foldL' if left else 'foldR', src, ('emp',),
                        self.hofwrap(('fn', 0, [a, f] if left else [f, a], body2)))
            if u < 0.85:
                f, y = self.fresh(scf), None
                y = self.fresh(scf, avoid=[f])
                a2 = args()
                return ('pairs', src, self.leaf(IS, scf, []),
                        self.hofwrap(('fn', 0, [f, y], ('add', ('call', ('var', f), a2), ('var', y))) if ft[2] == I
                                     else ('fn', 0, [f, y], ('cat', ('call', ('var', f), a2), ('var', y)))))
            if u < 0.93 and arity >= 1:
                # partial application of every item, then call
                g = self.fresh(scf, avoid=[fs])
                pa = [None] + [self.gen(I, scf, 1) for _ in range(arity - 1)]
                r.shuffle(pa)
                return ('smap', ('par', ('for', g, src, ('call', ('var', g), pa))), ('call', ('dot',), [self.gen(I, scf, 1)]))
            return ('call', ('call', ('named', 'head'), [src]), args())

        uses = [use() for _ in range(r.choice([1, 2, 2, 3]))]
        e = uses[0]
        for u in uses[1:]:
            e = ('cat', e, u)
        self.tags.add('history')
        return ('let', fs, makers, e)

    def pdag(self, d):
        """partial-application DAGs: several partials derived from one base function, partials of
        partials, every node used several times in random order (also once per item of a
        for / for-each), so that a partial is used again AFTER another partial was derived from it.
        Base forms: inline function, named reference `remove#2` / `insert-before#3`, static partial
        application `insert-before(?, 2, ?)` written in the expression."""
        r = self.rng
        form = r.random()
        if form < 0.6:
            arity = r.choice([2, 3, 3, 4])
            ps = list(range(10, 10 + arity))
            body = ('var', ps[0])
            if r.random() < 0.6:
                for p in ps[1:]:
                    body = ('cat', body, ('var', p))
            else:
                for p in ps[1:]:
                    body = ('add', ('mul', body, ('lit', 10)), ('var', p))
            base, types = ('fn', 0, ps, body), ['I'] * arity
        elif form < 0.8:
            name = r.choice(['remove', 'insert-before'])
            base, types = ('named', name, r.random() < 0.3), ['S', 'I', 'S'][:ARITY[name]]
        else:
            name = r.choice(['remove', 'insert-before', 'insert-before'])
            k = ARITY[name]
            keep = sorted(r.sample(range(k), r.randint(1, k)))
            full = ['S', 'I', 'S'][:k]
            sargs = [None if i in keep else self.pdag_arg(full[i], None) for i in range(k)]
            base, types = ('spart', name, sargs), [full[i] for i in keep]
        nodes = [(0, types)]              # (variable, types of the remaining placeholders)
        binds = [(0, base)]
        nxt = 1
        for _ in range(r.choice([2, 3, 3, 4, 5])):
            src, ts = r.choice(nodes)
            k = len(ts)
            if r.random() < 0.15 or k == 1:
                fixed = []                # identity partial f(?, ?, …)
            else:
                fixed = sorted(r.sample(range(k), r.randint(1, k - 1)))
            args = [self.pdag_arg(ts[i], None) if i in fixed else None for i in range(k)]
            binds.append((nxt, ('call', ('var', src), args)))
            nodes.append((nxt, [ts[i] for i in range(k) if i not in fixed]))
            nxt += 1
        loopv = nxt

        def use(lv):
            v, ts = r.choice(nodes)
            k = len(ts)
            if k > 1 and r.random() < 0.3:
                # partial application on the fly, then the call
                keep = r.randrange(k)
                return ('call', ('call', ('var', v), [None if i == keep else self.pdag_arg(ts[i], lv) for i in range(k)]),
                        [self.pdag_arg(ts[keep], lv)])
            return ('call', ('var', v), [self.pdag_arg(t, lv) for t in ts])

        uses = []
        for _ in range(r.choice([3, 4, 5, 6])):
            u = r.random()
            if u < 0.6:
                uses.append(use(None))
            elif u < 0.8:
                uses.append(('for', loopv, seq(*[self.lit() for _ in range(r.choice([2, 3]))]), use(loopv)))
            else:
                uses.append(('forEach', seq(*[self.lit() for _ in range(r.choice([2, 3]))]),
                             self.hofwrap(('fn', 0, [loopv], use(loopv)))))
        e = uses[0]
        for u in uses[1:]:
            e = ('cat', e, u)
        for v, b in reversed(binds):
            e = ('let', v, b, e)
        self.tags.add('pdag')
        self.tags.add('pdag:' + base[0])
        return e

    def pdag_arg(self, t, lv):
        r = self.rng
        if t == 'I':
            if lv is not None and r.random() < 0.5:
                return ('var', lv)
            return ('lit', r.choice([0, 1, 2, 3, 5, 7])) if True else self.lit()
        n = r.choice([0, 1, 2, 3])
        if n == 0:
            return ('emp',)
        e = ('var', lv) if lv is not None and r.random() < 0.3 else self.lit()
        for _ in range(n - 1):
            e = ('cat', e, self.lit())
        return e

    STRS = ['a', 'A', 'b', 'B', 'ab', 'Ab', 'aB', 'AB', '', 'a1', 'Z', 'z', 'ba']

    def sortprog(self, d):
        """fn:sort over strings (code-point order or html-ascii-case-insensitive: collation argument
        `()` = the parser's default, or an explicit URI) and over numerics with NaN, +-INF, -0 at every
        position, as items and as keys; the key function is a closure, a partial application, or inline"""
        r = self.rng
        fam = r.choice(['str', 'str', 'num', 'num', 'mixed'])
        n = r.choice([2, 2, 3, 4, 5, 6])

        def sitem():
            return ('slit', r.choice(self.STRS))

        def nitem():
            k = r.random()
            if k < 0.2:
                return ('nan',)
            if k < 0.3:
                return ('inf', r.random() < 0.5)
            if k < 0.4:
                return ('negz',)
            return (r.choice(['lit', 'dlit', 'elit']), r.choice([0, 0, 1, 2, -1, 3]))
        if fam == 'str':
            items = [sitem() for _ in range(n)]
        elif fam == 'num':
            items = [nitem() for _ in range(n)]
        else:
            items = [sitem() if r.random() < 0.5 else nitem() for _ in range(2)]   # type error unless equal kinds
        r.shuffle(items)
        x = 0
        kk = r.random()

        def special():
            return r.choice([('nan',), ('nan',), ('nan', 'float'), ('inf', True), ('inf', False), ('negz',),
                             ('elit', 0), ('lit', 1), ('dlit', 2)])
        if kk < 0.3 or (fam == 'mixed' and kk < 0.8):
            # (a string/number mix is a type error only if the two kinds are really compared: the model
            # requires position-wise uniform keys, so the mix is generated with the item as the whole key)
            key = ('var', x)
        elif kk < 0.5:
            # composite keys whose EARLIER components are special values shared by two or more items
            # (NaN, also in several components, as xs:double and xs:float; INF; -0) and a LATER
            # component decides: equal leading components must compare as tied
            self.tags.add('sortkey:special-prefix')
            u = r.random()
            lead = [special() for _ in range(r.choice([1, 1, 2, 3]))]
            if u < 0.5:
                parts = lead + [('var', x)]
            elif u < 0.8:
                # only some items get the special leading component
                t = r.choice(['integer', 'double', 'decimal', 'string'])
                other = ('nan',) if r.random() < 0.4 else special()
                parts = [('ite', ('inst', t, ('var', x)), lead[0], other)] + lead[1:] + [('var', x)]
            else:
                parts = lead + [('var', x), special(), ('var', x)]
            key = parts[0]
            for q in parts[1:]:
                key = ('cat', key, q)
        elif kk < 0.6:
            key = ('cat', ('var', x), self.lit())
        elif kk < 0.7:
            key = ('cat', r.choice([self.lit(), ('tt',), ('slit', 'k')]), ('var', x))
        elif kk < 0.8:
            # some items get a constant key of the same kind: ties, stability
            const = sitem() if fam == 'str' else nitem()
            key = ('ite', ('inst', r.choice(['integer', 'double', 'string', 'decimal']), ('var', x)), const, ('var', x))
        elif kk < 0.9:
            key = ('cat', ('var', x), ('var', x))
        else:
            key = r.choice([('nan',), ('slit', 'a'), ('emp',)])
        kf = ('fn', 0, [x], key)
        col = r.choice(['default', 'default', 'default', 'codepoint', 'asciici'])
        s0 = seq(*items)
        w = r.random()
        if w < 0.5:
            e = ('sortK', s0, kf, col)
        elif w < 0.65:
            e = ('let', 5, kf, ('sortK', s0, ('var', 5), col))
        elif w < 0.8:
            # the key function through a partial application
            e = ('sortK', s0, ('call', ('fn', 0, [6, x], key), [self.lit(), None]), col)
        elif w < 0.9:
            e = ('call', ('named', 'reverse'), [('sortK', s0, kf, col)])
        else:
            e = ('for', 7, seq(('lit', 1), ('lit', 2)), ('sortK', s0, kf, col))
        self.tags.add('sortprog:' + fam)
        self.tags.add('collation-arg:' + col)
        if r.random() < 0.5:
            self.tags.add('parser:asciici')
        return e

    def selfrec(self, d):
        """recursion through a function passed to itself"""
        r = self.rng
        sc0 = {'vars': [], 'dot': I}
        f, g, n = 0, 1, 2
        scb = {'vars': [(g, F([], I)), (n, I)], 'dot': None}   # $g's real type is recursive: never generated from
        step_e = self.gen(I, {'vars': [(n, I)], 'dot': None}, max(d - 2, 1))
        rec = ('call', ('var', g), [('var', g), ('sub', ('var', n), ('lit', 1))])
        comb = r.choice(['add', 'cat', 'cat2'])
        body_rec = ('add', step_e, rec) if comb == 'add' else (('cat', step_e, rec) if comb == 'cat' else ('cat', rec, step_e))
        base = ('lit', 0) if comb == 'add' else ('emp',)
        fn = ('fn', 0, [g, n], ('ite', ('gt', ('var', n), ('lit', 0)), body_rec, base))
        self.tags.add('selfrec')
        return ('let', f, fn, ('call', ('var', f), [('var', f), ('lit', r.choice([0, 1, 2, 3, 4]))]))

    def program(self, quick=True):
        r = self.rng
        self.tags = set()
        d = r.choice([2, 3, 3, 4, 4, 5])
        k = r.random()
        if k < 0.3:
            e = self.history(d)
        elif k < 0.35:
            e = self.selfrec(d)
        elif k < 0.45:
            e = self.pdag(d)
        elif k < 0.53:
            e = self.sortprog(d)
        else:
            sc0 = {'vars': [], 'dot': I}
            e = self.gen(r.choice([IS, IS, I, IS, B, S(A), S(A), S(N)]), sc0, d)
        if not wellformed(e):
            return self.program(quick)
        if 'parser:asciici' not in self.tags and 'sortK' in kinds(e, set()) and r.random() < 0.3:
            self.tags.add('parser:asciici')
        return renumber(e), sorted(self.tags)


# ------------------------------------------------------------------------ implementation
def canon_items(v) -> str:
    from elementpath.xpath_tokens import XPathFunction
    if not isinstance(v, list):
        v = [v]
    out = []
    for x in v:
        if isinstance(x, bool):
            out.append('true' if x else 'false')
        elif isinstance(x, int):
            out.append(str(x))
        elif isinstance(x, Decimal):
            out.append(f'D{int(x)}' if x == x.to_integral_value() else f'?Decimal:{x}')
        elif isinstance(x, float):
            if x != x:
                out.append('NaN')
            elif x in (float('inf'), float('-inf')):
                out.append('INF' if x > 0 else '-INF')
            else:   # -0e0 prints as E0: the sign of a computed zero is not modelled (the key of -0 is that of 0)
                out.append(f'E{int(x)}' if x == int(x) else f'?float:{x!r}')
        elif isinstance(x, str):
            out.append('"' + x + '"')
        elif isinstance(x, XPathFunction):
            out.append('F')
        elif isinstance(x, list):
            out.append('[' + canon_items(x) + ']')
        else:
            out.append(f'?{type(x).__name__}:{x!r}')
    return ','.join(out) if out else '()'


_PARSER = None
_PARSER_CI = None


class _Timeout(BaseException):
    pass


def _alarm(signum, frame):
    raise _Timeout()


def run_impl(text: str, limit: float = 0.5, dc: bool = False) -> str:
    """evaluate with the real code; a program whose evaluation does not finish within `limit`
    seconds (sequence sizes can explode: `$s ! $s` inside a fold) is reported as 'TIMEOUT' and
    skipped by the caller"""
    import signal
    import elementpath
    from elementpath.xpath3 import XPath31Parser
    from elementpath import XPathContext
    from elementpath.exceptions import ElementPathError
    old = signal.signal(signal.SIGALRM, _alarm)
    signal.setitimer(signal.ITIMER_REAL, limit)
    try:
        # one parser instance for the whole run; the SAME token tree is evaluated twice through
        # get_results (evaluate path) and once through select_results (iterator path) with fresh
        # contexts: state kept on tokens (placeholder values, argument lists of partial functions,
        # closure slots) must not leak from one evaluation into the next
        global _PARSER, _PARSER_CI
        if _PARSER is None:
            _PARSER = XPath31Parser()
            # non-default constructor option: the default collation of the static context
            _PARSER_CI = XPath31Parser(default_collation=CI_URI)
        token = (_PARSER_CI if dc else _PARSER).parse(text)
        r1 = canon_items(token.get_results(XPathContext(None, item=1)))
        r2 = canon_items(list(token.select_results(XPathContext(None, item=1))))
        r3 = canon_items(token.get_results(XPathContext(None, item=1)))
        if r1 != r2 or r1 != r3:
            return f'INCONSISTENT:{r1}|{r2}|{r3}'
        return r1
    except _Timeout:
        return 'TIMEOUT'
    except ElementPathError as e:
        code = (e.code or 'NOCODE').split(':')[-1]
        return 'ERR:' + code
    except RecursionError:
        return 'ERR:OTHER:RecursionError'
    except MemoryError:
        return 'TIMEOUT'
    except Exception as e:  # anything else escaping is part of the behaviour
        return 'ERR:OTHER:' + type(e).__name__
    finally:
        signal.setitimer(signal.ITIMER_REAL, 0)
        signal.signal(signal.SIGALRM, old)


def safe_driver(run: Run, lines: list[str], budget: float = 90.0) -> list:
    """the Lean driver with a safety net: a chunk that does not answer in time is bisected and the
    offending line answered with None"""
    import os
    import signal
    import subprocess
    from harness.common import LEAN

    def go(ls, t):
        if not ls:
            return []
        data = '\n'.join(ls) + '\n'
        # own process group: on a timeout the `lean` child of `lake env` must die too
        p = subprocess.Popen(['lake', 'env', 'lean', '--run', 'Drivers/C16.lean'], cwd=LEAN,
                             stdin=subprocess.PIPE, stdout=subprocess.PIPE, stderr=subprocess.PIPE,
                             text=True, start_new_session=True)
        try:
            stdout, stderr = p.communicate(data, timeout=t)
        except subprocess.TimeoutExpired:
            try:
                os.killpg(p.pid, signal.SIGKILL)
            except ProcessLookupError:
                pass
            p.communicate()
            if len(ls) == 1:
                return [None]
            h = len(ls) // 2
            return go(ls[:h], max(6.0, t / 3)) + go(ls[h:], max(6.0, t / 3))
        out = stdout.split('\n')
        if out and out[-1] == '':
            out.pop()
        if p.returncode != 0 or len(out) != len(ls):
            raise DriverError(f'driver C16: rc={p.returncode}, {len(out)} answers for {len(ls)} lines\n'
                              f'{stderr[-2000:]}')
        return out
    return go(lines, budget)


W_SHARE = ('smap', ('par', ('for', 0, ('cat', ('lit', 1), ('lit', 2)), ('fn', 0, [], ('var', 0)))), ('call', ('dot',), []))
W_LEAK = ('let', 0, ('lit', 10), ('cat', ('call', ('fn', 0, [0], ('add', ('var', 0), ('lit', 1))), [('lit', 1)]), ('var', 0)))


W_LEX = ('let', 0, ('fn', 0, [], ('var', 1)), ('let', 1, ('lit', 5), ('call', ('var', 0), [])))


def detect_cfg(run: Run) -> str:
    two = detect_cfg2(run)
    c = run_impl(xp(W_LEX))
    lex = {'5': '0', 'ERR:XPST0008': '1'}.get(c)
    if lex is None:
        run.disagree(Disagreement({'xpath': xp(W_LEX)}, impl=c, model='5|ERR:XPST0008', spec='ERR:XPST0008',
                                  what='cfg-witness', site='_InlineFunction.__call__'))
        lex = '1'
    return two + lex


def detect_cfg2(run: Run) -> str:
    """which repairs the live tree contains (read off the canonical witnesses of F16 and F05)"""
    a, b = run_impl(xp(W_SHARE)), run_impl(xp(W_LEAK))
    share = {'2,2': '1', '1,2': '0'}.get(a)
    leak = {'2,1': '1', '2,10': '0'}.get(b)
    if share is None or leak is None:
        run.disagree(Disagreement({'xpath': xp(W_SHARE if share is None else W_LEAK)},
                                  impl=a if share is None else b, model='2,2|1,2' if share is None else '2,1|2,10',
                                  spec='1,2' if share is None else '2,10', what='cfg-witness',
                                  site='_InlineFunction.evaluate/__call__'))
        return (share or '0') + (leak or '0')
    return share + leak


FLAG_TAGS = [('stale', 'F16'), ('scope', 'F05'), ('arity', 'F16e')]


def parse_answer(ans: str):
    parts = dict(p.split('=', 1) for p in ans.split(' ') if '=' in p)
    return parts.get('model'), parts.get('flags', '000'), parts.get('spec')


TREES: dict[str, tuple] = {}
TREE_TAGS: dict[str, list] = {}


def compare(run: Run, cfg: str, progs: list, record=True) -> list[Disagreement]:
    impls = [run_impl(xp(e), dc='parser:asciici' in tags) for e, tags in progs]
    keep = [i for i, r in enumerate(impls) if r != 'TIMEOUT']
    if record and len(keep) != len(progs):
        run.stats.count('skipped:timeout', len(progs) - len(keep))
    progs = [progs[i] for i in keep]
    impls = [impls[i] for i in keep]
    lines = [f'cfg={cfg} fuel={FUEL} P={proto(e, "parser:asciici" in tags)}' for e, tags in progs]
    answers = safe_driver(run, lines)
    out = []
    st = run.stats
    for (e, tags), line, ans, impl in zip(progs, lines, answers, impls):
        text = xp(e)
        case = {'xpath': text, 'program': proto(e, 'parser:asciici' in tags), 'cfg': cfg,
                'default_collation': CI_URI if 'parser:asciici' in tags else CP_URI}
        if ans is None:
            if record:
                st.count('skipped:model-timeout')
            continue
        if ans.startswith('bad-'):
            out.append(Disagreement(case, 'driver:' + ans, what='protocol'))
            continue
        model, flags, spec = parse_answer(ans)
        if model == 'ERR:FUEL' or spec == 'ERR:FUEL':
            if record:
                st.count('skipped:fuel')
            continue
        ftags = [tag for bit, (_, tag) in zip(flags, FLAG_TAGS) if bit == '1']
        if record:
            ks = kinds(e, set())
            st.case(case, nontrivial=bool(ks & {'fn', 'named'}))
            for k in sorted(ks):
                st.count('node:' + k)
            for t in tags:
                st.count('gen:' + t)
            for t in ftags:
                st.count('trigger:' + t)
            st.count('result:' + ('error:' + impl[4:] if impl.startswith('ERR:') else
                                  ('empty' if impl == '()' else 'items')))
            st.count('size:%d+' % (min(size(e), 60) // 10 * 10))
        if impl != spec or impl != model:
            TREES[case['program']] = e
            TREE_TAGS[case['program']] = [t for t in tags if t.startswith('parser:')]
        if impl != spec:
            out.append(Disagreement(case, impl=impl, model=model, spec=spec, what='closure-semantics',
                                    site='_InlineFunction.evaluate/__call__, HOFs', tags=ftags))
        elif impl != model:
            out.append(Disagreement(case, impl=impl, model=model, spec=spec, what='model'))
    return out


# corpus: the probes of DESIGN.md §5 and everything that ever disagreed while the model was built
def P(s):  # tiny reader for corpus entries written as python tuples
    return renumber(s)


def fn(ps, body):
    return ('fn', 0, ps, body)


V = lambda i: ('var', i)      # noqa: E731
L = lambda n: ('lit', n)      # noqa: E731


def seq(*xs):
    e = xs[0]
    for x in xs[1:]:
        e = ('cat', e, x)
    return e


CORPUS = [
    W_LEX,                                                                              # F05c (the only non-closed program)
    W_SHARE,                                                                            # F16
    W_LEAK,                                                                             # F05
    ('foldL', seq(L(1), L(2), L(3)), seq(L(0), L(0)), fn([0, 1], V(0))),                # F16b
    ('foldL', ('emp',), ('emp',), fn([0, 1], V(0))),                                    # F16b
    ('foldR', seq(L(1), L(2), L(3)), seq(L(0), L(0)), fn([0, 1], ('cat', V(0), V(1)))),
    # F16c: two partial applications of one function item / fixed argument from an inner scope
    ('let', 0, fn([1, 2], ('sub', V(1), V(2))),
     ('let', 3, ('call', V(0), [None, L(3)]), ('let', 4, ('call', V(0), [None, L(4)]),
      seq(('call', V(3), [L(10)]), ('call', V(4), [L(10)]), ('call', V(3), [L(10)]))))),
    ('let', 0, fn([1, 2], ('sub', V(1), V(2))),
     ('smap', ('par', ('for', 5, seq(L(1), L(2)), ('call', V(0), [None, V(5)]))), ('call', ('dot',), [L(10)]))),
    ('let', 0, fn([1, 2, 3], seq(V(1), V(2), V(3))),
     ('call', ('call', ('call', V(0), [None, L(5), None]), [None, L(2)]), [L(1)])),
    # seeded change m2: a partial used again after another partial was derived from it
    ('let', 0, fn([1, 2, 3], seq(V(1), V(2), V(3))),
     ('let', 4, ('call', V(0), [None, L(2), None]), ('let', 5, ('call', V(4), [L(1), None]),
      seq(('call', V(5), [L(3)]), ('call', V(4), [L(5), L(6)]), ('call', ('call', V(4), [None, L(9)]), [L(8)]))))),
    ('let', 0, ('call', fn([1, 2, 3], seq(V(1), V(2), V(3))), [None, L(2), None]),
     ('for', 6, seq(L(1), L(2)), seq(('call', ('call', V(0), [V(6), None]), [L(7)]), ('call', V(0), [L(5), V(6)])))),
    # seeded change m3: keys belong to item occurrences, not to values (1 == 1.0 == 1e0 == true() in Python)
    ('sortK', seq(L(1), ('tt',), ('dlit', 1), ('elit', 1), L(0), ('ff',)),
     fn([0], ('ite', ('inst', 'boolean', V(0)), L(0), ('ite', ('inst', 'double', V(0)), L(1),
                                                        ('ite', ('inst', 'integer', V(0)), L(3), L(2)))))),
    ('sortK', seq(L(1), ('elit', 1)), fn([0], ('ite', ('inst', 'decimal', V(0)), L(5), L(1)))),
    ('sortK', seq(('dlit', 2), L(2), ('elit', 1), L(1), ('dlit', 1)),
     fn([0], ('cat', V(0), ('ite', ('inst', 'integer', V(0)), L(1), L(0))))),
    # an empty left operand ends an arithmetic expression before the right operand is evaluated
    ('add', ('emp',), ('sub', ('dot',), ('tt',))),
    ('mul', ('emp',), ('call', L(1), [L(2)])),
    # seeded change: the item of a named reference stored on the `#` token (focus re-targeted)
    ('smap', ('par', ('smap', seq(L(5), L(6), L(7)), ('named', 'data'))), ('call', ('dot',), [])),
    ('smap', ('call', ('named', 'reverse'), [('smap', seq(L(5), L(6), L(7)), ('cat', ('named', 'position'), ('named', 'last')))]),
     ('call', ('dot',), [])),
    ('let', 0, ('smap', seq(L(8), L(9)), ('named', 'data', True)),
     seq(('forEach', V(0), fn([1], ('call', V(1), []))), ('for', 2, V(0), ('call', V(2), [])), ('call', ('named', 'position'), []))),
    # F16n: a partial application written in the expression binds its fixed arguments when it is evaluated
    ('for', 0, ('par', ('smap', seq(L(1), L(2)), ('spart', 'insert-before', [None, L(1), ('dot',)]))), ('call', V(0), [L(7)])),
    ('smap', ('par', ('for', 0, seq(L(1), L(2)), ('spart', 'insert-before', [None, L(1), V(0)]))), ('call', ('dot',), [L(7)])),
    ('for', 0, ('par', ('smap', seq(L(1), L(2), L(3)), ('spart', 'remove', [None, ('pos',)]))), ('call', V(0), [seq(L(10), L(20), L(30))])),
    # the HOFs evaluate their function argument: a function call is not the function
    ('forEach', seq(L(1), L(-2)), ('call', ('named', 'head'), [('named', 'abs')])),
    ('apply', ('call', ('named', 'head'), [('named', 'abs')]), [L(-3)]),
    # ... and call it in their own focus, also while the sequence argument is consumed lazily
    ('forEach', ('smap', seq(L(5), L(6)), ('add', ('dot',), L(1)), True), ('spart', 'insert-before', [None, L(1), ('dot',)])),
    ('foldL', ('smap', seq(L(5), L(6)), ('add', ('dot',), L(1)), True), ('emp',), ('spart', 'insert-before', [None, ('pos',), None])),
    # arity checked at partial application and by for-each / filter / sort before the first call
    ('call', fn([0, 1], V(0)), [None]),
    ('forEach', ('emp',), fn([0, 1], V(0))),
    ('sortK', L(3), fn([0, 1], V(0))),
    # fn:apply: a type error inside the function is not an arity error; partially applied exists / empty
    ('apply', fn([0], ('add', V(0), ('tt',))), [L(1)]),
    ('filter', seq(L(1), L(2)), ('call', ('named', 'empty'), [None])),
    ('call', ('spart', 'exists', [None]), [('emp',)]),
    # boolean sort keys: false before true; a boolean against a number is a type error
    ('sortK', seq(L(1), L(2), L(3)), fn([0], ('eq', V(0), L(1)))),
    ('sortK', seq(L(1), L(2), L(3)), fn([0], ('cat', ('gt', V(0), L(1)), V(0)))),
    ('sortK', seq(L(1), L(2)), fn([0], ('ite', ('eq', V(0), L(1)), ('tt',), L(0)))),
    # typed inline functions: function conversion rules at the call, for the result, at partial application
    ('call', ('call', ('tfn', 0, [1, 2], ['integer', 'double'], 'item*', ('cat', V(1), V(2))), [None, L(2)]), [L(1)]),
    ('call', ('tfn', 0, [1, 2], ['integer', 'double'], 'item*', ('cat', V(1), V(2))), [None, ('tt',)]),
    ('call', ('tfn', 0, [1], ['atomic'], 'boolean', ('tt',)), [seq(L(1), L(2))]),
    ('call', ('tfn', 0, [1], ['atomic+'], 'boolean', ('tt',)), [('emp',)]),
    ('call', ('tfn', 0, [1], ['atomic'], 'item*', V(1)), [('named', 'abs')]),
    ('call', ('tfn', 0, [1], ['func*'], 'integer', ('call', ('named', 'count'), [V(1)])), [('named', 'abs')]),
    ('call', ('tfn', 0, [1], ['func?'], 'integer', ('call', ('named', 'count'), [V(1)])), [('named', 'abs')]),
    ('call', ('tfn', 0, [1], ['double*'], 'item*', V(1)), [seq(L(1), ('dlit', 2), ('elit', 3))]),
    ('call', ('tfn', 0, [1], ['decimal*'], 'item*', V(1)), [seq(L(1), ('elit', 2))]),
    ('call', ('tfn', 0, [1], ['item*'], 'integer', V(1)), [('named', 'abs')]),
    ('call', ('tfn', 0, [1], ['item*'], 'double', V(1)), [L(1)]),
    ('forEach', seq(L(1), L(2)), ('tfn', 0, [1], ['boolean'], 'item*', V(1))),
    # round 3: special doubles as sort keys, NaN first at every position; -0 = 0
    ('sortK', seq(('nan',), ('elit', 1)), fn([0], V(0))),
    ('sortK', seq(('elit', 1), ('nan',)), fn([0], V(0))),
    ('sortK', seq(L(1), ('nan',)), fn([0], V(0))),
    ('sortK', seq(('nan',), L(1)), fn([0], V(0))),
    ('sortK', seq(L(2), ('nan',), ('dlit', 1), ('inf', False), ('inf', True), L(0), ('negz',), ('nan',)), fn([0], V(0))),
    ('sortK', seq(L(1), L(2), L(3)), fn([0], ('ite', ('eq', V(0), L(2)), ('nan',), V(0)))),
    ('sortK', seq(('elit', 1), ('slit', 'a')), fn([0], V(0))),
    # round 4: equal NaN components of composite keys are tied, the later component decides
    ('sortK', seq(L(3), L(1), L(2)), fn([0], ('cat', ('nan',), V(0)))),
    ('sortK', seq(('slit', 'b'), ('slit', 'a'), ('slit', 'c')), fn([0], ('cat', ('nan',), V(0)))),
    ('sortK', seq(L(3), L(1), L(2)), fn([0], ('cat', ('cat', ('nan', 'float'), ('nan',)), V(0)))),
    ('sortK', seq(L(3), ('elit', 1), L(2), ('dlit', 0)),
     fn([0], ('cat', ('ite', ('inst', 'integer', V(0)), ('nan',), ('inf', False)), V(0)))),
    ('sortK', seq(L(3), L(1), L(2)), fn([0], ('cat', ('cat', ('inf', True), ('negz',)), V(0)))),
    # round 3: strings, collation argument `()` = default collation of the parser / explicit URI
    ('sortK', seq(('slit', 'b'), ('slit', 'a'), ('slit', 'B'), ('slit', 'A'), ('slit', 'ab'), ('slit', '')), fn([0], V(0))),
    ('sortK', seq(('slit', 'b'), ('slit', 'a'), ('slit', 'B'), ('slit', 'A')), fn([0], V(0)), 'asciici'),
    ('sortK', seq(('slit', 'b'), ('slit', 'a'), ('slit', 'B'), ('slit', 'A')), fn([0], V(0)), 'codepoint'),
    # the focus is absent in a function body (F16f repaired)
    ('smap', seq(L(7), L(8)), ('call', fn([], ('dot',)), [])),
    ('smap', seq(L(7), L(8)), ('call', fn([], ('pos',)), [])),
    ('smap', seq(L(7), L(8)), ('call', ('call', fn([], ('named', 'data')), []), [])),
    ('smap', seq(L(7), L(8)), ('call', fn([1], V(1)), [('dot',)])),
    ('smap', seq(L(7), L(8)), ('call', fn([], ('smap', seq(L(3), L(4)), ('pos',))), [])),
    # F16h: predicate result as a one-item sequence
    ('filter', seq(L(1), L(2), L(3)), fn([0], ('let', 1, V(0), ('gt', V(1), L(1))))),
    # arity
    ('call', fn([0, 1], V(0)), [L(1)]),
    ('call', fn([0], V(0)), []),
    ('apply', fn([0, 1], ('add', V(0), V(1))), [L(1)]),
    # closures kept in a sequence and called later, in another order, twice
    ('let', 0, ('for', 1, seq(L(1), L(2), L(3)), fn([2], ('add', V(2), V(1)))),
     seq(('smap', ('call', ('named', 'reverse'), [V(0)]), ('call', ('dot',), [L(10)])),
         ('for', 3, V(0), ('call', V(3), [L(20)])))),
    ('let', 0, fn([1], fn([2], ('add', V(2), V(1)))),
     ('let', 3, ('call', V(0), [L(1)]), ('let', 4, ('call', V(0), [L(2)]),
      seq(('call', V(3), [L(10)]), ('call', V(4), [L(10)]))))),
    ('let', 0, L(1), ('let', 1, fn([], V(0)), ('let', 0, L(2), seq(('call', V(1), []), V(0))))),
    ('let', 0, fn([1, 2], ('ite', ('gt', V(2), L(0)), ('add', V(2), ('call', V(1), [V(1), ('sub', V(2), L(1))])), L(0))),
     ('call', V(0), [V(0), L(4)])),
    ('forEach', seq(L(1), L(-2), L(3)), ('named', 'abs')),
    ('pairs', ('emp',), ('call', L(1), []), fn([0, 1], V(0))),         # zip never pulls the 2nd sequence
    ('sortK', seq(L(3), L(1), L(2), L(4)), fn([0], ('sub', ('mul', L(0), V(0)), ('mul', ('sub', V(0), ('mul', L(2), ('lit', 0))), L(0))))),
    ('sortK', seq(L(3), L(1), L(2), L(4), L(5), L(6)), fn([0], ('ite', ('gt', V(0), L(3)), L(1), seq(L(1), L(0))))),
    ('sortK', seq(L(3)), fn([0], ('add', V(0), ('tt',)))),
    ('apply', ('named', 'abs'), [L(-1)]),
    ('apply', ('named', 'abs'), [L(1), L(2)]),
]


def correspond(run: Run, cfg: str) -> None:
    rng = run.rng
    n = run.scale(6000, 60000)
    g = Gen(rng, noise=0.0)
    gn = Gen(rng, noise=0.06)
    progs = [(P(c), ['corpus']) for c in CORPUS]
    # the sort entries of the corpus also under the parser whose default collation is case-insensitive
    progs += [(P(c), ['corpus', 'parser:asciici']) for c in CORPUS if 'sortK' in kinds(c, set())]
    for k in range(n):
        progs.append((gn if k % 5 == 4 else g).program(run.quick))
    run.stats.rule = ('closed, typed programs of the fragment (depth 2..5; 30% closure histories: function items '
                      'created from one function expression inside for / for-each / a maker function, kept in a '
                      'variable, then called through !, for, for-each, fold-left/right, for-each-pair, after '
                      'reverse/head/tail, after partial application, 1-3 uses each; 5% recursion through '
                      'self-application; the rest random typed expressions with let/for shadowing, HOFs with '
                      'inline / parenthesised / named / partially applied function arguments, sort with '
                      'multi-component keys; every 5th program with 6% ill-typed operands / wrong arity); real '
                      'code vs Lean model vs Lean spec on the canonical result text.  distinct = distinct '
                      'programs containing a function expression or reference')
    for i in range(0, len(progs), 1500):
        for d in compare(run, cfg, progs[i:i + 1500]):
            run.disagree(d)
    skipped = sum(v for k, v in run.stats.hist.items() if k.startswith('skipped:'))
    if skipped * 50 > len(progs):
        run.broken.append(f'correspondence:C16/too-many-skipped ({skipped} of {len(progs)} programs timed out)')


def search(run: Run):
    """systematic small programs: every maker shape x every use shape x arity 0..2 x 2-3 items"""
    sub = Run(PROP, run.tier, run.seed)
    cfg = getattr(run, 'cfg16', '001')
    progs = []
    items = [seq(L(1), L(2)), seq(L(1), L(2), L(3))]
    for xs in items:
        for ar in (0, 1, 2):
            ps = [5, 6][:ar]
            body = V(1)
            for p in ps:
                body = ('add', ('mul', body, L(10)), V(p))
            fexpr = fn(ps, body)
            makers = [('for', 1, xs, fexpr), ('forEach', xs, fn([1], fexpr)),
                      ('let', 7, fn([1], fexpr), ('for', 1, xs, ('call', V(7), [V(1)])))]
            a = [L(3), L(4)][:ar]
            uses = [('smap', V(0), ('call', ('dot',), a)),
                    ('for', 8, V(0), ('call', V(8), a)),
                    ('forEach', V(0), fn([8], ('call', V(8), a))),
                    ('foldL', V(0), ('emp',), fn([9, 8], ('cat', V(9), ('call', V(8), a)))),
                    ('foldR', V(0), ('emp',), fn([8, 9], ('cat', ('call', V(8), a), V(9)))),
                    ('pairs', V(0), seq(L(100), L(200), L(300)), fn([8, 9], ('add', ('call', V(8), a), V(9)))),
                    ('smap', ('call', ('named', 'reverse'), [V(0)]), ('call', ('dot',), a)),
                    ('call', ('call', ('named', 'head'), [V(0)]), a),
                    ('sortK', seq(L(2), L(1), L(3)), fn([8], ('call', ('call', ('named', 'head'), [V(0)]), a))) if ar == 0
                    else ('sortK', seq(L(2), L(1), L(3)), ('call', ('call', ('named', 'head'), [V(0)]), [None] + a[1:]))]
            if ar >= 1:
                uses.append(('smap', ('par', ('for', 8, V(0), ('call', V(8), [None] + a[1:]))), ('call', ('dot',), [L(7)])))
            for m in makers:
                for u in uses:
                    progs.append((P(('let', 0, m, u)), ['search']))
                    progs.append((P(('let', 0, m, ('cat', u, u))), ['search']))
    # HOF argument sequences x function forms
    fforms1 = [fn([0], ('add', V(0), L(1))), ('par', fn([0], ('add', V(0), L(1)))), ('named', 'abs'),
               ('call', fn([0, 1], ('sub', V(0), V(1))), [None, L(1)]), ('call', fn([0, 1], ('sub', V(0), V(1))), [L(1), None])]
    fforms2 = [fn([0, 1], ('cat', V(0), V(1))), ('par', fn([0, 1], ('cat', V(1), V(0)))),
               ('call', fn([0, 1, 2], seq(V(0), V(1), V(2))), [None, L(9), None])]
    seqs = [('emp',), L(5), seq(L(1), L(-2)), seq(L(3), L(1), L(2))]
    for s in seqs:
        for f in fforms1:
            progs.append((P(('forEach', s, f)), ['search']))
            progs.append((P(('sortK', s, f)), ['search']))
            progs.append((P(('filter', s, fn([3], ('gt', ('call', f, [V(3)]), L(1))))), ['search']))
        for f in fforms2:
            for z in seqs[:3]:
                progs.append((P(('foldL', s, z, f)), ['search']))
                progs.append((P(('foldR', s, z, f)), ['search']))
            for s2 in seqs:
                progs.append((P(('pairs', s, s2, f)), ['search']))
    out = []
    for i in range(0, len(progs), 3000):
        out.extend(compare(sub, cfg, progs[i:i + 3000], record=False))
    run.notes.append(f'search: {len(progs)} systematic small programs, {len(out)} disagreements')
    from harness import c16_containers
    out.extend(c16_containers.search(run, cfg))
    return out


def subterms(e):
    """candidate replacements for shrinking: e replaced by one of its children (type-unsafe candidates are
    filtered by re-running)"""
    k = e[0]
    if k in ('lit', 'dlit', 'elit', 'slit', 'nan', 'inf', 'negz', 'var', 'named', 'tt', 'ff', 'emp', 'dot', 'pos', 'last'):
        return
    if k == 'inst':
        yield e[2]
        for b in subterms(e[2]):
            yield ('inst', e[1], b)
        return
    if k == 'fn':
        for b in subterms(e[3]):
            yield ('fn', e[1], e[2], b)
        return
    if k == 'tfn':
        yield ('fn', e[1], e[2], e[5])
        for b in subterms(e[5]):
            yield ('tfn', e[1], e[2], e[3], e[4], b)
        return
    kids = []
    if k == 'spart':
        return
    if k in ('call', 'apply'):
        yield e[1]
        for i, a in enumerate(e[2]):
            if a is not None:
                yield a
                for b in subterms(a):
                    yield (k, e[1], e[2][:i] + [b] + e[2][i + 1:])
        for b in subterms(e[1]):
            yield (k, b, e[2])
        return
    start = 2 if k in ('for', 'let') else 1
    kids = list(range(start, len(e)))
    for i in kids:
        yield e[i]
    for i in kids:
        for b in subterms(e[i]):
            yield e[:i] + (b,) + e[i + 1:]


def sig(d: Disagreement):
    def k(v):
        return v if isinstance(v, str) and v.startswith('ERR:') else 'value'
    return k(d.impl), k(d.model), k(d.spec)


def shrink(d: Disagreement) -> Disagreement:
    if not isinstance(d.case, dict) or 'program' not in d.case:
        return d
    if d.case.get('container'):
        from harness import c16_containers
        return c16_containers.shrink(d)
    sub = Run(PROP, 'quick', 0)
    cfg = d.case.get('cfg', '001')
    # re-read the program from its protocol text is not needed: shrink on the python tree kept aside
    tree = TREES.get(d.case['program'])
    if tree is None:
        return d
    best, bd = tree, d
    improved = True
    budget = 300
    while improved and budget > 0:
        improved = False
        for cand in subterms(best):
            budget -= 1
            if budget <= 0:
                break
            if not wellformed(cand):
                continue
            try:
                c = renumber(cand)
                ds = compare(sub, cfg, [(c, TREE_TAGS.get(d.case['program'], []))], record=False)
            except Exception:
                continue
            ds = [x for x in ds if x.kind == d.kind and x.what == d.what and x.tags == d.tags
                  and sig(x) == sig(d)]
            if ds and size(c) < size(best):
                best, bd, improved = c, ds[0], True
                break
    return bd


def body(run: Run) -> int:
    run.trusted_base += ['pretty-printer harness/c16.py::xp / proto (one tree, two renderings)',
                         'cfg detection from the two canonical witnesses (F16, F05)',
                         'CPython sorted() is stable (the model uses List.mergeSort, proved equal to the reference insertion sort)']
    run.assumptions += ['programs are closed and every lazily pulled sequence position (for-binding, HOF sequence '
                        'arguments) is parenthesised, a variable or a literal: the model is eager',
                        'sort keys are sequences of integer-valued numerics (integer/decimal/double); items may be any atomic of the fragment; collations, string and boolean keys are not modelled',
                        'static partial applications name(?, v, …) only with literal fixed arguments (the code evaluates them at call time)',
                        'the key function of sort is called once per item in the model (the code calls it in every '
                        'comparison): equal by call_repeatable']
    run.prove(['EPV.Props.C16', 'EPV.Props.C16Containers'],
              ['EPV.Model.Closures', 'EPV.Spec.ClosureSem', 'EPV.Model.Containers', 'EPV.Spec.ContainerSem'])
    cfg = detect_cfg(run)
    run.cfg16 = cfg
    run.stats.extra['cfg'] = {'share(F16 present)': cfg[0], 'leak(F05 present)': cfg[1],
                              'lexical(F05c repaired)': cfg[2]}
    try:
        correspond(run, cfg)
        # phase 5: arrays and maps holding function items (Props/C16Containers.lean)
        from harness import c16_containers
        c16_containers.correspond(run, cfg)
    except DriverError as e:
        run.broken.append('driver:C16 ' + str(e)[:300])
    return run.finish('proof', shrink=shrink, search=search)


if __name__ == '__main__':
    cli(PROP, body)

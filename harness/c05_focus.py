"""C05 extension (phase 5): focus-dependent sub-expressions evaluated repeatedly by ONE token.

Typed generator for the focus fragment of lean/EPV/Model/FocusCtor.lean (map / array constructors, `?k`, `?*`, `||`,
`+`, `>` over `.`, `position()`, `last()` inside `!`, `for`, predicates), histories of ONE parsed token over several
variable maps, compared per step with the Lean model (token slots threaded), the Lean specification and a fresh parse.
Protocol: lean/EPV/Model/FocusCtorDriver.lean (`FC ` lines of Drivers/C05.lean).
"""
from __future__ import annotations

from harness.common import Disagreement, Run

KEYS = ['n', 'k', 'a', 'b']
WORDS = ['', 'a', 'ab', 'x', 'zz']
ATOM = ('int', 'str')
# caller variables: v0 one int, v1 many ints, v2 one string; for-variables v3..
CALLER = {0: ('int', 'one'), 1: ('int', 'many'), 2: ('str', 'one')}


class FGen:
    def __init__(self, rng):
        self.rng = rng
        self.next_var = 3

    def pick(self, opts):
        return self.rng.choice(opts)()

    def gen(self, ty, card, d, focus, vars_):
        """an AST of item type `ty` ('int','str','bool','mapi','maps','arri','arrs') and cardinality one / many"""
        r = self.rng
        g = lambda t, c, dd=d - 1, f=focus, v=vars_: self.gen(t, c, dd, f, v)  # noqa: E731
        leaf, deep = [], []
        if ty == 'int':
            leaf.append(lambda: ('I', r.randrange(0, 10)))
            if focus is not None:
                leaf += [lambda: ('P',), lambda: ('Z',), lambda: ('P',)]
            if focus == 'int':
                leaf += [lambda: ('D',)] * 3
            for n, t in vars_.items():
                if t == ('int', 'one') or (card == 'many' and t == ('int', 'many')):
                    leaf.append(lambda n=n: ('V', n))
            deep.append(lambda: ('A', g('int', 'one'), g('int', 'one')))
        elif ty == 'str':
            leaf.append(lambda: ('T', r.choice(WORDS)))
            if focus == 'str':
                leaf += [lambda: ('D',)] * 2
            for n, t in vars_.items():
                if t == ('str', 'one'):
                    leaf.append(lambda n=n: ('V', n))
            deep.append(lambda: ('C', g(r.choice(ATOM), 'one'), g(r.choice(ATOM), 'one')))
            deep.append(lambda: ('C', g('str', 'one'), g('int', 'one')))
        elif ty == 'bool':
            deep.append(lambda: ('G', g('int', card), g('int', 'many')))
            leaf.append(lambda: ('G', self.gen('int', 'one', 0, focus, vars_), ('I', r.randrange(0, 4))))
        elif ty in ('mapi', 'maps'):
            et = 'int' if ty == 'mapi' else 'str'
            ec = 'many' if r.random() < 0.5 else 'one'
            if focus == ty:
                leaf.append(lambda: ('D',))
            for n, t in vars_.items():
                if t == (ty, 'one'):
                    leaf.append(lambda n=n: ('V', n))
            mk1 = lambda dd: ('M', r.choice(KEYS), self.gen(et, ec, dd, focus, vars_))  # noqa: E731
            leaf.append(lambda: mk1(0))
            deep.append(lambda: mk1(d - 1))
            deep.append(lambda: mk1(d - 1))

            def mk2():
                k1, k2 = r.sample(KEYS, 2) if r.random() < 0.95 else (KEYS[0], KEYS[0])
                return ('M2', k1, g(et, ec), k2, g(et, 'one'))
            deep.append(mk2)
        elif ty in ('arri', 'arrs'):
            et = 'int' if ty == 'arri' else 'str'
            if focus == ty:
                leaf.append(lambda: ('D',))
            for n, t in vars_.items():
                if t == (ty, 'one'):
                    leaf.append(lambda n=n: ('V', n))
            leaf.append(lambda: (r.choice('QR'), self.gen(et, 'one', 0, focus, vars_)))
            deep.append(lambda: ('Q', g(et, r.choice(['one', 'many']))))
            deep.append(lambda: ('R', g(et, r.choice(['one', 'many']))))
        if card == 'many' or ty not in ('int', 'str', 'bool'):
            # sequence-valued forms (containers are generated with cardinality "many" throughout)
            if card == 'many':
                deep.append(lambda: ('S', g(ty, r.choice(['one', 'many'])), g(ty, r.choice(['one', 'many']))))
                deep.append(lambda: ('S', g(ty, 'one'), g(ty, 'one')))

                def bang():
                    lt = r.choice(['int', 'int', 'str', 'mapi', 'maps', 'arri'])
                    left = self.gen(lt, 'many', d - 1, focus, vars_)
                    rv = {} if r.random() < 0.4 else vars_       # `$`-free right operand: what a "constant" cache would keep
                    return ('B', left, self.gen(ty, r.choice(['one', 'many']), d - 1, lt, rv))
                deep += [bang, bang, bang]

                def forx():
                    lt = r.choice(['int', 'int', 'str', 'mapi', 'arrs'])
                    left = self.gen(lt, 'many', d - 1, focus, vars_)
                    # shadowing, but never a loop variable that occurs in its own range expression (rejected at parse time)
                    free = sorted(set(vars_) - used_vars(left))
                    x = self.next_var if r.random() < 0.7 or not free else r.choice(free)
                    self.next_var += 1
                    v2 = dict(vars_)
                    v2[x] = (lt, 'one')
                    return ('F', x, left, self.gen(ty, r.choice(['one', 'many']), d - 1, focus, v2))
                deep += [forx, forx]

                def pred():
                    left = self.gen(ty, 'many', d - 1, focus, vars_)
                    pt = r.choice(['bool', 'bool', 'int', 'str']) if ty in ('int', 'str') else r.choice(['bool', 'int'])
                    return ('H', left, self.gen(pt, 'one', d - 1, ty, {} if r.random() < 0.4 else vars_))
                deep += [pred, pred]
                if ty in ('int', 'str'):
                    mt = 'mapi' if ty == 'int' else 'maps'
                    at = 'arri' if ty == 'int' else 'arrs'
                    deep.append(lambda: ('K', g(mt, 'many'), r.choice(KEYS)))
                    deep.append(lambda: ('W', g(mt, 'many')))
                    deep.append(lambda: ('W', g(at, 'many')))
                    deep.append(lambda: ('W', g(r.choice([mt, at]), 'many')))
        if d <= 0 or not deep or (leaf and r.random() < 0.15):
            if leaf:
                return self.pick(leaf)
        return self.pick(deep)


def used_vars(e) -> set:
    if e[0] == 'V':
        return {e[1]}
    out = set()
    for x in e[1:]:
        if isinstance(x, tuple):
            out |= used_vars(x)
    return out


def render(e) -> str:
    t = e[0]
    if t == 'I':
        return str(e[1])
    if t == 'T':
        return f'"{e[1]}"'
    if t == 'D':
        return '.'
    if t == 'P':
        return 'position()'
    if t == 'Z':
        return 'last()'
    if t == 'V':
        return f'$v{e[1]}'
    if t in 'ACG':
        return f'({render(e[1])} {dict(A="+", C="||", G=">")[t]} {render(e[2])})'
    if t == 'S':
        return f'({render(e[1])}, {render(e[2])})'
    if t == 'M':
        return f'map{{"{e[1]}": {render(e[2])}}}'
    if t == 'M2':
        return f'map{{"{e[1]}": {render(e[2])}, "{e[3]}": {render(e[4])}}}'
    if t == 'Q':
        return f'[{render(e[1])}]'
    if t == 'R':
        return f'array{{{render(e[1])}}}'
    if t == 'K':
        return f'({render(e[1])})?{e[2]}'
    if t == 'W':
        return f'({render(e[1])})?*'
    if t == 'B':
        return f'({render(e[1])} ! {render(e[2])})'
    if t == 'F':
        return f'(for $v{e[1]} in {render(e[2])} return {render(e[3])})'
    if t == 'H':
        return f'({render(e[1])})[{render(e[2])}]'
    raise ValueError(t)


def encode(e) -> str:
    t = e[0]
    if t == 'T':
        return f'T ~{e[1]}'
    if t in ('I', 'V'):
        return f'{t} {e[1]}'
    if t == 'M':
        return f'M {e[1]} {encode(e[2])}'
    if t == 'M2':
        return f'M2 {e[1]} {encode(e[2])} {e[3]} {encode(e[4])}'
    if t == 'K':
        return f'K {encode(e[1])} {e[2]}'
    if t == 'F':
        return f'F {e[1]} {encode(e[2])} {encode(e[3])}'
    return ' '.join([t] + [encode(x) for x in e[1:]])


def kinds(e, acc):
    acc[e[0]] = acc.get(e[0], 0) + 1
    for x in e[1:]:
        if isinstance(x, tuple):
            kinds(x, acc)
    return acc


def size(e) -> int:
    return 1 + sum(size(x) for x in e[1:] if isinstance(x, tuple))


def canon_atom(x) -> str:
    if isinstance(x, bool):
        return 'b1' if x else 'b0'
    if isinstance(x, int):
        return f'i{x}'
    if isinstance(x, str):
        return f's~{x}'
    return f'?{type(x).__name__}'


def canon_atoms(v) -> str:
    if not isinstance(v, list):
        v = [v]
    return '.'.join(canon_atom(x) for x in v)


def canon_item(x) -> str:
    from elementpath.xpath_tokens import XPathMap, XPathArray
    if isinstance(x, XPathMap):
        return 'm{' + ';'.join(f'{k}:{canon_atoms(v)}' for k, v in x.items()) + '}'
    if isinstance(x, XPathArray):
        return 'a[' + ';'.join(canon_atoms(m) for m in x.items()) + ']'
    return canon_atom(x)


def canon_error(e: BaseException) -> str:
    from elementpath.exceptions import ElementPathError
    if isinstance(e, ElementPathError):
        code = (getattr(e, 'code', None) or '').split(':')[-1]
        return {'XPST0008': 'ERR:unbound', 'XPTY0004': 'ERR:type', 'FORG0006': 'ERR:type', 'FOTY0013': 'ERR:type',
                'XPDY0002': 'ERR:nofocus', 'XQDY0137': 'ERR:dup'}.get(code, f'ERR:{code or "nocode"}')
    return f'ERR:OTHER:{type(e).__name__}'


def guarded(f) -> str:
    try:
        res = f()
        if not isinstance(res, list):
            res = [res]
        return ','.join(canon_item(x) for x in res) if res else '()'
    except Exception as e:  # noqa: every exception of the implementation is a result
        return canon_error(e)


def env_text(env) -> str:
    def val(v):
        return '.'.join(f'i{x}' if isinstance(x, int) else f's~{x}' for x in v) or 'e'
    return ','.join(f'{n}:{val(v)}' for n, v in sorted(env.items())) or '_'


def line_of(case) -> str:
    return 'FC STEPS=' + '|'.join(env_text(case['envs'][s]) for s in case['steps']) + ' E=' + encode(case['fast'])


def gen_case(rng):
    g = FGen(rng)
    top = rng.choice(['int', 'int', 'str', 'mapi', 'maps', 'arri', 'arrs', 'bool'])
    fast = g.gen(top, 'one' if top == 'bool' else 'many', rng.choice([2, 3, 3, 4]), None, dict(CALLER))
    envs = []
    for _ in range(rng.choice([2, 2, 3])):
        env = {0: [rng.randrange(0, 9)], 1: [rng.randrange(0, 9) for _ in range(rng.choice([0, 1, 2, 3]))],
               2: [rng.choice(WORDS)]}
        if rng.random() < 0.04:
            del env[rng.choice([0, 1, 2])]          # unbound caller variable → XPST0008
        envs.append(env)
    steps = [rng.randrange(len(envs)) for _ in range(rng.choice([2, 3, 4, 5]))]
    return {'fast': fast, 'envs': envs, 'steps': steps, 'top': top}


def run_impl(case):
    """ONE parsed token evaluated once per step; per step also a freshly parsed expression"""
    import xml.etree.ElementTree as ET
    from elementpath import XPathContext
    from elementpath.xpath31 import XPath31Parser
    src = render(case['fast'])
    try:
        token = XPath31Parser().parse(src)
    except Exception as e:  # noqa
        return {'parse': canon_error(e) + ':' + str(e)[-80:], 'steps': []}
    root = ET.XML('<r><i/></r>')
    out = []

    def variables(s):
        return {f'v{n}': (v[0] if len(v) == 1 else list(v)) for n, v in case['envs'][s].items()}
    for k, s in enumerate(case['steps']):
        rec = {'impl': guarded(lambda: token.evaluate(XPathContext(root, variables=variables(s))))}
        fresh = XPath31Parser().parse(src)
        rec['fresh'] = guarded(lambda: fresh.evaluate(XPathContext(ET.XML('<r><i/></r>'), variables=variables(s))))
        if case['top'] not in ('arri', 'arrs'):        # get_results flattens top-level arrays
            rec['results'] = guarded(lambda: token.get_results(XPathContext(root, variables=variables(s))))
        out.append(rec)
    return {'parse': 'ok', 'steps': out}


def parse_answer(ans: str):
    return [dict(f.split('=', 1) for f in rec.split(' ')) for rec in ans.split('|')]


SITE = 'XPathMap.evaluate / XPathArray.evaluate / simple map, for, predicate evaluation'


def compare(run: Run, driver, cases, stats=True):
    """returns the list of disagreements (not yet reported)"""
    lines = [line_of(c) for c in cases]
    answers = driver(run, lines)
    found = []
    st = run.stats
    for case, ans in zip(cases, answers):
        src = render(case['fast'])
        pub = {'focus_fragment': True, 'xpath': src, 'fast': case['fast'], 'top': case['top'],
               'envs': [{str(k): v for k, v in e.items()} for e in case['envs']], 'steps': case['steps']}
        if ans.startswith('bad-'):
            found.append(Disagreement(pub, 'driver:' + ans, what='protocol'))
            continue
        recs = parse_answer(ans)
        impl = run_impl(case)
        if stats:
            st.case({'xpath': src, 'steps': len(case['steps']), 'focus': 1}, nontrivial=size(case['fast']) > 3)
            for k, v in kinds(case['fast'], {}).items():
                st.count('focus-node:' + k, v)
            st.count('focus-top:' + case['top'])
        if impl['parse'] != 'ok':
            found.append(Disagreement(pub, impl['parse'], 'parsed', what='generated-expression-rejected',
                                      site='XPath31Parser.parse'))
            continue
        for k, (rec, m) in enumerate(zip(impl['steps'], recs)):
            if stats:
                st.count('focus-result:' + (rec['impl'] if rec['impl'].startswith('ERR') else 'ok'))
                if m['c'] != m['m']:
                    st.count('focus:seeded-constant-cache-would-differ-at-this-step')
            p = dict(pub, failing_step=k)
            if rec['impl'] != m['s']:
                found.append(Disagreement(p, rec['impl'], m['m'], spec=m['s'], what=f'focus-result-step{k}', site=SITE))
                break
            if rec['impl'] != m['m'] or m['st'] != '0':
                found.append(Disagreement(p, rec['impl'], m['m'] + ' slots=' + m['st'], what='focus-model-result'))
                break
            if rec['fresh'] != m['s']:
                found.append(Disagreement(p, 'fresh:' + rec['fresh'], m['m'], spec='fresh:' + m['s'],
                                          what='focus-fresh-evaluation', site=SITE))
                break
            if rec.get('results', m['s']) != m['s']:
                found.append(Disagreement(p, 'get_results:' + rec['results'], m['m'], spec='get_results:' + m['s'],
                                          what='focus-get_results', site=SITE))
                break
    return found


def closed(e, focus=False, bound=frozenset(CALLER)) -> bool:
    """inside the fragment as a WHOLE program: `.`, position(), last() only under `!` / a predicate (the real top-level
    context has an item, the model has none), variables bound by a `for` or by the caller"""
    t = e[0]
    if t in 'DPZ':
        return focus
    if t == 'V':
        return e[1] in bound
    if t in ('B', 'H'):
        return closed(e[1], focus, bound) and closed(e[2], True, bound)
    if t == 'F':
        return closed(e[2], focus, bound) and closed(e[3], focus, bound | {e[1]})
    return all(closed(x, focus, bound) for x in e[1:] if isinstance(x, tuple))


def sub_asts(e):
    yield e
    for x in e[1:]:
        if isinstance(x, tuple):
            yield from sub_asts(x)


def shrink(run: Run, driver, d: Disagreement) -> Disagreement:
    """smallest sub-expression (as a whole program) / shortest history that still disagrees with the specification"""
    case = d.case
    if not isinstance(case, dict) or 'fast' not in case or d.what == 'protocol' or d.tags:
        return d
    base = {'fast': case['fast'], 'top': case['top'], 'steps': case['steps'],
            'envs': [{int(k): v for k, v in e.items()} for e in case['envs']]}
    best, best_size = d, size(base['fast']) * 10 + len(base['steps'])
    cands = []
    for sub in sub_asts(base['fast']):
        if not closed(sub):
            continue
        for steps in ([base['steps'][0]], base['steps'][:2], base['steps']):
            c = dict(base, fast=sub, steps=list(steps), top='arri' if sub[0] in 'QR' else 'x')
            cands.append((size(sub) * 10 + len(steps), c))
    cands.sort(key=lambda t: t[0])
    cands = [c for s, c in cands if s < best_size][:60]
    try:
        sub_run = Run(run.prop if hasattr(run, 'prop') else 'C05', 'quick', 0)
        found = compare(sub_run, driver, cands, stats=False)
    except Exception:  # noqa
        return d
    for f in found:
        if f.kind == d.kind and f.what != 'protocol' and f.what != 'generated-expression-rejected':
            s = size(tuple_deep(f.case['fast'])) * 10 + len(f.case['steps'])
            if s < best_size:
                best, best_size = f, s
    return best


def tuple_deep(x):
    return tuple(tuple_deep(i) for i in x) if isinstance(x, (list, tuple)) else x


CORPUS = [
    # the seeded change of round 5: `$`-free constructor under `!`
    ('B', ('B', ('S', ('I', 1), ('I', 2)), ('M', 'n', ('D',))), ('K', ('D',), 'n')),
    ('W', ('B', ('S', ('I', 1), ('I', 2)), ('Q', ('A', ('D',), ('P',))))),
    ('W', ('B', ('S', ('T', 'a'), ('T', 'b')), ('R', ('S', ('D',), ('C', ('D',), ('Z',)))))),
    ('H', ('S', ('I', 1), ('S', ('I', 2), ('I', 3))), ('G', ('K', ('M', 'a', ('D',)), 'a'), ('I', 1))),
    ('F', 3, ('V', 1), ('W', ('M2', 'a', ('V', 3), 'b', ('A', ('V', 3), ('V', 0))))),
    ('B', ('V', 1), ('W', ('B', ('S', ('I', 5), ('I', 6)), ('Q', ('P',))))),
    ('B', ('S', ('I', 1), ('I', 2)), ('M2', 'a', ('D',), 'a', ('D',))),
    ('G', ('I', 1), ('B', ('M2', 'n', ('I', 1), 'n', ('I', 1)), ('I', 3))),      # fixed F05h: XQDY0137 inside a general comparison keeps its code
    # ill-typed programs (the generator is typed): XPTY0004 / FORG0006 at the second focus only or at every focus
    ('B', ('S', ('I', 1), ('T', 'a')), ('A', ('D',), ('I', 1))),
    ('K', ('B', ('V', 1), ('Q', ('D',))), 'a'),
    ('H', ('S', ('I', 1), ('I', 2)), ('S', ('D',), ('D',))),
    ('B', ('S', ('I', 1), ('I', 2)), ('C', ('S', ('D',), ('D',)), ('T', 'x'))),
]


def corpus_cases():
    envs = [{0: [1], 1: [4, 5], 2: ['a']}, {0: [2], 1: [7], 2: ['']}]
    return [{'fast': e, 'envs': envs, 'steps': [0, 1, 0], 'top': 'arri' if e[0] in 'QR' else 'x'} for e in CORPUS]


def focus_histories(run: Run, driver, n: int, stats=True):
    cases = corpus_cases() + [gen_case(run.rng) for _ in range(n)]
    found = compare(run, driver, cases, stats=stats)
    return [shrink(run, driver, d) for d in found[:5]] + found[5:]


def replay_case(run: Run, driver, c):
    case = {'fast': tuple_deep(c['fast']), 'top': c.get('top', 'x'), 'steps': c['steps'],
            'envs': [{int(k): v for k, v in e.items()} for e in c['envs']]}
    return compare(run, driver, [case], stats=False)

"""
C18 — sequence-type judgements: instance of, treat as, match_sequence_type, the subtype relation of
function tests, registered function signatures.

 translate : issubclass matrix of builtin_atomic_types / builtin_list_types, isinstance table of every
             value class, NumericProxy / str membership, XSD11_ONLY_TYPES, the registered function
             signatures of the 3.1 parser  -> lean/EPV/Gen/C18Tables.lean
 prove     : EPV.Props.C18 (restriction reflexive / transitive / sound for matching, match = XPath
             SequenceType matching, instance of = match, treat as, occurrence) and EPV.Props.C18Tables
             (`decide +kernel` over the generated tables: matrix transitive, = XSD hierarchy, ...)
 correspond: sequence types rendered from ASTs with random legal spacing x values (atomic of every
             class, nodes of every kind, function items, maps, arrays, sequences of length 0..3) through
             match_sequence_type / `instance of` / `treat as` / is_sequence_type_restriction, against
             the Lean model and the Lean spec; laws of the real restriction relation (reflexive,
             transitive, sound for the real matcher) by brute force; registered signatures called with
             generated arguments (exploration)
 search    : exhaustive small pool (all leaf types x occurrences x all single values and pairs)
"""
from __future__ import annotations

import inspect
import re
import sys
from decimal import Decimal
from pathlib import Path

sys.path.insert(0, str(Path(__file__).resolve().parent.parent))
from harness.common import (Run, Disagreement, cli, LEAN, DriverError)  # noqa: E402

PROP = 'C18'
DOC1 = '<n1 n2="v" n3="w" xmlns:p="urn:p"><n2>t</n2><!--c--><?n3 d?><n3/><n1 n1="x"/></n1>'
DOC2 = '<n2><n1/></n2>'
DOC3 = ('<n1 xmlns:p="urn:p" n2="v" p:n2="w"><n1 xmlns="urn:d" n2="u"/><p:n1 p:n3="z"/>'
        '<n2 xmlns="urn:d"/><n2/><p:n2 n1="y"/></n1>')
NS_IDS = {'': 0, 'urn:p': 1, 'urn:d': 2}
# statically known namespaces of the parser: (constructor arguments, (default element namespace, p, q) as namespace ids)
CFGS = [({}, (0, 0, 0)),
        ({'namespaces': {'': 'urn:d', 'p': 'urn:p'}}, (2, 1, 0)),
        ({'namespaces': {'p': 'urn:p'}}, (0, 1, 0)),
        ({'namespaces': {'': 'urn:p', 'q': 'urn:d'}}, (1, 0, 2)),
        ({'namespaces': {'q': 'urn:p'}, 'default_namespace': 'urn:d'}, (2, 0, 1))]


def resolve_name(cfg, is_attr, lex):
    """expanded name number of a lexical name (the harness uses it only to CHOOSE interesting names)"""
    pre, loc = divmod(lex, 100)
    ns = (0 if is_attr else cfg[0]) if pre == 0 else cfg[pre]
    return 100 * ns + loc


def lexical_for(cfg, is_attr, expanded):
    return [100 * pre + expanded % 100 for pre in (0, 1, 2)
            if (pre == 0 or cfg[pre]) and resolve_name(cfg, is_attr, 100 * pre + expanded % 100) == expanded]

XSD_CTORS = ['anyAtomicType', 'untypedAtomic', 'string', 'normalizedString', 'token', 'language', 'NMTOKEN',
             'Name', 'NCName', 'ID', 'IDREF', 'ENTITY', 'boolean', 'decimal', 'integer', 'nonPositiveInteger',
             'negativeInteger', 'long', 'int', 'short', 'byte', 'nonNegativeInteger', 'unsignedLong',
             'unsignedInt', 'unsignedShort', 'unsignedByte', 'positiveInteger', 'float', 'double', 'duration',
             'yearMonthDuration', 'dayTimeDuration', 'dateTime', 'dateTimeStamp', 'time', 'date', 'gYearMonth',
             'gYear', 'gMonthDay', 'gDay', 'gMonth', 'hexBinary', 'base64Binary', 'anyURI', 'QName', 'NOTATION',
             'error']
PY_BUILTIN = {'bool': 'boolean', 'int': 'integer', 'float': 'double', 'Decimal': 'decimal', 'str': 'string'}


# =============================================================================== live tables
class Live:
    """everything read from the live elementpath (import only after use_repo())"""

    def __init__(self):
        import elementpath.datatypes as dt
        from elementpath.datatypes import builtin_atomic_types as B, builtin_list_types as L, AnyAtomicType
        from elementpath.sequence_types import XSD11_ONLY_TYPES
        self.dt = dt
        self.atom_names = [k for k in B if not k.startswith('{')]
        self.atom_cls = [B[k] for k in self.atom_names]
        self.list_names = [k for k in L if not k.startswith('{')]
        self.list_cls = [L[k] for k in self.list_names]
        classes = [bool, int, float, Decimal, str]
        for _, c in vars(dt).items():
            if inspect.isclass(c) and AnyAtomicType in c.__mro__ and c not in classes \
                    and not getattr(c, '__abstractmethods__', None) \
                    and not c.__name__.endswith(('Proxy', 'Proxy10')) and not c.__name__.startswith('Abstract'):
                classes.append(c)
        self.val_cls = classes
        self.val_names = [c.__name__ for c in classes]
        self.xsd11_only = [i for i, k in enumerate(self.atom_names) if k in XSD11_ONLY_TYPES]

    def xsd_of_class(self, c) -> str:
        if c.__name__ in PY_BUILTIN and c.__module__ in ('builtins', 'decimal'):
            return PY_BUILTIN[c.__name__]
        for k in c.__mro__:
            nm = k.__dict__.get('name') if hasattr(k, '__dict__') else None
            if isinstance(nm, str) and nm:
                return nm
        return 'anyAtomicType'

    def sub_rows(self):
        return [[j for j, b in enumerate(self.atom_cls) if issubclass(a, b)] for a in self.atom_cls]

    def list_rows(self):
        return [[j for j, b in enumerate(self.list_cls) if issubclass(a, b)] for a in self.list_cls]

    def inst_rows(self):
        return [[j for j, b in enumerate(self.atom_cls) if issubclass(c, b)] for c in self.val_cls]


_live = None


def live() -> Live:
    global _live
    if _live is None:
        _live = Live()
    return _live


# =============================================================================== AST helpers
# ty   : ('E',) | ('L', leaf, occ) | ('F', [ty..], ty) | ('M', k, ty, occ) | ('A', ty, occ)
# leaf : ('item',) ('node',) ('a', i) ('num',) ('l', i) ('anyType',) ('anySimple',) ('K', kind, nt) ('D', nt)
#        ('fany',) ('many',) ('aany',)          kind in d e a t c p n      nt in '-' '*' int     occ in 1 ? * +
KIND_TEXT = {'d': 'document-node', 'e': 'element', 'a': 'attribute', 't': 'text', 'c': 'comment',
             'p': 'processing-instruction', 'n': 'namespace-node'}
KIND_OF_NODE = {'document': 'd', 'element': 'e', 'attribute': 'a', 'text': 't', 'comment': 'c',
                'processing-instruction': 'p', 'namespace': 'n'}


class Spacer:
    """random legal white space: the code normalises with `\\s?([()?*+,])\\s?` after collapsing runs"""

    def __init__(self, rng=None, level=0.0):
        self.rng, self.level = rng, level

    def __call__(self) -> str:
        if self.rng is None or self.rng.random() >= self.level:
            return ''
        return self.rng.choice([' ', ' ', '  ', '\t', '\n', ' \n '])


QNAMES: list = []      # prefixed element names met in registered signatures: name number 1000 + position


def nt_text(nt) -> str:
    if nt == '-' or nt == '*':
        return '' if nt == '-' else '*'
    if nt >= 1000:
        return QNAMES[nt - 1000]
    return ('', 'p:', 'q:')[nt // 100] + f'n{nt % 100}'


def render_leaf(leaf, sp) -> str:
    L = live()
    k = leaf[0]
    if k == 'item':
        return f'item{sp()}({sp()})'
    if k == 'node':
        return f'node{sp()}({sp()})'
    if k == 'a':
        return L.atom_names[leaf[1]]
    if k == 'num':
        return 'xs:numeric'
    if k == 'l':
        return L.list_names[leaf[1]]
    if k == 'anyType':
        return 'xs:anyType'
    if k == 'anySimple':
        return 'xs:anySimpleType'
    if k == 'K':
        return f'{KIND_TEXT[leaf[1]]}{sp()}({sp()}{nt_text(leaf[2])}{sp()})'
    if k == 'KT':
        ta = leaf[3]
        tat = {'untyped': 'xs:untyped', 'anyType': 'xs:anyType', 'anySimple': 'xs:anySimpleType'}.get(ta) if isinstance(ta, str) \
            else L.atom_names[ta[1]]
        return f'{KIND_TEXT[leaf[1]]}{sp()}({sp()}{nt_text(leaf[2])}{sp()},{sp() if sp.rng else " "}{tat}{"?" if leaf[4] else ""}{sp()})'
    if k == 'D':
        return f'document-node{sp()}({sp()}element{sp()}({sp()}{nt_text(leaf[1])}{sp()}){sp()})'
    if k == 'fany':
        return f'function{sp()}({sp()}*{sp()})'
    if k == 'many':
        return f'map{sp()}({sp()}*{sp()})'
    if k == 'aany':
        return f'array{sp()}({sp()}*{sp()})'
    raise ValueError(leaf)


def occ_text(o, sp) -> str:
    return '' if o == '1' else sp() + o


def render(ty, sp=Spacer()) -> str:
    k = ty[0]
    if k == 'E':
        return f'empty-sequence{sp()}({sp()})'
    if k == 'L':
        return render_leaf(ty[1], sp) + occ_text(ty[2], sp)
    if k == 'F':
        args = (sp() + ',' + sp() + ('' if sp.rng else ' ')).join(render(a, sp) for a in ty[1])
        return f'function{sp()}({sp()}{args}{sp()}) as {sp()}{render(ty[2], sp)}'
    if k == 'M':
        comma = sp() + ',' + (sp() if sp.rng else ' ')
        return f'map{sp()}({sp()}{live().atom_names[ty[1]]}{comma}{render(ty[2], sp)}{sp()})' + occ_text(ty[3], sp)
    if k == 'A':
        return f'array{sp()}({sp()}{render(ty[1], sp)}{sp()})' + occ_text(ty[2], sp)
    raise ValueError(ty)


def render_paren(ty, sp, rng, p=0.5) -> str:
    """a spelling of the type with item types written in parentheses (XPath 3.0 ParenthesizedItemType ::= '(' ItemType ')')
    at random places: the outermost item type always, nested ones with probability p.  The occurrence indicator stays
    outside the parentheses; `empty-sequence()` is not an item type and is never parenthesised."""
    def par(text, o='1'):
        return f'({sp()}{text}{sp()})' + occ_text(o, sp)

    def go(t, force=False):
        k = t[0]
        wrap = force or rng.random() < p
        if k == 'E':
            return render(t, sp)
        if k == 'L':
            return par(render_leaf(t[1], sp), t[2]) if wrap else render(t, sp)
        if k == 'F':
            args = (sp() + ',' + sp()).join(go(a) for a in t[1])
            body = f'function{sp()}({sp()}{args}{sp()}) as {sp()}{go(t[2])}'
            return par(body) if wrap else body
        if k == 'M':
            body = f'map{sp()}({sp()}{live().atom_names[t[1]]}{sp()},{sp()}{go(t[2])}{sp()})'
            return par(body, t[3]) if wrap else body + occ_text(t[3], sp)
        body = f'array{sp()}({sp()}{go(t[1])}{sp()})'
        return par(body, t[2]) if wrap else body + occ_text(t[2], sp)
    return go(ty, True)


def tok_leaf(leaf) -> str:
    k = leaf[0]
    if k in ('item', 'node', 'num', 'anyType', 'anySimple', 'fany', 'many', 'aany'):
        return k
    if k in ('a', 'l'):
        return f'{k} {leaf[1]}'
    if k == 'K':
        return f'K {leaf[1]} {leaf[2]}'
    if k == 'KT':
        ta = leaf[3] if isinstance(leaf[3], str) else f't {leaf[3][1]}'
        return f'KT {leaf[1]} {leaf[2]} {ta} {1 if leaf[4] else 0}'
    if k == 'D':
        return f'D {leaf[1]}'
    raise ValueError(leaf)


def tok(ty) -> str:
    k = ty[0]
    if k == 'E':
        return 'E'
    if k == 'L':
        return f'L {tok_leaf(ty[1])} {ty[2]}'
    if k == 'F':
        return f'F {len(ty[1])} ' + ''.join(tok(a) + ' ' for a in ty[1]) + tok(ty[2])
    if k == 'M':
        return f'M {ty[1]} {tok(ty[2])} {ty[3]}'
    if k == 'A':
        return f'A {tok(ty[1])} {ty[2]}'
    raise ValueError(ty)


def simple(ty) -> bool:
    if ty[0] == 'L':
        return ty[1][0] != 'KT'
    return ty[0] == 'E' or (ty[0] == 'A' and simple(ty[1]))


def has_type_arg(ty) -> bool:
    k = ty[0]
    if k == 'L':
        return ty[1][0] == 'KT'
    if k == 'F':
        return any(has_type_arg(a) for a in ty[1]) or has_type_arg(ty[2])
    if k == 'M':
        return has_type_arg(ty[2])
    if k == 'A':
        return has_type_arg(ty[1])
    return False


def flat(ty) -> bool:
    k = ty[0]
    if k == 'F':
        return all(simple(a) for a in ty[1]) and flat(ty[2])
    if k == 'M':
        return flat(ty[2])
    if k == 'A':
        return flat(ty[1])
    return True


def has_typed_func(ty) -> bool:
    k = ty[0]
    return k == 'F' or (k == 'M' and has_typed_func(ty[2])) or (k == 'A' and has_typed_func(ty[1]))


def mentions(ty, atoms: set) -> bool:
    k = ty[0]
    if k == 'L':
        return ty[1][0] == 'a' and ty[1][1] in atoms
    if k == 'F':
        return any(mentions(a, atoms) for a in ty[1]) or mentions(ty[2], atoms)
    if k == 'M':
        return ty[1] in atoms or mentions(ty[2], atoms)
    if k == 'A':
        return mentions(ty[1], atoms)
    return False


class Unsupported(Exception):
    pass


def parse_st(text: str):
    """normalised sequence-type text -> AST (raises Unsupported outside the modelled fragment)"""
    from elementpath.sequence_types import normalize_sequence_type
    s = normalize_sequence_type(text)
    ty, rest = _p_st(s)
    if rest:
        raise Unsupported(text)
    return ty


def _p_occ(s):
    if s[:1] in ('?', '*', '+'):
        return s[0], s[1:]
    return '1', s


def _p_nt(s, close=')'):
    m = re.match(r'(\*|n(\d+))?\)', s)
    if not m:
        m = re.match(r'([A-Za-z][\w.-]*:[A-Za-z][\w.-]*)\)', s)
        if not m:
            raise Unsupported(s)
        if m.group(1) not in QNAMES:
            QNAMES.append(m.group(1))
        return 1000 + QNAMES.index(m.group(1)), s[m.end():]
    nt = '-' if m.group(1) is None else ('*' if m.group(1) == '*' else int(m.group(2)))
    return nt, s[m.end():]


def _p_st(s):
    L = live()
    if s.startswith('empty-sequence()'):
        return ('E',), s[16:]
    for kw, leaf in (('item()', ('item',)), ('node()', ('node',)), ('function(*)', ('fany',)), ('map(*)', ('many',)),
                     ('array(*)', ('aany',)), ('text()', ('K', 't', '-')), ('comment()', ('K', 'c', '-')),
                     ('namespace-node()', ('K', 'n', '-')), ('document-node()', ('K', 'd', '-'))):
        if s.startswith(kw):
            o, r = _p_occ(s[len(kw):])
            return ('L', leaf, o), r
    if s.startswith('document-node(element('):
        nt, r = _p_nt(s[22:])
        if not r.startswith(')'):
            raise Unsupported(s)
        o, r = _p_occ(r[1:])
        return ('L', ('D', nt), o), r
    for kw, kind in (('element(', 'e'), ('attribute(', 'a'), ('processing-instruction(', 'p')):
        if s.startswith(kw):
            nt, r = _p_nt(s[len(kw):])
            o, r = _p_occ(r)
            return ('L', ('K', kind, nt), o), r
    if s.startswith('function('):
        r = s[9:]
        args = []
        if r.startswith(')'):
            r = r[1:]
        else:
            while True:
                a, r = _p_st(r)
                args.append(a)
                if r.startswith(', '):
                    r = r[2:]
                    continue
                if r.startswith(')'):
                    r = r[1:]
                    break
                raise Unsupported(s)
        if not r.startswith(' as '):
            raise Unsupported(s)
        ret, r = _p_st(r[4:])
        return ('F', args, ret), r
    if s.startswith('map('):
        m = re.match(r'map\((xs:\w+), ', s)
        if not m or m.group(1) not in L.atom_names:
            raise Unsupported(s)
        v, r = _p_st(s[m.end():])
        if not r.startswith(')'):
            raise Unsupported(s)
        o, r = _p_occ(r[1:])
        return ('M', L.atom_names.index(m.group(1)), v, o), r
    if s.startswith('array('):
        v, r = _p_st(s[6:])
        if not r.startswith(')'):
            raise Unsupported(s)
        o, r = _p_occ(r[1:])
        return ('A', v, o), r
    m = re.match(r'xs:\w+', s)
    if m:
        name = m.group(0)
        o, r = _p_occ(s[m.end():])
        if name in L.atom_names:
            return ('L', ('a', L.atom_names.index(name)), o), r
        if name in L.list_names:
            return ('L', ('l', L.list_names.index(name)), o), r
        if name == 'xs:numeric':
            return ('L', ('num',), o), r
        if name == 'xs:anyType':
            return ('L', ('anyType',), o), r
        if name == 'xs:anySimpleType':
            return ('L', ('anySimple',), o), r
    raise Unsupported(s)


# =============================================================================== the world of values
class World:
    def __init__(self, rng):
        import lxml.etree as ET
        from elementpath import XPathContext
        from elementpath.xpath31 import XPath31Parser
        self.rng = rng
        self.L = live()
        self.parsers = {0: XPath31Parser(), 1: XPath31Parser(xsd_version='1.1')}
        self._cfg_parsers = {}
        self.XPath31Parser = XPath31Parser
        self.P = self.parsers[0]
        self.XPathContext = XPathContext
        self.root1 = XPathContext(ET.ElementTree(ET.XML(DOC1))).root
        import xml.etree.ElementTree as PyET
        # second tree: xml.etree (not lxml), element root (no document node)
        self.root2 = XPathContext(PyET.XML(DOC2)).root
        self.nodes = []          # (python node, token string)
        self.root3 = XPathContext(ET.ElementTree(ET.XML(DOC3))).root
        for root, is_root in ((self.root1, True), (self.root2, False), (self.root3, False)):
            ctx = XPathContext(root)
            found = self.P.parse('(/ , //node(), //@*, //namespace::*)').evaluate(ctx)
            for n in found:
                self.nodes.append((n, self.node_tok(n, is_root and n is root)))
        self.atoms = self.make_atoms()   # (python value, 'a <cls>')
        self.funcs = []                  # (python function item, token)
        self.func_src = []               # (source expression, signature ASTs) of the same items
        self.func_skipped = 0
        self.ctx_items = [n for n, t in self.nodes if t.split(' ')[1] == 'e'][:3] + [self.root1]

    def parser(self, x, c=0):
        """the 3.1 parser for XSD version flag `x` and namespace configuration `c`"""
        if c == 0:
            return self.parsers[x]
        if (x, c) not in self._cfg_parsers:
            kw = dict(CFGS[c][0])
            if x:
                kw['xsd_version'] = '1.1'
            self._cfg_parsers[x, c] = self.XPath31Parser(**kw)
        return self._cfg_parsers[x, c]

    # ---- nodes
    @staticmethod
    def nm(name) -> int:
        if not name:
            return 0
        m = re.fullmatch(r'(?:\{([^}]*)\})?n(\d+)', name)
        return (100 * NS_IDS.get(m.group(1) or '', 9) + int(m.group(2))) if m else 0

    def node_tok(self, n, is_root) -> str:
        kind = KIND_OF_NODE[n.node_kind]
        kids = []
        if kind == 'd':
            kids = [self.nm(c.name) for c in n if c.node_kind == 'element']
        elif kind == 'e':
            kids = [self.nm(a.name) for a in n.attributes]
        name = self.nm(getattr(n, 'name', None)) if kind in ('e', 'a', 'p') else 0
        return f'n {kind} {name} {len(kids)} ' + ''.join(f'{k} ' for k in kids) + ('1' if is_root else '0')

    # ---- atoms
    def make_atoms(self):
        dt = self.L.dt
        samples = {
            'bool': [True, False], 'int': [5, 0, -3], 'float': [1.5, float('nan')], 'Decimal': [Decimal('1.5')],
            'str': ['abc', ''],
            'Float': lambda: dt.Float(1.5), 'Float10': None, 'Integer': lambda: dt.Integer(5), 'Int': lambda: dt.Int(5),
            'Long': lambda: dt.Long(5), 'NegativeInteger': lambda: dt.NegativeInteger(-5),
            'PositiveInteger': lambda: dt.PositiveInteger(5), 'NonNegativeInteger': lambda: dt.NonNegativeInteger(0),
            'NonPositiveInteger': lambda: dt.NonPositiveInteger(0), 'Short': lambda: dt.Short(5), 'Byte': lambda: dt.Byte(5),
            'UnsignedByte': lambda: dt.UnsignedByte(5), 'UnsignedInt': lambda: dt.UnsignedInt(5),
            'UnsignedLong': lambda: dt.UnsignedLong(5), 'UnsignedShort': lambda: dt.UnsignedShort(5),
            'UntypedAtomic': lambda: dt.UntypedAtomic('5'), 'QName': lambda: dt.QName('urn:p', 'p:a'),
            'NormalizedString': lambda: dt.NormalizedString('a b'), 'XsdToken': lambda: dt.XsdToken('a b'),
            'Name': lambda: dt.Name('a:b'), 'NCName': lambda: dt.NCName('a'), 'NMToken': lambda: dt.NMToken('a'),
            'Id': lambda: dt.Id('a'), 'Idref': lambda: dt.Idref('a'), 'Language': lambda: dt.Language('en'),
            'Entity': lambda: dt.Entity('a'), 'AnyURI': lambda: dt.AnyURI('http://a'),
            'Base64Binary': lambda: dt.Base64Binary(b'YQ=='), 'HexBinary': lambda: dt.HexBinary(b'AB'),
            'DateTime10': lambda: dt.DateTime10.fromstring('2000-01-01T00:00:00'),
            'DateTime': lambda: dt.DateTime.fromstring('2000-01-01T00:00:00'),
            'DateTimeStamp': lambda: dt.DateTimeStamp.fromstring('2000-01-01T00:00:00Z'),
            'Date10': lambda: dt.Date10.fromstring('2000-01-01'), 'Date': lambda: dt.Date.fromstring('2000-01-01'),
            'GregorianDay': lambda: dt.GregorianDay.fromstring('---01'),
            'GregorianMonth': lambda: dt.GregorianMonth.fromstring('--01'),
            'GregorianYear': lambda: dt.GregorianYear.fromstring('2000'),
            'GregorianYear10': lambda: dt.GregorianYear10.fromstring('2000'),
            'GregorianMonthDay': lambda: dt.GregorianMonthDay.fromstring('--01-01'),
            'GregorianYearMonth': lambda: dt.GregorianYearMonth.fromstring('2000-01'),
            'GregorianYearMonth10': lambda: dt.GregorianYearMonth10.fromstring('2000-01'),
            'Time': lambda: dt.Time.fromstring('00:00:00'), 'Duration': lambda: dt.Duration.fromstring('P1Y1D'),
            'DayTimeDuration': lambda: dt.DayTimeDuration.fromstring('P1D'),
            'YearMonthDuration': lambda: dt.YearMonthDuration.fromstring('P1Y'),
        }
        out = []
        self.no_sample = []
        for i, (c, name) in enumerate(zip(self.L.val_cls, self.L.val_names)):
            s = samples.get(name)
            vals = []
            try:
                if isinstance(s, list):
                    vals = s
                elif callable(s):
                    vals = [s()]
            except Exception:
                vals = []
            vals = [v for v in vals if type(v) is c]      # the class in the table is the class of the sample
            if not vals:
                self.no_sample.append(name)
            for v in vals:
                out.append((v, f'a {i}'))
        return out

    # ---- function items
    def add_inline(self, args, ret) -> bool:
        """inline function with declared signature (the body is never evaluated)"""
        src = 'function(' + ', '.join(f'$p{i} as {render(a)}' for i, a in enumerate(args)) + \
              f') as {render(ret)} {{ () }}'
        return self.add_func_expr(src)

    def add_func_expr(self, src) -> bool:
        try:
            f = self.P.parse(src).evaluate(self.XPathContext(self.root1))
            if isinstance(f, list):
                f = f[0]
            sts = list(f.sequence_types[:f.arity]) + [f.sequence_types[-1]]
            asts = [parse_st(x) for x in sts]
        except Exception:
            self.func_skipped += 1
            return False
        self.funcs.append((f, f'f {len(asts) - 1} ' + ' '.join(tok(a) for a in asts), asts))
        self.func_src.append((src, asts))
        return True

    # ---- random values
    def gen_item(self, depth=0):
        r = self.rng.random()
        if r < 0.40 or (depth >= 2 and r < 0.7):
            return self.rng.choice(self.atoms)
        if r < 0.62:
            return self.rng.choice(self.nodes)
        if r < 0.78 and self.funcs:
            f = self.rng.choice(self.funcs)
            return f[0], f[1]
        if depth >= 2:
            return self.rng.choice(self.atoms)
        if r < 0.89:
            return self.gen_map(depth)
        return self.gen_array(depth)

    def gen_seq(self, depth=0, maxlen=3):
        n = self.rng.choice([0, 1, 1, 1, 2, 2, 3][:maxlen + 4])
        items = [self.gen_item(depth) for _ in range(n)]
        # homogeneous sequences are what makes `*` / `+` judgements true
        if n >= 2 and self.rng.random() < 0.5:
            items = [items[0]] + [self.similar(items[0], depth) for _ in range(n - 1)]
        return [x[0] for x in items], f'{n} ' + ' '.join(x[1] for x in items) if n else '0'

    def similar(self, item, depth):
        kind = item[1].split(' ')[0]
        for _ in range(8):
            y = self.gen_item(depth)
            if y[1].split(' ')[0] == kind:
                return y
        return item

    def key_atoms(self):
        return [a for a in self.atoms if not isinstance(a[0], float) or a[0] == a[0]]

    def gen_map(self, depth):
        n = self.rng.choice([0, 1, 1, 2])
        keys, seen = [], set()
        homog = self.rng.random() < 0.6
        cand = self.key_atoms()
        first = None
        for _ in range(n):
            k = self.rng.choice(cand)
            if homog and first is not None:
                same = [a for a in cand if a[1] == first[1]]
                k = self.rng.choice(same)
            first = first or k
            try:
                h = (type(k[0]).__name__, str(k[0]))
            except Exception:
                continue
            if h in seen:
                continue
            seen.add(h)
            keys.append(k)
        entries = [(k, self.gen_seq(depth + 1, 2)) for k in keys]
        variables = {}
        parts = []
        for i, (k, (v, _)) in enumerate(entries):
            variables[f'k{i}'] = k[0]
            variables[f'v{i}'] = v if len(v) != 1 else v[0]
            parts.append(f'$k{i}: $v{i}')
        try:
            m = self.P.parse('map{' + ', '.join(parts) + '}').evaluate(self.XPathContext(self.root1, variables=variables))
            items = list(m.items())
            if len(items) != len(entries):
                raise ValueError('key collapsed')
        except Exception:
            return self.rng.choice(self.atoms)
        # the key classes of the token are those of the keys the map REALLY holds (the constructor may have converted a
        # key: see `map_constructor_key_types`), in the order of the entries
        L = live()
        try:
            kcls = [L.val_cls.index(type(rk)) for rk, _ in items]
        except ValueError:
            return self.rng.choice(self.atoms)
        t = f'm {len(entries)} ' + ' '.join(f'{kc} {vt}' for kc, (_, (_, vt)) in zip(kcls, entries)) if entries else 'm 0'
        return m, t

    def gen_array(self, depth):
        n = self.rng.choice([0, 1, 2, 2])
        members = [self.gen_seq(depth + 1, 2) for _ in range(n)]
        if n == 2 and self.rng.random() < 0.5:
            members[1] = members[0]
        variables = {f'm{i}': (v if len(v) != 1 else v[0]) for i, (v, _) in enumerate(members)}
        try:
            a = self.P.parse('[' + ', '.join(f'$m{i}' for i in range(n)) + ']').evaluate(
                self.XPathContext(self.root1, variables=variables))
            if len(list(a.items())) != n:
                raise ValueError
        except Exception:
            return self.rng.choice(self.atoms)
        return a, (f'r {n} ' + ' '.join(t for _, t in members) if n else 'r 0')


# =============================================================================== type generator
class TyGen:
    def __init__(self, rng):
        self.rng = rng
        self.L = live()
        names = self.L.atom_names
        self.common_atoms = [names.index(x) for x in
                             ('xs:anyAtomicType', 'xs:integer', 'xs:int', 'xs:decimal', 'xs:double', 'xs:float',
                              'xs:string', 'xs:boolean', 'xs:untypedAtomic', 'xs:anyURI', 'xs:token', 'xs:NCName',
                              'xs:dateTime', 'xs:duration', 'xs:long', 'xs:short', 'xs:nonNegativeInteger') if x in names]

    def occ(self):
        return self.rng.choice(['1', '1', '1', '?', '*', '+'])

    def atom(self):
        if self.rng.random() < 0.7:
            return self.rng.choice(self.common_atoms)
        return self.rng.randrange(len(self.L.atom_names))

    def nt(self, star=True):
        r = self.rng.random()
        if r < 0.35:
            return '-'
        if r < 0.55 and star:
            return '*'
        return self.rng.choice([1, 1, 2, 3, 4])

    def leaf(self):
        r = self.rng.random()
        if r < 0.08:
            return ('item',)
        if r < 0.14:
            return ('node',)
        if r < 0.50:
            return ('a', self.atom())
        if r < 0.54:
            return ('num',)
        if r < 0.56:
            return ('l', self.rng.randrange(len(self.L.list_names)))
        if r < 0.58:
            return self.rng.choice([('anyType',), ('anySimple',)])
        if r < 0.80:
            kind = self.rng.choice('eeaatcpnd')
            if kind in 'ea':
                return ('K', kind, self.nt())
            if kind == 'p':
                return ('K', 'p', self.rng.choice(['-', 3, 1]))
            return ('K', kind, '-')
        if r < 0.85:
            return ('D', self.nt())
        if r < 0.91:
            names = self.L.atom_names
            ta = self.rng.choice(['untyped', 'untyped', 'anyType', 'anySimple',
                                  ('a', names.index('xs:untypedAtomic')), ('a', names.index('xs:anyAtomicType')),
                                  ('a', names.index('xs:string')), ('a', self.atom())])
            kind = self.rng.choice('ea')
            # `T?` exists for element tests only (ElementTest ::= element(N, TypeName '?'?))
            return ('KT', kind, self.rng.choice(['*', 1, 2, 3]), ta, kind == 'e' and self.rng.random() < 0.2)
        return self.rng.choice([('fany',), ('many',), ('aany',)])

    def simple_ty(self, depth=0):
        r = self.rng.random()
        if r < 0.05:
            return ('E',)
        if r < 0.9 or depth >= 2:
            return ('L', self.leaf(), self.occ())
        return ('A', self.simple_ty(depth + 1), self.occ())

    def ty(self, depth=0, want_flat=True):
        r = self.rng.random()
        if depth >= 2 or r < 0.55:
            return self.simple_ty(depth) if r >= 0.04 else ('E',)
        if r < 0.80:
            n = self.rng.choice([0, 1, 1, 1, 2, 2, 3])
            if want_flat:
                args = [self.simple_ty(depth + 1) for _ in range(n)]
            else:
                args = [self.ty(depth + 1, False) for _ in range(n)]
            return ('F', args, self.ty(depth + 1, want_flat))
        if r < 0.90:
            return ('M', self.atom(), self.ty(depth + 1, want_flat), self.occ())
        return ('A', self.ty(depth + 1, want_flat), self.occ())

    def variant(self, ty):
        """a type related to `ty` (same shape, perturbed atomic names / occurrences): makes restriction
        pairs that are not trivially false"""
        k = ty[0]
        r = self.rng.random()
        if k == 'E':
            return ty if r < 0.7 else self.simple_ty()
        if k == 'L':
            leaf, o = ty[1], ty[2]
            if r < 0.3:
                o = self.occ()
            if leaf[0] == 'a' and self.rng.random() < 0.6:
                rows = self.L.sub_rows()
                a = leaf[1]
                ups = rows[a]
                downs = [i for i, row in enumerate(rows) if a in row]
                leaf = ('a', self.rng.choice(ups + downs))
            elif leaf[0] == 'l' and self.rng.random() < 0.7:
                leaf = self.rng.choice([('l', self.rng.randrange(len(self.L.list_names))), ('anyType',), ('anySimple',)])
            elif self.rng.random() < 0.15:
                leaf = self.rng.choice([('item',), ('node',), ('fany',), self.leaf()])
            return ('L', leaf, o)
        if k == 'F':
            if r < 0.08:
                return ('L', ('fany',), '1')
            args = [self.variant(a) if self.rng.random() < 0.6 else a for a in ty[1]]
            if r > 0.92 and args:
                args = args[:-1]
            return ('F', args, self.variant(ty[2]) if self.rng.random() < 0.6 else ty[2])
        if k == 'M':
            return ('M', ty[1], self.variant(ty[2]) if r < 0.4 else ty[2], ty[3] if r < 0.8 else self.occ())
        return ('A', self.variant(ty[1]) if r < 0.4 else ty[1], ty[2] if r < 0.8 else self.occ())


# =============================================================================== implementation runner
def err_text(e) -> str:
    from elementpath.exceptions import ElementPathError
    if isinstance(e, ElementPathError):
        code = getattr(e, 'code', None) or ''
        code = code.split(':')[-1]
        return 'E:' + (code or 'NOCODE')
    return 'E:OTHER:' + type(e).__name__


def impl_match(W: World, pyval, st_text, xsd11, no_parser=False, c=0) -> str:
    from elementpath.sequence_types import match_sequence_type
    v = pyval[0] if len(pyval) == 1 else pyval
    try:
        return 'T' if match_sequence_type(v, st_text, None if no_parser else W.parser(xsd11, c)) else 'F'
    except Exception as e:
        return err_text(e)


def impl_instance(W: World, pyval, st_text, xsd11, c=0) -> str:
    v = pyval[0] if len(pyval) == 1 else list(pyval)
    try:
        tk = W.parser(xsd11, c).parse(f'$v instance of {st_text}')
        r = tk.evaluate(W.XPathContext(W.root1, variables={'v': v}))
        # the other public evaluation path of the same token must give the same answer
        r2 = list(tk.select(W.XPathContext(W.root1, variables={'v': v})))
        if r2 != [r]:
            return f'SELECT!=EVALUATE:{r2!r}'
        return 'T' if r is True else ('F' if r is False else f'?{r!r}')
    except Exception as e:
        return err_text(e)


def impl_treat(W: World, pyval, st_text, xsd11, c=0) -> str:
    v = pyval[0] if len(pyval) == 1 else list(pyval)
    try:
        tk = W.parser(xsd11, c).parse(f'$v treat as {st_text}')
        r = tk.evaluate(W.XPathContext(W.root1, variables={'v': v}))
        r = list(r) if isinstance(r, list) else [r]
        same = len(r) == len(pyval) and all(a is b or (type(a) is type(b) and not hasattr(a, 'node_kind') and _eq(a, b))
                                            for a, b in zip(r, pyval))
        return 'T' if same else 'DIFF'
    except Exception as e:
        t = err_text(e)
        return 'F' if t == 'E:XPDY0050' else t


def _eq(a, b) -> bool:
    try:
        return bool(a == b) or (a != a and b != b)
    except Exception:
        return False


def impl_param(W: World, pyval, st_text, xsd11, c=0) -> str:
    """the value passed to an inline function whose parameter is declared with the type (function conversion rules):
    T accepted, F = XPTY0004"""
    v = pyval[0] if len(pyval) == 1 else list(pyval)
    return impl_as_argument(W, v, st_text, xsd11, c)


def impl_as_argument(W: World, item, st_text, xsd11, c=0) -> str:
    """the item passed to an inline function whose parameter is declared with the type: T accepted, F = XPTY0004"""
    try:
        tk = W.parser(xsd11, c).parse(f'function($g as {st_text}) as xs:boolean {{ true() }}($v)')
        r = tk.evaluate(W.XPathContext(W.root1, variables={'v': item}))
        return 'T' if r is True or r == [True] else f'?{r!r}'
    except Exception as e:
        t = err_text(e)
        # FOTY0013 (a function item cannot be atomized) is the type error of this path too: the model has one code
        return 'F' if t in ('E:XPTY0004', 'E:FOTY0013') else t


def impl_restr(t1: str, t2: str) -> str:
    from elementpath.sequence_types import is_sequence_type_restriction
    try:
        return '1' if is_sequence_type_restriction(t1, t2) else '0'
    except Exception as e:
        return err_text(e)


def fields(ans: str) -> dict:
    return dict(kv.split('=', 1) for kv in ans.split(' ') if '=' in kv)


# =============================================================================== correspondence: judgements
def judge_cases(run: Run, W: World, cases, label='judgement'):
    """cases: list of (ty, (pyval, valtok), xsd11[, namespace configuration])"""
    st = run.stats
    cases = [cs if len(cs) == 4 else cs + (0,) for cs in cases]
    lines = [f'J|{x}|{tok(ty)}|{vt}' if c == 0 else f'J|{x}|{" ".join(map(str, CFGS[c][1]))}|{tok(ty)}|{vt}'
             for ty, (_, vt), x, c in cases]
    answers = run.driver('C18', lines)
    for (ty, (pv, vt), x, c), line, ans in zip(cases, lines, answers):
        if ans.startswith('bad-'):
            run.disagree(Disagreement(line, 'driver:' + ans, what='protocol'))
            continue
        a = fields(ans)
        spacing = Spacer(run.rng, 0.35)
        text = render(ty, spacing)
        canon = render(ty)
        case = {'type': canon, 'text': text, 'value': vt, 'xsd11': x}
        if c:
            case['parser'] = CFGS[c][0]
            st.count(f'namespaces:cfg{c}')
        spec = None if a['spec'] == '-' else a['spec']
        if a['param'] == 'A':                  # accepted after the atomization of arrays: accepted
            st.count('param:model-atomizes')
            a['param'] = 'T'
        st.case({'t': canon, 'v': vt, 'x': x}, nontrivial=True)
        st.count('type:' + ty[0] + (':' + ty[1][0] if ty[0] == 'L' else ''))
        st.count('len:' + vt.split(' ')[0])
        for kind in sorted({t for t in re.findall(r'(?<![\w])([anfmr]) ', ' ' + vt)}):
            st.count('value-has:' + {'a': 'atomic', 'n': 'node', 'f': 'function', 'm': 'map', 'r': 'array'}[kind])
        # 1. match_sequence_type
        im = impl_match(W, pv, text, x, c=c)
        st.count('match:' + im[:7])
        tags = []
        if a['fk'] == '1':
            tags.append('F18k')
            st.count('type-argument-kind-test')
        if im != a['match'] or (spec is not None and im != spec):
            run.disagree(Disagreement(dict(case, op='match_sequence_type'), im, a['match'], spec,
                                      what='match_sequence_type', site='sequence_types.match_sequence_type', tags=tags))
        if x == 1 and c == 0 and len(vt) % 3 == 0:
            # the optional `parser` argument left out: no XSD-version restriction, names compared as written
            inp = impl_match(W, pv, text, x, no_parser=True)
            st.count('match:parser=None')
            if inp != a['match']:
                run.disagree(Disagreement(dict(case, op='match_sequence_type(parser=None)'), inp, a['match'], spec,
                                          what='match_sequence_type', site='sequence_types.match_sequence_type', tags=tags))
        # 2. instance of / 3. treat as (through the 3.1 parser)
        ii = impl_instance(W, pv, text, x, c)
        it = impl_treat(W, pv, text, x, c)
        # function-typed-parameter matching is compared where get_argument is plain match_sequence_type: kind tests,
        # node(), map / array tests (atomic names go through cast_to_primitive_type, function tests through as_argument)
        param_op = (ty[0] == 'L' and ty[1][0] in ('K', 'KT', 'D', 'node', 'many', 'aany')) or ty[0] in ('M', 'A')
        # ... and an atomic type against a value with arrays and no other function item: the arrays are atomized
        # (convert_argument, model `convertArg`); there the specification of MATCHING is not the oracle
        atomize_op = ty[0] == 'L' and ty[1][0] in ('a', 'num') and re.search(r'(?<![\w])r ', ' ' + vt) is not None \
            and re.search(r'(?<![\w])[fmn] ', ' ' + vt) is None
        param_op = param_op or atomize_op
        ip = impl_param(W, pv, text, x, c) if param_op else None
        if atomize_op:
            st.count('param:array-to-atomic-type')
        if param_op:
            st.count('param:' + ip[:7])
        st.count('instance:' + ii[:7])
        st.count('treat:' + it[:7])
        itags = list(tags)
        # a function-typed parameter applies the function conversion rules; they leave node / function / map / array
        # items alone, so for those types the specification's matching is the oracle; for atomic types tie only
        pspec = None if atomize_op else spec
        for op, got, mdl, what, site, sp_ in (
                ('instance of', ii, a['inst'], 'instance-of', 'evaluate__instance_expression', spec),
                ('treat as', it, a['treat'], 'treat-as', 'evaluate__treat_expression', spec),
                ('function parameter', ip, a['param'], 'function-parameter', '_InlineFunction.__call__.get_argument', pspec)):
            if got is None:
                continue
            if sp_ is None and got == 'E:XPST0051' and has_typed_func(ty):
                # a list-type / non-atomic name inside a typed function test is a STATIC error of the parser
                # (XPST0051 while the function test is read), whatever the value: not a judgement
                st.count('static-XPST0051-in-function-test')
                continue
            if got != mdl or (sp_ is not None and got != sp_):
                run.disagree(Disagreement(dict(case, op=op), got, mdl, sp_, what=what,
                                          site='_xpath2_operators.' + site, tags=itags))
        # 4. the same judgements with the item types written in parentheses (XPath 3.0 ParenthesizedItemType): the
        #    answer is the answer of the plain spelling
        if ty[0] != 'E' and (len(vt) + x + c) % 4 == 0:
            ptext = render_paren(ty, spacing, run.rng)
            pcase = dict(case, text=ptext, spelling='parenthesised item types')
            st.count('parenthesised-spelling')
            for op, got, plain, mdl, what, site in (
                    ('instance of', impl_instance(W, pv, ptext, x, c), ii, a['inst'], 'instance-of',
                     'XPath1Parser.parse_sequence_type'),
                    ('treat as', impl_treat(W, pv, ptext, x, c), it, a['treat'], 'treat-as',
                     'XPath1Parser.parse_sequence_type'),
                    ('function parameter', impl_param(W, pv, ptext, x, c) if param_op else None, ip, a['param'],
                     'function-parameter', '_InlineFunction.nud')):
                if got is None or got == plain:
                    continue
                run.disagree(Disagreement(dict(pcase, op=op), got, mdl, spec, what=what + '-parenthesised', site=site,
                                          tags=itags))
        if a['dom'] == '1':
            st.count('in-domain-of-match_eq_spec')


def matrix_cases(run: Run, W: World):
    """EXHAUSTIVE over the generated issubclass matrix: every value class that has a sample x every builtin atomic
    type (+ xs:numeric) as single value and as a pair, and the empty sequence x every type, against the occurrence
    indicators (quick: one indicator per (class, type) pair, rotating; thorough: all four)"""
    L = live()
    first = {}
    for v, t in W.atoms:
        first.setdefault(t, v)
    atoms = [(v, t) for t, v in first.items()]
    leaves = [('a', i) for i in range(len(L.atom_names))] + [('num',)]
    occs = '1?*+'
    cases = []
    only11 = set(L.xsd11_only)
    for ci, (v, vt) in enumerate(atoms):
        for ti, leaf in enumerate(leaves):
            # a plain xs:dateTimeStamp / xs:error name is judged by both parsers (no instances under XSD 1.0)
            x = ci % 2 if (leaf[0] == 'a' and leaf[1] in only11) else (1 if (ci + ti) % 5 == 0 else 0)
            for o in (occs if not run.quick else occs[(ci + ti) % 4]):
                cases.append((('L', leaf, o), ([v], '1 ' + vt), x))
            if not run.quick or (ci + ti) % 3 == 0:
                for o in (occs if not run.quick else occs[(ci + 2 * ti) % 4]):
                    cases.append((('L', leaf, o), ([v, v], f'2 {vt} {vt}'), x))
    for ti, leaf in enumerate(leaves):
        for o in occs:
            cases.append((('L', leaf, o), ([], '0'), ti % 2))
    run.stats.count('matrix:exhaustive-class-x-type-pairs', len(atoms) * len(leaves))
    for i in range(0, len(cases), 4000):
        judge_cases(run, W, cases[i:i + 4000])


def text_cases(run: Run, types):
    """the Lean text of a type against the real normalised string, and the Lean model of the string-level
    splitting (`pySplit`, depth-aware) against the real helpers.split_function_test and against the pieces the AST
    gives (the harness's own rendering of the parameters and of the return type)"""
    from elementpath.sequence_types import normalize_sequence_type
    from elementpath.helpers import split_function_test
    st = run.stats
    lines = ['T|' + tok(t) for t in types]
    answers = run.driver('C18', lines)
    for ty, ans in zip(types, answers):
        if not ans.startswith('text='):
            run.disagree(Disagreement(tok(ty), 'driver:' + ans, what='protocol'))
            continue
        body = ans[5:]
        text, _, split = body.partition(' split=')
        real = normalize_sequence_type(render(ty, Spacer(run.rng, 0.4)))
        st.case({'text': real}, nontrivial=True)
        st.count('text:' + ('flat' if flat(ty) else 'non-flat'))
        if text != real or text != render(ty):
            run.disagree(Disagreement({'type': render(ty), 'op': 'normalised text'}, real, text, None, what='text',
                                      site='sequence_types.normalize_sequence_type'))
            continue
        if ty[0] == 'F':
            spec = [render(a) for a in ty[1]] + [render(ty[2])]
            pieces = split.split('\u241f')
            model = [p for p in pieces[:pieces.index('=>')] if ty[1]] + pieces[pieces.index('=>') + 1:]
            impl = split_function_test(real)
            st.count('text:split-compared')
            st.count(f'text:split-arity-{min(len(ty[1]), 3)}')
            if model != spec:
                run.disagree(Disagreement({'type': real, 'op': 'pySplit (Lean) against the AST pieces'}, model, spec, None,
                                          what='string-split-model', site='EPV.SeqType.pySplit'))
            if impl != spec:
                run.disagree(Disagreement({'type': real, 'op': 'helpers.split_function_test'}, impl, model, spec,
                                          what='string-split', site='helpers.split_function_test'))


def restr_cases(run: Run, pairs, what='restriction'):
    st = run.stats
    lines = [f'R|{tok(a)}|{tok(b)}' for a, b in pairs]
    answers = run.driver('C18', lines)
    for (t1, t2), line, ans in zip(pairs, lines, answers):
        if ans.startswith('bad-'):
            run.disagree(Disagreement(line, 'driver:' + ans, what='protocol'))
            continue
        a = fields(ans)
        sp = Spacer(run.rng, 0.3)
        s1, s2 = render(t1, sp), render(t2, sp)
        im = impl_restr(s1, s2)
        st.case({'r1': render(t1), 'r2': render(t2)}, nontrivial=True)
        st.count('restriction:' + im)
        st.count('restriction-' + ('flat' if a['flat'] == '1' else 'nested'))
        if im != a['restr']:
            run.disagree(Disagreement({'st1': s1, 'st2': s2, 'op': 'is_sequence_type_restriction'}, im, a['restr'],
                                      what='restriction', site='sequence_types.is_sequence_type_restriction'))


def laws_of_real_relation(run: Run, W: World, types, values, tag_check=True):
    """reflexive / transitive / sound-for-matching, on the REAL functions, by brute force.
    `spec` of a law is the string 'holds'."""
    from elementpath.sequence_types import is_sequence_type_restriction as R, match_sequence_type as M
    st = run.stats
    texts = [render(t) for t in types]
    n = len(texts)

    def r(i, j):
        try:
            return bool(R(texts[i], texts[j]))
        except Exception:
            return False
    rel = [[r(i, j) for j in range(n)] for i in range(n)]
    for i in range(n):
        st.count('law:reflexive-checked')
        if not rel[i][i]:
            run.disagree(Disagreement({'law': 'reflexive', 'st': texts[i]}, 'False', None, 'holds', what='law-reflexive',
                                      site='sequence_types.is_sequence_type_restriction'))
    trans_viol = 0
    for i in range(n):
        for j in range(n):
            if not rel[i][j]:
                continue
            for k in range(n):
                if rel[j][k]:
                    st.count('law:transitive-checked')
                    if not rel[i][k] and trans_viol < 5:
                        trans_viol += 1
                        run.disagree(Disagreement({'law': 'transitive', 'st1': texts[i], 'st2': texts[j], 'st3': texts[k]},
                                                  'R(1,2) R(2,3) not R(1,3)', None, 'holds', what='law-transitive',
                                                  site='sequence_types.is_sequence_type_restriction',
                                                  tags=[]))
    # soundness
    mt = {}
    for vi, (pv, vt) in enumerate(values):
        v = pv[0] if len(pv) == 1 else pv
        for i in range(n):
            try:
                mt[vi, i] = bool(M(v, texts[i], W.P))
            except Exception:
                mt[vi, i] = None
    sound_viol = 0
    for i in range(n):          # super
        for j in range(n):      # candidate
            if not rel[i][j] or i == j:
                continue
            for vi, (pv, vt) in enumerate(values):
                if mt[vi, j] is True:
                    st.count('law:sound-checked')
                    if mt[vi, i] is not True:
                        if sound_viol < 8:
                            run.disagree(Disagreement(
                                {'law': 'sound', 'super': texts[i], 'candidate': texts[j], 'value': vt},
                                f'restriction=True match(v,candidate)=True match(v,super)={mt[vi, i]}', None, 'holds',
                                what='law-sound', site='sequence_types.is_sequence_type_restriction',
                                tags=[]))
                        sound_viol += 1



# =============================================================================== judgement histories
HIST_SAFE_LEAVES = ('item', 'node', 'a', 'num')


def hist_safe(ty) -> bool:
    return ty[0] == 'E' or (ty[0] == 'L' and ty[1][0] in HIST_SAFE_LEAVES)


def hist_variant(G: TyGen, ty, rng):
    """perturb atomic names / occurrence only (keeps the type inside what the parser accepts)"""
    if ty[0] != 'L':
        return ty
    leaf, o = ty[1], ty[2]
    if leaf[0] == 'a' and rng.random() < 0.6:
        rows = G.L.sub_rows()
        a = leaf[1]
        leaf = ('a', rng.choice([x for x in rows[a] + [i for i, row in enumerate(rows) if a in row]
                                 if x not in G.L.xsd11_only] or [a]))
    elif rng.random() < 0.1:
        leaf = ('item',)
    if rng.random() < 0.2:
        o = G.occ()
    return ('L', leaf, o)


def gen_history(W: World, G: TyGen, rng, bases):
    """ops on a pool of function items: ('j', kind, i, ty) / ('p', i, mask); item 0 is the base item"""
    src, asts = rng.choice(bases)
    impl = [(list(asts[:-1]), asts[-1])]        # signature of every pool item: parameters at the placeholders
    first_k = []                                # the (wrong) first-k reading, as a near-miss type to judge against
    spec = [(list(asts[:-1]), asts[-1])]        # signature per XPath: parameters at the placeholders
    parent = [None]
    ops = []
    for _ in range(rng.randint(3, 9)):
        cands = [i for i, (a, _) in enumerate(impl) if len(a) >= 1]
        if cands and rng.random() < 0.35 and len(impl) < 5:
            i = rng.choice(cands)
            n = len(impl[i][0])
            r = rng.random()
            if r < 0.45:                           # placeholders first (the common spelling f(?, 1, 2))
                k = rng.randint(1, n)
                mask = [True] * k + [False] * (n - k)
            else:
                mask = [rng.random() < 0.5 for _ in range(n)]
                if not any(mask):
                    mask[rng.randrange(n)] = True
            # the fixed arguments are values of the declared parameter types (the function conversion rules are
            # applied to them when the partial application is evaluated); where none can be generated the position
            # stays a placeholder
            vals = []
            for j, m in enumerate(mask):
                v = None if m else value_of_type(W, impl[i][0][j], rng.randrange(4))
                if v is None:
                    mask[j] = True
                vals.append(v)
            ops.append(('p', i, mask, vals))
            k = sum(mask)
            impl.append(([impl[i][0][j] for j, m in enumerate(mask) if m], impl[i][1]))
            first_k.append((impl[i][0][:k], impl[i][1]))
            sa = spec[i][0]
            spec.append(([sa[j] for j, m in enumerate(mask) if m and j < len(sa)], spec[i][1]))
            parent.append((i, mask))
        else:
            i = rng.randrange(len(impl))
            r = rng.random()
            if r < 0.30:
                a, ret = impl[i]
            elif r < 0.50:
                a, ret = rng.choice(first_k) if first_k else spec[i]
            elif r < 0.62:
                a, ret = impl[0]
            elif r < 0.70:
                ty = ('L', ('fany',), '1')
                a = None
            else:
                a, ret = rng.choice(impl + spec + first_k)
                a = [hist_variant(G, x, rng) for x in a]
                ret = hist_variant(G, ret, rng)
            if a is not None:
                ty = ('F', list(a), ret)
            ops.append(('j', rng.choice(['jm', 'ji', 'jt', 'ja']), i, ty))
    return src, asts, ops, parent


def hist_partial_expr(mask, prefix='b') -> str:
    return '$f(' + ', '.join('?' if m else f'${prefix}{j}' for j, m in enumerate(mask)) + ')'


def hist_partial_vars(mask, vals, prefix='b') -> dict:
    return {f'{prefix}{j}': (v if len(v) != 1 else v[0]) for j, (m, v) in enumerate(zip(mask, vals)) if not m}


def run_history_impl(W: World, src, ops, xsd11=0):
    """the history on ONE base function item (one token), answers in order; None for partial applications"""
    ctx = lambda **kw: W.XPathContext(W.root1, **kw)   # noqa: E731
    P = W.parsers[xsd11]

    def base():
        f = P.parse(src).evaluate(ctx())
        return f[0] if isinstance(f, list) else f

    def partial(f, mask, vals):
        g = P.parse(hist_partial_expr(mask)).evaluate(ctx(variables=dict(hist_partial_vars(mask, vals), f=f)))
        return g[0] if isinstance(g, list) and len(g) == 1 else g

    def judge(kind, item, ty):
        text = render(ty)
        if kind == 'jm':
            return impl_match(W, [item], text, xsd11)
        if kind == 'ji':
            return impl_instance(W, [item], text, xsd11)
        if kind == 'ja':
            return impl_as_argument(W, item, text, xsd11)
        return impl_treat(W, [item], text, xsd11)
    out, fresh = [], []
    try:
        pool = [base()]
    except Exception as e:
        return None, None, err_text(e)
    parent = [None]
    for op in ops:
        if op[0] == 'p':
            try:
                pool.append(partial(pool[op[1]], op[2], op[3]))
            except Exception as e:
                return None, None, err_text(e)
            parent.append((op[1], op[2], op[3]))
            out.append(None)
            fresh.append(None)
        else:
            _, kind, i, ty = op
            out.append(judge(kind, pool[i], ty))

            def rebuild(j):                     # a fresh item with the same derivation and no judgement history
                return base() if parent[j] is None else partial(rebuild(parent[j][0]), parent[j][1], parent[j][2])
            try:
                fresh.append(judge(kind, rebuild(i), ty))
            except Exception as e:
                fresh.append(err_text(e))
    return out, fresh, None


def history_line(asts, ops, xsd11=0, inline=False) -> str:
    base = f'1 1 f {len(asts) - 1} ' + ' '.join(tok(a) for a in asts)
    parts = []
    for op in ops:
        if op[0] == 'p':
            parts.append(f'p {op[1]} {len(op[2])} ' + ' '.join('1' if m else '0' for m in op[2]))
        else:
            parts.append(f'{op[1]} {op[2]} {tok(op[3])}')
    return f'H|{xsd11}|{1 if inline else 0}|{base}|' + ';'.join(parts)


def single_expression(src, ops, parent_of):
    """the `instance of` judgements of the history as ONE XPath expression on one bound item:
    let $f := <src> return (j1, j2, ...); partial applications are spelled where they are judged"""
    exprs = ['$f']
    variables = {}
    for k, op in enumerate(ops):
        if op[0] == 'p':
            exprs.append('(' + exprs[op[1]] + ')(' +
                         ', '.join('?' if m else f'$b{k}_{j}' for j, m in enumerate(op[2])) + ')')
            variables.update(hist_partial_vars(op[2], op[3], prefix=f'b{k}_'))
    js = [(k, op) for k, op in enumerate(ops) if op[0] == 'j' and op[1] != 'ja']
    body = ', '.join(f'(({exprs[op[2]]}) instance of {render(op[3])})' for _, op in js)
    return f'let $f := {src} return ({body})', [k for k, _ in js], variables


def histories(run: Run, W: World, G: TyGen):
    st = run.stats
    rng = run.rng
    bases = [(src, asts) for src, asts in W.func_src
             if 2 <= len(asts) - 1 <= 4 and all(hist_safe(a) and not mentions(a, set(live().xsd11_only)) for a in asts)]
    for src in ('substring#3', 'concat#3', 'replace#3', 'translate#3', 'contains#2', 'starts-with#2',
                'subsequence#3', 'insert-before#3', 'math:pow#2', 'string-join#2', 'substring-after#2', 'tokenize#2'):
        n0 = len(W.func_src)
        if W.add_func_expr(src) and all(hist_safe(a) for a in W.func_src[-1][1]):
            bases.append(W.func_src[-1])
        del W.funcs[n0:], W.func_src[n0:]          # keep the value pool of the other passes unchanged
    if not bases:
        run.broken.append('histories: no base function item')
        return
    hs = [gen_history(W, G, rng, bases) for _ in range(run.scale(400, 4000))]
    # seed history (the order of operations that a signature cache on the token gets wrong)
    sub3 = next(((s_, a) for s_, a in bases if s_ == 'substring#3'), None)
    if sub3:
        t3 = ('F', list(sub3[1][:-1]), sub3[1][-1])
        t1 = ('F', [sub3[1][0]], sub3[1][-1])
        for kind in ('ji', 'jt', 'jm'):
            hs.insert(0, (sub3[0], sub3[1], [('j', kind, 0, t3), ('p', 0, [True, False, False], [None, [1.0], [2.0]]), ('j', kind, 1, t1),
                                             ('j', kind, 1, t3), ('j', kind, 0, t3)], None))
    lines = [history_line(asts, ops, inline=src.startswith('function(')) for src, asts, ops, _ in hs]
    answers = run.driver('C18', lines)
    for (src, asts, ops, _), line, ans in zip(hs, lines, answers):
        if not ans.startswith('hist='):
            run.disagree(Disagreement(line, 'driver:' + ans, what='protocol'))
            continue
        entries = ans[5:].split(';') if ans[5:] else []
        got, fresh, err = run_history_impl(W, src, ops)
        st.case({'h': line}, nontrivial=True)
        st.count('history')
        if err is not None:
            run.disagree(Disagreement({'history': line, 'source': src}, err, 'ok', None, what='history-setup',
                                      site='partial application'))
            continue
        seen_partial = False
        for k, (op, e) in enumerate(zip(ops, entries)):
            if op[0] == 'p':
                seen_partial = True
                st.count('history:partial-application' + ('' if all(op[2][:sum(op[2])]) else ':non-prefix'))
                continue
            model, spec, q, r = e.split('/')
            st.count('history:judgement' + (':after-partial' if seen_partial else '') + (':derived-item' if op[2] else ''))
            case = {'source': src, 'history': [describe_op(o) for o in ops[:k + 1]], 'op': describe_op(op)}
            tags = []
            if r == '1':
                # aliasing of the argument list of an inline function (finding F18r): the model of the typing
                # is not claimed for this item; a wrong answer is the finding
                st.count('history:F18r-region')
                if got[k] != spec:
                    run.disagree(Disagreement(case, got[k], None, spec, what='history-judgement',
                                              site='_xpath30_operators: func = copy(func); func[:] = tokens', tags=tags))
                continue
            if spec == '-':
                spec = None
            if got[k] != model or (spec is not None and got[k] != spec):
                run.disagree(Disagreement(case, got[k], model, spec, what='history-judgement',
                                          site='XPathFunction.match_function_test', tags=tags))
            if got[k] != fresh[k]:
                # the same single judgement on a fresh item with the same derivation answers differently
                run.disagree(Disagreement(dict(case, fresh=fresh[k]), got[k], None, fresh[k], what='history-dependence',
                                          site='XPathFunction (state kept on the token)', tags=[]))
        # the same judgements inside one expression on one bound item
        expr, idx, evars = single_expression(src, ops, None)
        if idx:
            try:
                res = W.P.parse(expr).evaluate(W.XPathContext(W.root1, variables=evars))
                res = res if isinstance(res, list) else [res]
                res = ['T' if r is True else 'F' if r is False else f'?{r!r}' for r in res]
            except Exception as ex:
                res = [err_text(ex)] * len(idx)
            st.count('history:single-expression')
            for r, k in zip(res, idx):
                model, spec, q, fr = entries[k].split('/')
                tags = []
                if fr == '1':
                    if r != spec:
                        run.disagree(Disagreement({'expression': expr, 'judgement': describe_op(ops[k])}, r, None, spec,
                                                  what='history-single-expression', site='partial application', tags=tags))
                    continue
                if r != model or r != spec:
                    run.disagree(Disagreement({'expression': expr, 'judgement': describe_op(ops[k])}, r, model, spec,
                                              what='history-single-expression', site='XPathFunction.match_function_test',
                                              tags=tags))


def describe_op(op) -> str:
    if op[0] == 'p':
        return f'item{op[1]}(' + ', '.join('?' if m else repr(v)[:20] for m, v in zip(op[2], op[3])) + ') -> new item'
    kind = {'jm': 'match_sequence_type', 'ji': 'instance of', 'jt': 'treat as', 'ja': 'passed to a parameter of type'}[op[1]]
    return f'item{op[2]} {kind} {render(op[3])}'



# =============================================================================== histories over maps and arrays
# declared types of the converting function.  Not used: xs:untypedAtomic (the class-level table of the model cannot
# follow a value through untypedAtomic and out again) and xs:anyAtomicType (cast_to_primitive_type looks up a
# constructor 'anyAtomicType' that does not exist: a bare KeyError escapes — observation, C03's area)
CONV_TARGETS = ('xs:double', 'xs:float', 'xs:decimal', 'xs:integer', 'xs:string', 'xs:anyURI')


def gen_container_history(W: World, rng):
    """pool[0] = an array or a map whose members / entry values are sequences of 2-3 atomic values (integers, decimals,
    doubles, floats, untypedAtomic, anyURI, strings).  ops: ('j', kind, i, ty) judgement of pool[i];
    ('c', i, k, T, R, how): member k of pool[i] (the stored list itself, fetched by a dynamic call) passed through
    `function($s as T) as R { $s }` — the result is appended to the pool"""
    L = live()
    ix = L.atom_names.index
    cls_of = {}
    for v, t in W.atoms:
        cls_of.setdefault(L.val_names[int(t.split(' ')[1])], []).append((v, t))
    groups = ['int', 'int', 'Decimal', 'float', 'Float', 'UntypedAtomic', 'AnyURI', 'str', 'Integer', 'Int']
    is_map = rng.random() < 0.45
    n = rng.choice([1, 2, 2, 3])
    members = []
    for _ in range(n):
        g = rng.choice(groups)
        g2 = g if rng.random() < 0.7 else rng.choice(groups)
        ln = rng.choice([2, 2, 3, 1])
        members.append([rng.choice(cls_of[g if j % 2 == 0 else g2]) for j in range(ln)])
    mtoks = [f'{len(m)} ' + ' '.join(t for _, t in m) for m in members]
    str_cls = L.val_cls.index(str)
    if is_map:
        ctok = f'1 m {n} ' + ' '.join(f'{str_cls} {mt}' for mt in mtoks)
    else:
        ctok = f'1 r {n} ' + ' '.join(mtoks)

    def leaf_for(member):
        c = int(member[0][1].split(' ')[1])
        row = L.inst_rows()[c]
        return rng.choice(row) if row and rng.random() < 0.8 else ix('xs:anyAtomicType')

    def container_type(member):
        leaf = ('L', ('a', leaf_for(member)), rng.choice('+*+1'))
        if rng.random() < 0.15:
            leaf = ('L', ('a', ix(rng.choice(('xs:double', 'xs:float', 'xs:decimal', 'xs:string')))), rng.choice('+*'))
        return ('M', ix('xs:string'), leaf, '1') if is_map else ('A', leaf, '1')
    ops, shapes = [], [('c', members)]          # shapes[i]: ('c', members) or ('s', None)
    for _ in range(rng.randint(4, 9)):
        r = rng.random()
        if r < 0.35:
            i = 0                  # conversions fetch from the container; derived values are only judged
            k = rng.randrange(n)
            T = ('L', ('a', ix(rng.choice(CONV_TARGETS))), rng.choice('**+'))
            R = T if rng.random() < 0.6 else ('L', ('a', ix(rng.choice(CONV_TARGETS))), '*')
            how = rng.choice(['call', 'call', 'get'])
            ops.append(('c', i, k, T, R, how))
            shapes.append(('s', None))
        else:
            i = rng.choice([0, 0, 0, rng.randrange(len(shapes))])
            if shapes[i][0] == 'c':
                ty = container_type(rng.choice(members))
            else:
                ty = ('L', ('a', ix(rng.choice(CONV_TARGETS + ('xs:integer', 'xs:decimal')))), rng.choice('*+'))
            ops.append(('j', rng.choice(['jm', 'ji', 'jt']), i, ty))
    return is_map, members, ctok, ops


def container_line(ctok, ops, xsd11=0) -> str:
    parts = []
    for op in ops:
        if op[0] == 'c':
            parts.append(f'c {op[1]} {op[2]} {tok(op[3])} {tok(op[4])}')
        else:
            parts.append(f'{op[1]} {op[2]} {tok(op[3])}')
    return f'H|{xsd11}|0|1 {ctok[2:] if False else ctok}|' + ';'.join(parts)


def run_container_impl(W: World, is_map, members, ops, skip_judgements=False):
    """answers in order; a coerce op answers T / F (XPTY0004) and appends the returned python value"""
    P = W.P
    ctx = lambda **kw: W.XPathContext(W.root1, **kw)   # noqa: E731

    def build():
        variables = {f'm{j}': [v for v, _ in m] for j, m in enumerate(members)}
        if is_map:
            src = 'map{' + ', '.join(f'"k{j}": $m{j}' for j in range(len(members))) + '}'
        else:
            src = '[' + ', '.join(f'$m{j}' for j in range(len(members))) + ']'
        c = P.parse(src).evaluate(ctx(variables=variables))
        return c[0] if isinstance(c, list) else c

    def judge(kind, value, ty):
        text = render(ty)
        if kind == 'jm':
            return impl_match(W, value, text, 0)
        if kind == 'ji':
            return impl_instance(W, value, text, 0)
        return impl_treat(W, value, text, 0)

    def coerce(value, is_container, k, T, R, how):
        fn = f'function($s as {render(T)}) as {render(R)} {{ $s }}'
        if is_container:
            key = f'"k{k}"' if is_map else str(k + 1)
            if how == 'get':
                arg = f'map:get($c, {key})' if is_map else f'array:get($c, {key})'
            else:
                arg = f'$c({key})'
            var = value[0]
        else:
            arg, var = '$c', (value[0] if len(value) == 1 else list(value))
        try:
            res = P.parse(f'{fn}({arg})').evaluate(ctx(variables={'c': var}))
            res = list(res) if isinstance(res, list) else [res]
            return 'T', res
        except Exception as e:
            t = err_text(e)
            return ('F' if t == 'E:XPTY0004' else t), []
    pool, kinds, out = [[build()]], ['c'], []
    for op in ops:
        if op[0] == 'c':
            ans, val = coerce(pool[op[1]], kinds[op[1]] == 'c', op[2], op[3], op[4], op[5])
            pool.append(val)
            kinds.append('s')
            out.append(ans)
        else:
            out.append(None if skip_judgements else judge(op[1], pool[op[2]], op[3]))
    return out, pool


def container_histories(run: Run, W: World):
    st = run.stats
    rng = run.rng
    hs = [gen_container_history(W, rng) for _ in range(run.scale(300, 3000))]
    # seed history: integers in an array member, promoted to xs:double* by a parameter type, array judged again
    L = live()
    ix = L.atom_names.index
    ints = [(1, f'a {L.val_cls.index(int)}'), (2, f'a {L.val_cls.index(int)}')]
    for is_map in (False, True):
        cty = (lambda leaf: ('M', ix('xs:string'), leaf, '1')) if is_map else (lambda leaf: ('A', leaf, '1'))
        ipl = ('L', ('a', ix('xs:integer')), '+')
        dbl = ('L', ('a', ix('xs:double')), '*')
        ctok = (f'1 m 1 {L.val_cls.index(str)} 2 {ints[0][1]} {ints[1][1]}' if is_map else f'1 r 1 2 {ints[0][1]} {ints[1][1]}')
        hs.insert(0, (is_map, [ints], ctok, [('j', 'ji', 0, cty(ipl)), ('c', 0, 0, dbl, dbl, 'call'), ('j', 'ji', 0, cty(ipl)),
                                             ('j', 'jt', 0, cty(ipl)), ('j', 'jm', 1, dbl), ('c', 0, 0, dbl, dbl, 'get'),
                                             ('j', 'jm', 0, cty(ipl))]))
    lines = [container_line(ctok, ops) for _, _, ctok, ops in hs]
    answers = run.driver('C18', lines)
    for (is_map, members, ctok, ops), line, ans in zip(hs, lines, answers):
        if not ans.startswith('hist='):
            run.disagree(Disagreement(line, 'driver:' + ans, what='protocol'))
            continue
        entries = ans[5:].split(';')
        got, _ = run_container_impl(W, is_map, members, ops)
        st.case({'h': line}, nontrivial=True)
        st.count('container-history:' + ('map' if is_map else 'array'))
        seen_conv = False
        for k, (op, e) in enumerate(zip(ops, entries)):
            model, spec, _q, _r = e.split('/')
            spec = None if spec == '-' else spec
            desc = [describe_cop(o, is_map) for o in ops[:k + 1]]
            case = {'container': ('map ' if is_map else 'array ') + ctok, 'history': desc, 'op': desc[-1]}
            if op[0] == 'c':
                seen_conv = True
                st.count('container-history:conversion:' + got[k][:3])
            else:
                st.count('container-history:judgement' + (':after-conversion' if seen_conv else ''))
            if got[k] != model or (spec is not None and got[k] != spec):
                run.disagree(Disagreement(case, got[k], model, spec, what='container-history',
                                          site='XPathToken.cast_to_primitive_type / match_sequence_type'))
            if op[0] == 'j':
                # the same single judgement on a fresh container with the same conversions and no other judgement
                fresh_ops = [o for o in ops[:k] if o[0] == 'c'] + [op]
                fgot, _ = run_container_impl(W, is_map, members, fresh_ops)
                # ... and on a fresh container WITHOUT the conversions, when the judged value is the container itself
                if op[2] == 0:
                    f0, _ = run_container_impl(W, is_map, members, [op])
                    if got[k] != f0[-1]:
                        run.disagree(Disagreement(dict(case, untouched=f0[-1]), got[k], None, f0[-1], what='conversion-changed-its-argument',
                                                  site='XPathToken.cast_to_primitive_type'))
                if got[k] != fgot[-1]:
                    run.disagree(Disagreement(dict(case, fresh=fgot[-1]), got[k], None, fgot[-1], what='history-dependence',
                                              site='state kept on a stored sequence'))


def describe_cop(op, is_map) -> str:
    if op[0] == 'c':
        key = (f'"k{op[2]}"' if is_map else str(op[2] + 1))
        fetch = (f'item{op[1]}({key})' if op[5] == 'call' else f'{"map" if is_map else "array"}:get(item{op[1]}, {key})')
        return f'function($s as {render(op[3])}) as {render(op[4])} {{ $s }}({fetch}) -> new item'
    kind = {'jm': 'match_sequence_type', 'ji': 'instance of', 'jt': 'treat as'}[op[1]]
    return f'item{op[2]} {kind} {render(op[3])}'



# =============================================================================== error codes of the judgements
OPERAND_CODES = ['XPDY0050', 'XPTY0004', 'FORG0001', 'FOAR0001']


def error_propagation(run: Run, W: World):
    """operand expressions whose value is only known at evaluation time and that may RAISE — a failing `treat as`
    (XPDY0050), a function call with a wrong argument (XPTY0004), a failing cast (FORG0001), a division by zero
    (FOAR0001), also lazily in the middle of a sequence (for-binding) — under every judgement form and every kind of
    sequence type.  Specification: the operand's error propagates unchanged; `instance of` itself raises no dynamic
    error; `treat as` raises XPDY0050 (model: instanceOfOp / treatAsOp, theorems operand_error_propagates,
    instance_of_raises_only_static, treat_as_raises_XPDY0050_or_static)."""
    L = live()
    st = run.stats
    ix = L.atom_names.index
    cls = lambda c: L.val_cls.index(c)   # noqa: E731
    a = lambda n, o='1': ('L', ('a', ix(n)), o)   # noqa: E731
    # (operand expression over $v, python value of $v, outcome: ('err', code) or ('val', value tokens))
    operands = [
        ('($v treat as xs:string)', 5, ('err', 'XPDY0050')),
        ('($v treat as xs:string)', 'abc', ('val', f'1 a {cls(str)}')),
        ('($v treat as xs:integer+)', [1, 2], ('val', f'2 a {cls(int)} a {cls(int)}')),
        ('($v treat as element())', 5, ('err', 'XPDY0050')),
        ('($v treat as xs:integer)', [1, 2], ('err', 'XPDY0050')),
        ('(($v treat as item()+) treat as xs:decimal)', 'x', ('err', 'XPDY0050')),
        ('function($x as xs:integer) as xs:integer { $x }($v)', 'abc', ('err', 'XPTY0004')),
        ('function($x as xs:integer) as xs:integer { $x }($v)', 5, ('val', f'1 a {cls(int)}')),
        ('abs($v)', 'abc', ('err', 'XPTY0004')),
        ('xs:integer($v)', 'abc', ('err', 'FORG0001')),
        ('xs:integer($v)', '12', ('val', f'1 a {cls(int)}')),
        ('($v cast as xs:double)', 'abc', ('err', 'FORG0001')),
        ('(1 idiv $v)', 0, ('err', 'FOAR0001')),
        ('(for $x in $v return ($x treat as xs:integer))', [1, 'a'], ('err', 'XPDY0050')),
        ('(for $x in $v return ($x treat as xs:integer))', [1, 2], ('val', f'2 a {cls(int)} a {cls(int)}')),
        ('(for $x in $v return xs:integer($x))', ['1', 'zz'], ('err', 'FORG0001')),
        ('($v ! (. treat as xs:string))', ['a', 3], ('err', 'XPDY0050')),
        ('$v', [], ('val', '0')),
    ]
    types = [a('xs:integer'), a('xs:integer', '*'), a('xs:integer', '+'), a('xs:string', '?'), a('xs:anyAtomicType', '+'),
             a('xs:double', '*'), ('L', ('num',), '?'), ('L', ('item',), '*'), ('L', ('item',), '1'), ('L', ('node',), '*'),
             ('L', ('K', 'e', '-'), '?'), ('L', ('K', 'a', '*'), '*'), ('L', ('fany',), '?'), ('L', ('many',), '*'),
             ('L', ('aany',), '?'), ('A', a('xs:integer', '*'), '?'), ('M', ix('xs:string'), ('L', ('item',), '*'), '*'),
             ('F', [a('xs:integer')], a('xs:integer')), ('E',), ('L', ('D', 1), '?')]
    cases = [(e, v, out, ty) for (e, v, out) in operands for ty in types]
    lines = []
    for e, v, out, ty in cases:
        o = f'err {OPERAND_CODES.index(out[1])}' if out[0] == 'err' else out[1]
        lines.append(f'E|0|{o}|{tok(ty)}')
    answers = run.driver('C18', lines)
    for (e, v, out, ty), line, ans in zip(cases, lines, answers):
        if not ans.startswith('inst='):
            run.disagree(Disagreement(line, 'driver:' + ans, what='protocol'))
            continue
        m = fields(ans)
        text = render(ty, Spacer(run.rng, 0.3))
        for op, key in (('instance of', 'inst'), ('treat as', 'treat')):
            expr = f'{e} {op} {text}'
            try:
                tk = W.P.parse(expr)
                r = tk.evaluate(W.XPathContext(W.root1, variables={'v': v}))
                got = ('T' if r is True else 'F' if r is False else f'?{r!r}') if op == 'instance of' else 'T'
            except Exception as ex:
                got = err_text(ex)
            want = m[key]
            if want.startswith('O:'):
                want = 'E:' + OPERAND_CODES[int(want[2:])]
            elif want == 'E:XPDY0050' or (op == 'treat as' and want == 'F'):
                want = 'E:XPDY0050'
            st.case({'e': expr}, nontrivial=True)
            st.count('error-propagation:' + ('operand-raises' if out[0] == 'err' else 'operand-value') + ':' + op)
            st.count('error-code:' + (got if got.startswith('E:') else 'no-error'))
            if got != want:
                # the model's answer is the specification here (errors of the operand propagate unchanged)
                run.disagree(Disagreement({'expression': expr, 'v': repr(v)}, got, want, want, what='error-code',
                                          site='_xpath2_operators.evaluate__instance_expression / evaluate__treat_expression'))


# =============================================================================== signatures (exploration)
def signatures(run: Run, W: World):
    """every registered signature: parse it into the AST, generate arguments from the declared parameter types
    (atomic values of a matching class, nodes, function items built from the declared function type, maps,
    arrays, sequences by the occurrence indicator) with a context document and a context item, call the function
    through the parser and check the result with the REAL match_sequence_type against the declared return type
    (and with the model where the result is representable).  Exploration, not proof: the statement
    "every successful call returns a value of the declared type" is checked on the calls made."""
    from elementpath.sequence_types import match_sequence_type
    P = W.P
    st = run.stats
    total = parsed = called = ok = 0
    unmatched, status = [], {}
    skip = {'fn:doc': 'needs a resolvable URI', 'fn:collection': 'needs a collection',
            'fn:uri-collection': 'needs a collection', 'fn:unparsed-text': 'reads a resource', 'fn:unparsed-text-lines': 'reads a resource',
            'fn:json-doc': 'reads a resource',
            'fn:load-xquery-module': 'not applicable to XPath', 'fn:transform': 'needs an XSLT processor',
            'fn:error': 'always raises', 'fn:put': 'not applicable'}
    for (qname, arity), sig in sorted(P.function_signatures.items(), key=lambda kv: (kv[0][0].qname, kv[0][1])):
        total += 1
        key = f'{qname.qname}#{arity}'
        try:
            ast = parse_st(sig.replace(', ...)', ')'))
        except Exception:
            status[key] = 'signature outside the AST'
            continue
        parsed += 1
        if qname.qname in skip:
            status[key] = 'not called: ' + skip[qname.qname]
            continue
        args = list(ast[1][:arity])
        while len(args) < arity and ast[1]:          # variadic (concat): repeat the last declared parameter
            args.append(ast[1][-1])
        if len(args) != arity:
            status[key] = 'not called: arity does not fit the declared parameters'
            continue
        P = W.P
        last_err = 'no argument generator for ' + ', '.join(render(a) for a in args)
        for attempt in range(run.scale(10, 25)):
            vals = [value_of_type(W, a, attempt, qname.qname, i) for i, a in enumerate(args)]
            if any(v is None for v in vals):
                break
            if key in COLLATION_LAST:
                vals[-1] = ['http://www.w3.org/2005/xpath-functions/collation/codepoint']
            if key in FLAGS_LAST:
                vals[-1] = [['i', '', 's'][attempt % 3]]
            if key == 'fn:apply#2':
                vals = [[function_of_type(W, ('L', ('fany',), '1'))], [W.P.parse('[1]').evaluate(W.XPathContext(W.root1))]]
            variables = {f'a{i}': (v if len(v) != 1 else v[0]) for i, v in enumerate(vals)}
            expr = f'{qname.qname}(' + ', '.join(f'$a{i}' for i in range(arity)) + ')'
            try:
                node = W.ctx_items[attempt % len(W.ctx_items)]
                ctx = W.XPathContext(W.root1, item=node, variables=variables)
                res = P.parse(expr).evaluate(ctx)
            except Exception as e:
                last_err = 'every attempt raised, last: ' + err_text(e)
                if err_text(e) == 'E:FONS0005' and P is W.P:
                    P = W.XPath31Parser(base_uri='http://example.com/base/')     # a static base URI for this signature
                continue
            called += 1
            status[key] = 'called'
            ret_text = render(ast[2])
            try:
                good = match_sequence_type(res, ret_text, P)
            except Exception as e:
                good = err_text(e)
            if good is True:
                ok += 1
            else:
                unmatched.append(f'{expr} -> {type(res).__name__} !~ {ret_text} ({good})')
                run.disagree(Disagreement({'call': expr, 'args': {k: repr(v)[:60] for k, v in variables.items()},
                                           'declared': sig, 'result': repr(res)[:80]}, f'result-matches={good}', None,
                                          'result-matches=True', what='signature-return-type',
                                          site=key, tags=[]))
            break
        else:
            status[key] = 'not called: ' + last_err
        if key not in status:
            status[key] = 'not called: ' + last_err
        if status[key].endswith('E:XPST0017'):
            # a registered signature (name, arity) that no call can use: XPST0017 'wrong number of arguments' whatever
            # the arguments.  Trigger of finding F18v: the six names below, nothing else is excused.
            st.count('signature:registered-but-uncallable')
            run.disagree(Disagreement({'signature': key, 'declared': sig,
                                       'named function reference': impl_eval(W, f'{qname.qname}#{arity} instance of {sig}')},
                                      'every call raises XPST0017', None, 'a function of this name and arity exists',
                                      what='signature-registered', site='function_signatures[' + key + ']',
                                      tags=['F18v'] if key in PHANTOM_SIGNATURES else []))
    for v in status.values():
        st.count('signature:' + v.split(':')[0])
    st.extra['signatures'] = {'registered': total, 'inside_AST': parsed, 'called_successfully': called,
                              'result_matches_declared_type': ok, 'unmatched': unmatched[:20],
                              'unexercised': {k: v for k, v in sorted(status.items()) if v != 'called'}}


PHANTOM_SIGNATURES = {f'fn:format-{n}#{k}' for n in ('date', 'dateTime', 'time') for k in (3, 4)}


def impl_eval(W: World, expr: str) -> str:
    try:
        r = W.P.parse(expr).evaluate(W.XPathContext(W.root1))
        return repr(r)[:60]
    except Exception as e:
        return err_text(e)


def map_constructor_key_types(run: Run, W: World):
    """`map{$k: 1}` for one sample of every value class that can be a key: the map holds a key of the class of `$k`
    (XPath 3.1 §3.11.1.1: the key is the atomized value of the key expression) — the type of the keys is part of every
    `map(K, V)` judgement; compared with the map built by XPathMap(parser, [(k, 1)])."""
    st = run.stats
    seen = set()
    for k, ktok in W.key_atoms():
        c = ktok.split(' ')[1]
        if c in seen:
            continue
        seen.add(c)
        try:
            m = W.P.parse('map{$k: 1}').evaluate(W.XPathContext(W.root1, variables={'k': k}))
            got = type(next(iter(m.keys()))).__name__
        except Exception as e:
            got = err_text(e)
        st.case({'map-constructor-key': type(k).__name__}, nontrivial=True)
        st.count('map-constructor-key-class')
        if got != type(k).__name__:
            run.disagree(Disagreement({'expr': 'map{$k: 1}', 'k': f'{type(k).__name__}({str(k)!r})'}, 'key class ' + got, None,
                                      'key class ' + type(k).__name__, what='map-constructor-key-type',
                                      site='XPathMap.evaluate / _evaluate: get_atomized_operand',
                                      tags=[]))


def own_occurrence_cases(run: Run, W: World, G=None):
    """a typed function test with an occurrence indicator of its own can only be written with parentheses,
    `(function(A) as R)*`; the AST of the model has no such type, the expected answers are by the cardinality rule
    (`occurrence_cardinality`) over items that are / are not instances of the plain function test.
    Top level (instance of / treat as): judged through the indicator kept on the function-test token.  In a declaration or nested
    in another type the text-based code cannot hold the type: rejected with XPST0003 (finding F18w)."""
    st = run.stats
    g = 'let $g := function($i as xs:int) as xs:int { $i } return '
    ft = '(function(xs:int) as xs:int)'
    top = [(f'{g}($g, $g) instance of {ft}*', 'True'), (f'{g}($g, $g) instance of {ft}+', 'True'),
           (f'{g}($g, $g) instance of {ft}?', 'False'), (f'{g}($g, $g) instance of {ft}', 'False'),
           (f'{g}() instance of {ft}?', 'True'), (f'{g}() instance of {ft}*', 'True'), (f'{g}() instance of {ft}+', 'False'),
           (f'{g}($g, 1) instance of {ft}+', 'False'), (f'{g}$g instance of {ft}?', 'True'),
           (f'{g}(abs#1, $g) instance of {ft}*', 'False'),
           (f'{g}count(($g, $g) treat as {ft}+)', '2'), (f'{g}count(() treat as {ft}*)', '0'),
           (f'{g}count(($g, $g) treat as {ft}?)', 'E:XPDY0050'), (f'{g}count(() treat as {ft}+)', 'E:XPDY0050'),
           (f'{g}$g instance of ((function((xs:int)) as (xs:int)))', 'True')]
    decl = [(f'function($a as {ft}*) as xs:integer {{ count($a) }}(())', '0'),
            (f'{g}function($a as {ft}+) as xs:integer {{ count($a) }}(($g, $g))', '2'),
            (f'{g}count(function() as {ft}* {{ ($g, $g) }}())', '2'),
            (f'{g}function($a as {ft}?) as xs:integer {{ count($a) }}(($g, $g))', 'E:XPTY0004'),
            (f'abs#1 instance of function({ft}*) as xs:int', 'False'),
            (f'[] instance of array({ft}*)', 'True'), (f'map{{}} instance of map(xs:string, {ft}+)', 'True'),
            (f'{g}[($g, $g)] instance of array({ft}*)', 'True'), (f'{g}[($g, $g)] instance of array({ft}?)', 'False'),
            (f'{g}map{{"a": ($g, $g)}} instance of map(xs:string, {ft}+)', 'True'),
            (f'{g}map{{"a": ()}} instance of map(xs:string, {ft}+)', 'False')]

    def ev(expr):
        try:
            r = W.P.parse(expr).evaluate(W.XPathContext(W.root1))
            r = r[0] if isinstance(r, list) and len(r) == 1 else r
            return repr(r)
        except Exception as e:
            return err_text(e)
    # random: (typed function test, indicator, value of 0..3 items) against the model `instanceOfOwnOcc` / `treatAsOwnOcc`
    if G is not None:
        rng = run.rng
        cases = []
        for _ in range(run.scale(300, 6000)):
            f = rng.choice(W.funcs)
            sig = ('F', f[2][:-1], f[2][-1])
            ty = sig if rng.random() < 0.4 else G.variant(sig)
            if ty[0] != 'F':
                continue
            n = rng.choice([0, 1, 1, 2, 2, 3])
            items = [(f[0], f[1]) if rng.random() < 0.6 else W.gen_item(1) for _ in range(n)]
            vt = f'{n}' + ''.join(' ' + t for _, t in items)
            x = 1 if mentions(ty, set(live().xsd11_only)) else 0
            cases.append((ty, rng.choice('1?*+'), [v for v, _ in items], vt, x))
        answers = run.driver('C18', [f'O|{x}|{o}|{tok(ty)}|{vt}' for ty, o, _, vt, x in cases])
        for (ty, o, pv, vt, x), ans in zip(cases, answers):
            if ans.startswith('bad-'):
                run.disagree(Disagreement(f'O|{o}|{tok(ty)}|{vt}', 'driver:' + ans, what='protocol'))
                continue
            a = fields(ans)
            sp = Spacer(rng, 0.3)
            text = f'({sp()}{render(ty, sp)}{sp()}){sp()}{"" if o == "1" else o}'
            case = {'type': f'({render(ty)}){"" if o == "1" else o}', 'text': text, 'value': vt, 'xsd11': x}
            st.case({'t': case['type'], 'v': vt}, nontrivial=True)
            ii, it = impl_instance(W, pv, text, x), impl_treat(W, pv, text, x)
            st.count('own-occurrence:random:' + ii[:7])
            if ii != a['inst']:
                run.disagree(Disagreement(dict(case, op='instance of'), ii, a['inst'], None, what='own-occurrence',
                                          site='_xpath2_operators.evaluate__instance_expression'))
            if it != a['treat']:
                run.disagree(Disagreement(dict(case, op='treat as'), it, a['treat'], None, what='own-occurrence',
                                          site='_xpath2_operators.evaluate__treat_expression'))
    for expr, spec in top:
        got = ev(expr)
        st.case({'expr': expr}, nontrivial=True)
        st.count('own-occurrence:top-level')
        if got != spec:
            run.disagree(Disagreement({'expr': expr}, got, None, spec, what='own-occurrence',
                                      site='XPath1Parser.parse_sequence_type'))
    for expr, spec in decl:
        got = ev(expr)
        st.case({'expr': expr}, nontrivial=True)
        st.count('own-occurrence:declaration:' + got[:11])
        if got != spec:
            # the trigger: `(function(` ... `) as ` ... `)` followed by an occurrence indicator inside another type
            # the finding is the static rejection only: another answer than the expected one (the indicator silently moved
            # to the return type, the parentheses kept in a matched text) is a violation
            run.disagree(Disagreement({'expr': expr}, got, None, spec, what='own-occurrence-nested',
                                      site='_InlineFunction.nud append_sequence_type',
                                      tags=['F18w'] if got == 'E:XPST0003' else []))


COLLATION_LAST = {'fn:contains#3', 'fn:contains-token#3', 'fn:distinct-values#2', 'fn:max#2', 'fn:min#2', 'fn:starts-with#3',
                  'fn:ends-with#3', 'fn:substring-before#3', 'fn:substring-after#3', 'fn:compare#3', 'fn:index-of#3',
                  'fn:deep-equal#3', 'fn:sort#2', 'fn:collation-key#2'}
FLAGS_LAST = {'fn:replace#4', 'fn:matches#3', 'fn:tokenize#3', 'fn:analyze-string#3'}
STRING_POOL = ['abc', 'a b', '', 'en', 'http://example.com/a?b=c', '2000-01-01', 'NFC', '[0-9]+', 'a', 'x', 'ab', '1',
               'utf-8', 'n1', 'p:a', '{"a": 1}', '<n1/>', '[Y0001]-[M01]', '#0.0', 'upper-first']


def value_of_type(W: World, ty, attempt=0, fname='', pos=0):
    """a python value (list of items) matching a parameter type, or None"""
    rng = W.rng
    if ty[0] == 'E':
        return []
    if ty[0] in ('M', 'A') or (ty[0] == 'L' and ty[1][0] in ('many', 'aany')):
        o = ty[-1]
        if o in '?*' and attempt % 4 == 3:
            return []
        src = 'map{"a": 1, "b": 2}' if ty[0] == 'M' or ty[1][0] == 'many' else '[1, 2, 3]'
        return [W.P.parse(src).evaluate(W.XPathContext(W.root1))]
    if ty[0] == 'F' or (ty[0] == 'L' and ty[1][0] == 'fany'):
        f = function_of_type(W, ty, attempt)
        return None if f is None else [f]
    if ty[0] != 'L':
        return None
    leaf, o = ty[1], ty[2]
    n = {'1': 1, '?': 0 if attempt % 5 == 4 else 1, '*': [1, 2, 0, 3][attempt % 4], '+': [1, 2][attempt % 2]}[o]

    def one():
        k = leaf[0]
        if k == 'item':
            return rng.choice(W.atoms + W.nodes)[0] if attempt % 2 else rng.choice(W.atoms)[0]
        if k == 'node':
            return rng.choice(W.nodes)[0]
        if k == 'a':
            name = live().atom_names[leaf[1]]
            if name in ('xs:string', 'xs:anyAtomicType') and attempt % 3 != 2:
                return STRING_POOL[(attempt * 7 + pos * 3 + rng.randrange(3)) % len(STRING_POOL)]
            if name == 'xs:integer':
                return [1, 2, 0, 3, -1][attempt % 5]
            if name == 'xs:double':
                return [1.0, 2.5, 0.0][attempt % 3]
            cands = [v for v, t in W.atoms if leaf[1] in live().inst_rows()[int(t.split(' ')[1])]]
            return rng.choice(cands) if cands else None
        if k == 'num':
            return [5, 1.5, Decimal('2.5')][attempt % 3]
        if k == 'K':
            cands = [nd for nd, t in W.nodes if t.split(' ')[1] == leaf[1]]
            return rng.choice(cands) if cands else None
        if k == 'D':
            return W.root1
        return None
    out = [one() for _ in range(n)]
    return None if any(x is None for x in out) else out


def expr_of_type(ty) -> str:
    """an XPath expression whose value matches the (return) type of a function parameter"""
    if ty[0] == 'E':
        return '()'
    if ty[0] == 'L':
        leaf, o = ty[1], ty[2]
        if o in '?*' and leaf[0] not in ('a', 'num', 'item'):
            return '()'
        k = leaf[0]
        if k == 'a':
            name = live().atom_names[leaf[1]]
            return {'xs:boolean': 'true()', 'xs:string': '"a"', 'xs:integer': '1', 'xs:double': '1e0', 'xs:decimal': '1.0',
                    'xs:anyAtomicType': '1'}.get(name, f'{name}("1")' if o == '1' or o == '+' else '()')
        if k in ('item', 'num'):
            return '1'
        if k == 'node' or k == 'K':
            return '.'
        if k == 'many':
            return 'map{}'
        if k == 'aany':
            return '[]'
        if k == 'fany':
            return 'true#0'
    if ty[0] == 'M':
        return 'map{}'
    if ty[0] == 'A':
        return '[]'
    return '()'


def function_of_type(W: World, ty, attempt=0):
    """a function item for a parameter declared `function(A..) as R` (or function(*))"""
    if ty[0] == 'L':
        src = 'function($x) { $x }'
    else:
        params = ', '.join(f'$p{i} as {render(a)}' for i, a in enumerate(ty[1]))
        body = expr_of_type(ty[2])
        if attempt % 2 and ty[1] and ty[2][0] == 'L' and ty[2][1][0] == 'item':
            body = '$p0'
        src = f'function({params}) as {render(ty[2])} {{ {body} }}'
    try:
        f = W.P.parse(src).evaluate(W.XPathContext(W.root1))
        return f[0] if isinstance(f, list) else f
    except Exception:
        return None


# =============================================================================== corpus
# =============================================================================== function conversion rules (§3.1.5.2)
CONV_TYPES = ['xs:double', 'xs:float', 'xs:decimal', 'xs:integer', 'xs:string', 'xs:anyURI', 'xs:untypedAtomic',
              'xs:anyAtomicType', 'xs:boolean', 'xs:QName', 'xs:date', 'xs:int', 'xs:token', 'xs:duration',
              'xs:hexBinary', 'xs:normalizedString', 'xs:nonNegativeInteger']
CONV_NUM = ['xs:double', 'xs:float', 'xs:decimal', 'xs:integer', 'xs:anyAtomicType', 'xs:nonNegativeInteger']
CONV_STR = ['xs:string', 'xs:anyURI', 'xs:untypedAtomic', 'xs:anyAtomicType', 'xs:normalizedString', 'xs:token']


def conv_show(W: World, r) -> str:
    """the value bound to the parameter, as the driver prints it: V:<item>,… with a<class> / n / f / m / r"""
    from elementpath.xpath_tokens import XPathFunction, XPathMap, XPathArray
    from elementpath.xpath_nodes import XPathNode
    out = []
    for x in (r if isinstance(r, list) else [r]):
        if isinstance(x, XPathArray):
            out.append('r')
        elif isinstance(x, XPathMap):
            out.append('m')
        elif isinstance(x, XPathFunction):
            out.append('f')
        elif isinstance(x, XPathNode):
            out.append('n')
        elif type(x) in W.L.val_cls:
            out.append(f'a{W.L.val_cls.index(type(x))}')
        else:
            out.append('?' + type(x).__name__)
    return 'V:' + ','.join(out)


def impl_convert(W: World, pyval, st_text, xsd11) -> str:
    """`function($g as T) { $g }($v)`: the converted value (classes), F = type error (XPTY0004 / FOTY0013 / XPTY0117 /
    FORG0001: the specification's "type error or failing cast"; the model has one code)"""
    v = pyval[0] if len(pyval) == 1 else list(pyval)
    try:
        tk = W.parser(xsd11).parse(f'function($g as {st_text}) {{ $g }}($v)')
        r = tk.evaluate(W.XPathContext(W.root1, variables={'v': v}))
        return conv_show(W, r)
    except Exception as e:
        t = err_text(e)
        return 'F' if t in ('E:XPTY0004', 'E:FOTY0013', 'E:XPTY0117', 'E:FORG0001') else t


def conv_value(W: World, rng, samples, nodes, depth=0):
    """(python items, tokens) of 0..3 items: sample atoms of every class, arrays (nested) of them, sometimes a node,
    a map or a function item"""
    items, toks = [], []
    for _ in range(rng.choice([0, 1, 1, 1, 2, 2, 3])):
        r = rng.random()
        if r < 0.62 or depth >= 2:
            v, t = rng.choice(samples)
        elif r < 0.84:
            from elementpath.xpath_tokens import XPathArray
            mem = [conv_value(W, rng, samples, nodes, depth + 1) for _ in range(rng.choice([0, 1, 2, 2, 3]))]
            v = XPathArray(W.P, [m[0][0] if len(m[0]) == 1 else list(m[0]) for m in mem])
            t = f'r {len(mem)} ' + ' '.join(f'{len(m[0])} ' + ' '.join(m[1]) for m in mem)
            t = ' '.join(t.split())
        elif r < 0.94:
            v, t = rng.choice(nodes)
        elif r < 0.97 and W.funcs:
            f = rng.choice(W.funcs)
            v, t = f[0], f[1]
        else:
            from elementpath.xpath_tokens import XPathMap
            v, t = XPathMap(W.P, []), 'm 0'
        items.append(v)
        toks.append(t)
    return items, toks


def untyped_cast_row(run: Run, W: World):
    """rule 2 of §3.1.5.2 against ANOTHER code path: the sample `xs:untypedAtomic("5")` is converted for a parameter
    declared T exactly when `xs:untypedAtomic("5") castable as T` (the constructor functions); otherwise a dropped cast
    would read as "the cast failed" in the class abstraction"""
    st = run.stats
    for expr, want in (('function($g as xs:QName) { $g }(xs:untypedAtomic("a"))', 'E:XPTY0117'),
                       ('function($g as xs:QName*) { $g }((xs:QName("a"), xs:untypedAtomic("a")))', 'E:XPTY0117'),
                       ('function($g) as xs:QName { $g }(xs:untypedAtomic("a"))', 'E:XPTY0117'),
                       ('function($g as xs:float) { $g }(1e0)', 'E:XPTY0004'),
                       ('function($g) as xs:float { $g }(1e0)', 'E:XPTY0004'),
                       ('function($g as xs:token) { $g }(xs:anyURI("u"))', 'E:XPTY0004'),
                       ('function($g as xs:string) { $g }(xs:anyURI("u"))', "'u'"),
                       ('function($g as xs:string) { $g }(/*/@*[1])', None)):
        got = impl_eval(W, expr)
        st.count('conv:fixed-regressions')
        if want is not None and got != want or want is None and got.startswith('E:'):
            run.disagree(Disagreement({'op': 'function conversion (regression of F18y / F18z)', 'expr': expr}, got, None, want,
                                      what='function-conversion-regression',
                                      site='_InlineFunction.convert_argument / XPathToken.cast_to_primitive_type'))
    for n in W.L.atom_names:
        if n[3:] in ('anyAtomicType', 'NOTATION', 'dateTimeStamp', 'error', 'untypedAtomic', 'QName'):
            continue
        castable = impl_eval(W, f'xs:untypedAtomic("5") castable as {n}')
        conv = impl_eval(W, f'function($g as {n}) as xs:boolean {{ $g instance of {n} }}(xs:untypedAtomic("5"))')
        st.count('conv:untyped-castable-' + castable[:5])
        want = {'True': 'True', 'False': 'E:XPTY0004'}.get(castable, castable)
        if conv != want and not (castable == 'False' and conv == 'E:FORG0001'):
            run.disagree(Disagreement({'op': 'function conversion of xs:untypedAtomic("5")', 'type': n,
                                       'castable as': castable}, conv, None, want,
                                      what='untyped-cast-vs-castable', site='XPathToken.cast_to_primitive_type'))


def function_conversion(run: Run, W: World):
    """model `convertParam` = real `function($g as T) {$g}($v)` = specification `specConvert`, on the converted VALUE"""
    rng, st = run.rng, run.stats
    L = W.L
    samples, seen = [], set()
    for v, t in W.atoms:                     # the cast table is the cast of the FIRST sample of each class
        if t not in seen:
            seen.add(t)
            samples.append((v, t))
    names = [n for n in CONV_TYPES if n in L.atom_names]
    cases = []
    fixed = [('xs:float', '1', ['float']), ('xs:double', '*', ['Float', 'int', 'Decimal']), ('xs:string', '1', ['AnyURI']),
             ('xs:integer', '1', ['UntypedAtomic']), ('xs:QName', '1', ['UntypedAtomic']), ('xs:anyURI', '1', ['str']),
             ('xs:untypedAtomic', '1', ['AnyURI']), ('xs:decimal', '1', ['float']), ('xs:float', '+', ['Decimal', 'float'])]
    by_name = {L.val_names[int(t.split(' ')[1])]: (v, t) for v, t in samples}
    for n, o, cl in fixed:
        if n in L.atom_names and all(c in by_name for c in cl):
            cases.append((n, o, [by_name[c][0] for c in cl], [by_name[c][1] for c in cl]))
    # nodes whose typed value IS the class sample: xs:untypedAtomic("5") for the document, the element, the attribute and
    # the text node (the cast of an untyped value depends on its text), an xs:string for comment / PI / namespace nodes
    import lxml.etree as LET
    croot = W.XPathContext(LET.ElementTree(LET.XML('<n1 n2="5"><!--c--><?n3 v?>5</n1>'))).root
    nodes = [(nd, W.node_tok(nd, False)) for nd in
             W.P.parse('(/ , //node(), //@*, //namespace::*)').evaluate(W.XPathContext(croot))]
    st.count('conv:node-kinds:' + ''.join(sorted({t.split(' ')[1] for _, t in nodes})))
    for nd, nt in nodes:
        for n in ('xs:string', 'xs:untypedAtomic', 'xs:integer', 'xs:anyAtomicType', 'xs:double', 'xs:boolean', 'xs:QName'):
            for o in ('1', '*'):
                cases.append((n, o, [nd], [nt]))
    for _ in range(run.scale(700, 12000)):
        n = rng.choice(names) if rng.random() < 0.85 else rng.choice(L.atom_names)
        if n[3:] in ('dateTimeStamp', 'error', 'NOTATION'):
            continue            # xs:NOTATION is abstract: no constructor (NotImplementedError in cast_to_primitive_type)
        pool = samples
        if rng.random() < 0.6:      # a family of values with a chance to be converted: numbers / strings and URIs
            num = rng.random() < 0.6
            fam = ({'int', 'float', 'Decimal', 'Float', 'Integer', 'Int', 'Short', 'NonNegativeInteger', 'UntypedAtomic'}
                   if num else {'str', 'AnyURI', 'UntypedAtomic', 'NormalizedString', 'XsdToken', 'NCName'})
            pool = [sm for sm in samples if L.val_names[int(sm[1].split(' ')[1])] in fam] or samples
            n = rng.choice([m for m in (CONV_NUM if num else CONV_STR) if m in L.atom_names])
        items, toks = conv_value(W, rng, pool, nodes)
        cases.append((n, rng.choice(['1', '?', '*', '*', '+']), items, toks))
    lines = [f'C|1|L a {L.atom_names.index(n)} {o}|{len(toks)} ' + ' '.join(toks) for n, o, _, toks in cases]
    lines = [' '.join(ln.split()) for ln in lines]
    answers = run.driver('C18', lines)
    for (n, o, items, toks), line, ans in zip(cases, lines, answers):
        if ans.startswith('bad-'):
            run.disagree(Disagreement(line, 'driver:' + ans, what='protocol'))
            continue
        a = fields(ans)
        text = n + ('' if o == '1' else o)
        impl = impl_convert(W, items, text, 1)
        case = {'op': 'function conversion', 'expr': f'function($g as {text}) {{ $g }}($v)', 'type': text,
                'value': line.split('|')[-1]}
        st.case({'conv': text, 'v': case['value']}, nontrivial=True)
        st.count('conv:' + ('accepted-unchanged' if impl.startswith('V:') and impl == 'V:' + ','.join(
            'a' + t.split(' ')[1] if t.startswith('a ') else t[0] for t in toks) else
            'accepted-converted' if impl.startswith('V:') else impl[:12]))
        tags = []
        if a['dv'] == '1':
            st.count('conv:live-cast-table-deviates-on-input')
        spec = None if a['spec'] == '-' else a['spec']
        if a['lv'] != '1':
            run.disagree(Disagreement(case, 'value class without sample', what='protocol'))
        st.count('conv:inside-theorem-domain')
        if impl != a['conv'] or (spec is not None and impl != spec):
            run.disagree(Disagreement(case, impl, a['conv'], spec, what='function-conversion',
                                      site='_xpath30_functions._InlineFunction.convert_argument / XPathToken.cast_to_primitive_type',
                                      tags=tags))


def corpus_types():
    L = live()
    ix = L.atom_names.index
    a = lambda n, o='1': ('L', ('a', ix(n)), o)  # noqa: E731
    item = lambda o='1': ('L', ('item',), o)     # noqa: E731
    return {
        'restr': [
            (item(), a('xs:integer', '?')), (a('xs:int'), a('xs:int', '?')), (item(), ('E',)),        # F18a
            (item('+'), ('E',)), (a('xs:integer', '*'), a('xs:integer', '+')),
            (('F', [], a('xs:int')), ('F', [], a('xs:int', '?'))),
            (('F', [a('xs:int')], a('xs:int')), ('F', [a('xs:integer')], a('xs:int'))),
            (('F', [], a('xs:integer')), ('F', [], a('xs:int'))),
            (('F', [a('xs:int')], item('+')), ('F', [a('xs:int')], ('E',))),
            (('L', ('node',), '1'), ('L', ('K', 'd', '-'), '1')), (('L', ('node',), '*'), ('L', ('K', 'e', 2), '1')),
            (('L', ('anyType',), '1'), ('L', ('l', 0), '1')), (a('xs:decimal'), a('xs:integer')),
            (('L', ('l', 0), '1'), ('L', ('l', 1), '1')), (('L', ('l', 1), '*'), ('L', ('l', 1), '1')),
            (('L', ('l', 2), '?'), ('L', ('l', 0), '?')), (('L', ('anySimple',), '*'), ('L', ('l', 2), '*')),
            (('L', ('fany',), '1'), ('F', [a('xs:int')], a('xs:int'))),
            (('F', [a('xs:int')], a('xs:int')), ('L', ('many',), '1')),
            # F18u: a candidate that is no function test but whose text contains ') as '
            (('F', [('E',)], item()), ('A', ('F', [('L', ('D', 4), '*')], a('xs:boolean', '+')), '1')),
            (('F', [a('xs:int', '?')], item()), ('M', ix('xs:int'), ('F', [a('xs:int')], item()), '1')),
        ],
    }


# =============================================================================== body
def build_world(run: Run):
    W = World(run.rng)
    G = TyGen(run.rng)
    for src in ('abs#1', 'concat#3', 'count#1', 'string-length#1', 'string-length#0', 'exists#1', 'name#1',
                'substring#2', 'substring#3', 'true#0', 'position#0', 'upper-case#1', 'data#1', 'root#1',
                'substring(?, 2)', 'map:size#1', 'array:size#1', 'math:sqrt#1', 'function($x) { $x }'):
        W.add_func_expr(src)
    for _ in range(run.scale(60, 200)):
        n = run.rng.choice([0, 1, 1, 2, 3])
        W.add_inline([G.simple_ty(1) for _ in range(n)], G.ty(1))
    return W, G


def correspond(run: Run):
    W, G = build_world(run)
    rng = run.rng
    run.stats.extra['value_classes_without_sample'] = W.no_sample
    run.stats.extra['function_items'] = {'built': len(W.funcs), 'skipped_outside_AST': W.func_skipped}
    # --- restriction: corpus, then random pairs (flat ones are compared with the model)
    pairs = list(corpus_types()['restr'])
    for _ in range(run.scale(2500, 80000)):
        t1 = G.ty(0, want_flat=rng.random() < 0.9)
        r = rng.random()
        t2 = t1 if r < 0.05 else (G.variant(t1) if r < 0.75 else G.ty(0, rng.random() < 0.9))
        pairs.append((t1, t2) if rng.random() < 0.5 else (t2, t1))
    # function-item signatures against tests are restriction queries as well: use them
    for f in W.funcs[:80]:
        asts = f[2]
        sig = ('F', asts[:-1], asts[-1])
        pairs.append((G.variant(sig), sig))
    # maps / arrays against function tests whose return type ends in a nested type's indicator (+ restriction pairs)
    nested_cases, nested_pairs = container_vs_function_tests(W, G, rng, run.scale(150, 2500))
    pairs += nested_pairs
    run.stats.count('nested-tail-return-type:judgements', len(nested_cases))
    for i in range(0, len(pairs), 5000):
        restr_cases(run, pairs[i:i + 5000])
    # --- judgements
    cases = []
    for _ in range(run.scale(1800, 60000)):
        ty = G.ty(0, want_flat=rng.random() < 0.8)      # one in five with nested function / map tests as parameters
        v = W.gen_seq()
        # bias: half of the time take a type that has a chance to match the first item
        if rng.random() < 0.45 and v[0]:
            ty = type_for(W, G, v, rng) or ty
        x = 1 if rng.random() < 0.25 else 0
        if x == 0 and mentions(ty, set(live().xsd11_only)):
            x = 1          # an XSD 1.0 processor does not know xs:dateTimeStamp / xs:error: static error, not a judgement
        c = rng.randrange(1, len(CFGS)) if rng.random() < 0.3 else 0
        if c:
            ty = prefixify(ty, CFGS[c][1], rng)
        cases.append((ty, v, x, c))
    cases = fixed_judgements(W) + namespace_judgements(W) + nested_cases + cases
    for i in range(0, len(cases), 4000):
        judge_cases(run, W, cases[i:i + 4000])
    matrix_cases(run, W)
    text_cases(run, [G.ty(0, want_flat=rng.random() < 0.5) for _ in range(run.scale(1200, 12000))]
               + [('F', f[2][:-1], f[2][-1]) for f in W.funcs])
    # --- laws of the real relation
    types = [G.ty(0, want_flat=rng.random() < 0.85) for _ in range(run.scale(60, 150))]
    types += [t for p in corpus_types()['restr'] for t in p]
    types += [G.variant(t) for t in types[:40]]
    values = [W.gen_seq() for _ in range(run.scale(60, 200))] + [([], '0')]
    laws_of_real_relation(run, W, types, values)
    histories(run, W, G)
    container_histories(run, W)
    error_propagation(run, W)
    own_occurrence_cases(run, W, G)
    map_constructor_key_types(run, W)
    function_conversion(run, W)
    untyped_cast_row(run, W)
    signatures(run, W)
    run.stats.rule = ('judgement = (sequence type AST rendered with random spacing, value of length 0..3 built from '
                      'atomic values of every value class with a sample, nodes of every kind from two documents, '
                      'function items with declared signatures, maps, arrays, xsd version) checked through '
                      'match_sequence_type, instance of, treat as; restriction = pair of types through '
                      'is_sequence_type_restriction; distinct = distinct (canonical type text, value tokens) or type pairs')


def nested_tail_type(G: TyGen, rng, depth=0):
    """a type whose LAST characters are an occurrence indicator (or a parenthesis) that belongs to a NESTED type: a typed
    function test `function(A) as T?` (the `?` is T's), array / map tests with inner indicators, with and without an
    indicator of their own — the texts on which "does R admit the empty sequence" cannot be read off the last character"""
    inner = G.simple_ty(1)
    if inner[0] == 'L':
        inner = ('L', inner[1], rng.choice('?*?*+1'))
    r = rng.random()
    if r < 0.45:
        args = [G.simple_ty(1) for _ in range(rng.choice([0, 1, 1, 2]))]
        ret = inner if depth or rng.random() < 0.7 else nested_tail_type(G, rng, 1)
        return ('F', args, ret)
    if r < 0.65:
        return ('A', inner, rng.choice('1?*+1'))
    if r < 0.85:
        return ('M', G.atom(), inner, rng.choice('1?*+1'))
    return inner


def container_vs_function_tests(W: World, G: TyGen, rng, n):
    """maps and arrays (empty ones, random ones, and ones whose every value is a function item of exactly the asked
    signature) against `function(K) as R` with R from `nested_tail_type`: a map is an instance only if R admits the empty
    sequence of a missing key (XPath 3.1 §2.5.6.2; model `matchSt`, map branch: `matchSt r []`), which for a typed
    function test R is never the case, whatever its text ends with; an array has no missing member."""
    L = live()
    ix = L.atom_names.index
    ctx = W.XPathContext(W.root1)
    empty_map = (W.P.parse('map{}').evaluate(ctx), 'm 0')
    empty_arr = (W.P.parse('[]').evaluate(ctx), 'r 0')
    ci = L.val_cls.index(int)
    keys = [ix('xs:integer'), ix('xs:anyAtomicType'), ix('xs:string'), ix('xs:int'), ix('xs:decimal')]
    cases, pairs = [], []
    for k in range(n):
        R = nested_tail_type(G, rng)
        K = ('L', ('a', rng.choice(keys) if rng.random() < 0.85 else G.atom()), '1')
        ty = ('F', [K], R)
        values = [empty_map, empty_arr]
        if R[0] == 'F' and W.add_inline(R[1], R[2]):
            f, ftok, _ = W.funcs[-1]
            try:
                m = W.P.parse('map{1: $f, 2: $f}').evaluate(W.XPathContext(W.root1, variables={'f': f}))
                a = W.P.parse('[$f, $f]').evaluate(W.XPathContext(W.root1, variables={'f': f}))
                values += [(m, f'm 2 {ci} 1 {ftok} {ci} 1 {ftok}'), (a, f'r 2 1 {ftok} 1 {ftok}')]
            except Exception:
                pass
        for _ in range(2):
            v = W.gen_map(1) if rng.random() < 0.5 else W.gen_array(1)
            if v[1][0] in 'mr':
                values.append(v)
        x = 1 if mentions(ty, set(L.xsd11_only)) else 0
        for item, t in values:
            cases.append((ty, ([item], '1 ' + t), x))
        # the same types as restriction queries: a map / array test (or the function test itself) as candidate
        V = R if rng.random() < 0.6 else G.variant(R)
        pairs += [(ty, ('M', K[1][1], V, '1')), (ty, ('A', V, '1')), (ty, ('F', [K], V)), (('F', [K], V), ty)]
    return cases, pairs


def prefixify(ty, cfg, rng):
    """write some of the element / attribute names of the kind tests (outside typed function tests) with a prefix
    that the configuration binds"""
    bound = [pre for pre in (1, 2) if cfg[pre]]
    k = ty[0]
    if k == 'L':
        leaf = ty[1]
        if leaf[0] in ('K', 'KT') and leaf[1] in 'ea' and isinstance(leaf[2], int) and leaf[2] < 100 and bound \
                and rng.random() < 0.5:
            leaf = leaf[:2] + (100 * rng.choice(bound) + leaf[2],) + leaf[3:]
        elif leaf[0] == 'D' and isinstance(leaf[1], int) and leaf[1] < 100 and bound and rng.random() < 0.5:
            leaf = ('D', 100 * rng.choice(bound) + leaf[1])
        return ('L', leaf, ty[2])
    if k == 'M':
        return ('M', ty[1], prefixify(ty[2], cfg, rng), ty[3])
    if k == 'A':
        return ('A', prefixify(ty[1], cfg, rng), ty[2])
    return ty


def namespace_judgements(W: World):
    """every parser configuration x every element / attribute node of the three documents x the element / attribute
    tests whose local name is the node's, written unprefixed and with every bound prefix — at the top level (kind-test
    token for `instance of` / `treat as`, match_sequence_type directly, function parameter) and as the member type of an
    array / value type of a map (match_sequence_type from inside the parser)"""
    L = live()
    ctx = W.XPathContext(W.root1)
    out = []
    str_cls = L.val_cls.index(str)
    for c in range(1, len(CFGS)):
        cfg = CFGS[c][1]
        for node, nt_tok in W.nodes:
            parts = nt_tok.split(' ')
            kind, name = parts[1], int(parts[2])
            if kind not in 'ea' or name % 100 == 0:
                continue
            arr = W.P.parse('[$v]').evaluate(W.XPathContext(W.root1, variables={'v': node}))
            mp = W.P.parse('map{"k": $v}').evaluate(W.XPathContext(W.root1, variables={'v': node}))
            for tkind in 'ea':
                for pre in (0, 1, 2):
                    if pre and not cfg[pre]:
                        continue
                    leaf = ('K', tkind, 100 * pre + name % 100)
                    x = (c + pre + name) % 2
                    out.append((('L', leaf, '1'), ([node], '1 ' + nt_tok), x, c))
                    out.append((('A', ('L', leaf, '1'), '1'), ([arr], f'1 r 1 1 {nt_tok}'), x, c))
                    out.append((('M', L.atom_names.index('xs:string'), ('L', leaf, '?'), '1'),
                                ([mp], f'1 m 1 {str_cls} 1 {nt_tok}'), x, c))
            out.append((('L', ('D', name % 100), '1'), ([W.root3], next(t for n, t in W.nodes if n is W.root3) and
                        '1 ' + next(t for n, t in W.nodes if n is W.root3)), 0, c))
    return out


def fixed_judgements(W: World):
    """seed corpus of judgements: branches that random generation reaches rarely"""
    L = live()
    ix = L.atom_names.index
    cls = L.val_cls.index
    ctx = W.XPathContext(W.root1)
    m_str = (W.P.parse('map{"a": 1}').evaluate(ctx), f'm 1 {cls(str)} 1 a {cls(int)}')
    m_int = (W.P.parse('map{1: "x", 2: "y"}').evaluate(ctx), f'm 2 {cls(int)} 1 a {cls(str)} {cls(int)} 1 a {cls(str)}')
    arr = (W.P.parse('[1, 2]').evaluate(ctx), f'r 2 1 a {cls(int)} 1 a {cls(int)}')
    a = lambda n, o='1': ('L', ('a', ix(n)), o)  # noqa: E731
    star = ('L', ('item',), '*')
    out = []
    for key in ('xs:anyURI', 'xs:string', 'xs:integer', 'xs:anyAtomicType'):      # strict=False matching of map keys (l.321)
        for ret in (star, a('xs:integer', '?'), a('xs:integer')):
            for item, t in (m_str, m_int, arr):
                out.append((('F', [a(key)], ret), ([item], '1 ' + t), 0))
    # arrays passed where an atomic type is declared: atomized by the function conversion rules (not by matching)
    ev = lambda src: W.P.parse(src).evaluate(ctx)  # noqa: E731
    ci, cs_ = cls(int), cls(str)
    arrays = [(ev('[1, 2]'), f'r 2 1 a {ci} 1 a {ci}'), (ev('[1]'), f'r 1 1 a {ci}'), (ev('[]'), 'r 0'),
              (ev('[[1], [2, 3]]'), f'r 2 1 r 1 1 a {ci} 1 r 2 1 a {ci} 1 a {ci}'),
              (ev('[(1, 2), ()]'), f'r 2 2 a {ci} a {ci} 0'), (ev('[1, "a"]'), f'r 2 1 a {ci} 1 a {cs_}'),
              (ev('["a"]'), f'r 1 1 a {cs_}')]
    cu = L.val_names.index('UntypedAtomic')
    arrays += [(ev('[xs:untypedAtomic("1"), xs:untypedAtomic("2")]'), f'r 2 1 a {cu} 1 a {cu}'),
               (ev('[xs:untypedAtomic("1"), 2]'), f'r 2 1 a {cu} 1 a {ci}')]
    # (values are abstracted to their class: an xs:untypedAtomic that cannot be cast, "x", is outside the model)
    for ty_of in [(lambda o, n=n: a(n, o)) for n in ('xs:integer', 'xs:double', 'xs:string', 'xs:anyAtomicType',
                                                      'xs:decimal')] + [lambda o: ('L', ('num',), o)]:
        for o in '1?*+':
            for item, t in arrays:
                out.append((ty_of(o), ([item], '1 ' + t), 0))
            out.append((ty_of(o), ([arrays[1][0], arrays[0][0]], f'2 {arrays[1][1]} {arrays[0][1]}'), 0))
            out.append((ty_of(o), ([arrays[1][0], 5], f'2 {arrays[1][1]} a {ci}'), 0))
    # kind tests with a type argument against every node of the two documents (no schema is bound)
    names = L.atom_names
    tas = ['untyped', 'anyType', 'anySimple', ('a', ix('xs:untypedAtomic')), ('a', ix('xs:anyAtomicType')),
           ('a', ix('xs:string')), ('a', ix('xs:integer'))]
    k = 0
    for node, nt_tok in W.nodes:
        parts = nt_tok.split(' ')
        own = (int(parts[2]) % 100) or 1
        for kind in 'ea':
            for nt in ('*', own, own % 4 + 1):
                for ta in tas:
                    for opt in ((False, True) if kind == 'e' and ta == 'untyped' else (False,)):
                        k += 1
                        out.append((('L', ('KT', kind, nt, ta, opt), '1?*+'[k % 4] if k % 5 == 0 else '1'),
                                    ([node], '1 ' + nt_tok), k % 2))
    return out


def type_for(W, G, v, rng):
    """a type with a fair chance to match the value"""
    first = v[1].split(' ')
    n = int(first[0])
    kind = first[1] if n else None
    occ = rng.choice(['1', '?', '*', '+'] if n <= 1 else ['*', '+', '*', '1'])
    L = live()
    if kind == 'a':
        c = int(first[2])
        row = L.inst_rows()[c]
        if row and rng.random() < 0.8:
            return ('L', ('a', rng.choice(row)), occ)
        return ('L', rng.choice([('item',), ('num',)]), occ)
    if kind == 'n':
        k = first[2]
        name = int(first[3]) % 100
        leaf = rng.choice([('node',), ('K', k, '-'), ('K', k, name if k in 'eap' and name else '-'), ('item',),
                           ('K', rng.choice('ean'), rng.choice(['-', name or 1]))])
        if k == 'd':
            leaf = rng.choice([('node',), ('K', 'd', '-'), ('D', rng.choice(['-', '*', 1, 2]))])
        if leaf[0] == 'K' and leaf[1] in 'tcnd':
            leaf = ('K', leaf[1], '-')
        return ('L', leaf, occ)
    if kind == 'f':
        f = next((x for x in W.funcs if x[0] is v[0][0]), None)
        if f and rng.random() < 0.8:
            sig = ('F', f[2][:-1], f[2][-1])
            return sig if rng.random() < 0.4 else G.variant(sig)
        return ('L', ('fany',), occ)
    if kind == 'm':
        return rng.choice([('L', ('many',), occ), ('M', G.atom(), G.simple_ty(1), occ), ('L', ('fany',), occ),
                           ('F', [G.simple_ty(1)], G.simple_ty(1))])
    if kind == 'r':
        return rng.choice([('L', ('aany',), occ), ('A', G.simple_ty(1), occ), ('L', ('fany',), occ),
                           ('F', [('L', ('a', L.atom_names.index('xs:integer')), '1')], G.simple_ty(1))])
    return None


def search(run: Run):
    """exhaustive small pool on the real code against the spec: every leaf type x occurrence x every
    single item and a set of pairs; every pair of pool types for the restriction laws"""
    sub = Run(PROP, run.tier, run.seed)
    W, G = build_world(sub)
    L = live()
    leaves = [('item',), ('node',), ('num',), ('fany',), ('many',), ('aany',), ('D', '-'), ('D', 1), ('D', 2)]
    leaves += [('a', i) for i in range(len(L.atom_names))]
    leaves += [('K', k, '-') for k in 'deatcpn'] + [('K', k, n) for k in 'ea' for n in ('*', 1, 2)] + [('K', 'p', 3)]
    types = [('E',)] + [('L', lf, o) for lf in leaves for o in '1?*+']
    singles = [([v], t) for v, t in W.atoms + W.nodes] + [([f[0]], f[1]) for f in W.funcs[:10]]
    values = [([], '0')] + [(pv, '1 ' + t) for pv, t in singles]
    values += [(a[0] + b[0], '2 ' + a[1] + ' ' + b[1]) for a, b in zip(singles[::3], singles[1::3])]
    cases = [(ty, v, 0) for ty in types for v in values[::2 if sub.quick else 1]]
    for i in range(0, len(cases), 5000):
        judge_cases(sub, W, cases[i:i + 5000])
    pool = types[::3] + [G.ty(0, True) for _ in range(40)]
    pairs = [(a, b) for a in pool[:70] for b in pool[:70]]
    restr_cases(sub, pairs)
    laws_of_real_relation(sub, W, pool[:90], values[:120])
    run.notes.append(f'search: {len(cases)} exhaustive judgements + {len(pairs)} restriction pairs, '
                     f'{len(sub.disagreements)} disagreements')
    return sub.disagreements


def shrink(d: Disagreement) -> Disagreement:
    return d


# =============================================================================== translator
def lean_list(xs) -> str:
    return '[' + ', '.join(str(x) for x in xs) + ']'


def lean_ty(ty) -> str:
    k = ty[0]
    if k == 'E':
        return '.empty'
    occ = {'1': '.one', '?': '.opt', '*': '.star', '+': '.plus'}
    if k == 'L':
        lf = ty[1]
        kinds = {'d': '.document', 'e': '.element', 'a': '.attribute', 't': '.text', 'c': '.comment', 'p': '.pi',
                 'n': '.namespace'}

        def nt(x):
            return '.none' if x == '-' else ('.wild' if x == '*' else f'(.name {x})')
        leaf = {'item': '.item', 'node': '.anyNode', 'num': '.numeric', 'anyType': '.anyType',
                'anySimple': '.anySimpleType', 'fany': '.funcAny', 'many': '.mapAny', 'aany': '.arrayAny'}.get(lf[0])
        if leaf is None:
            if lf[0] == 'a':
                leaf = f'(.atomic {lf[1]})'
            elif lf[0] == 'l':
                leaf = f'(.listT {lf[1]})'
            elif lf[0] == 'K':
                leaf = f'(.kind {kinds[lf[1]]} {nt(lf[2])})'
            else:
                leaf = f'(.docElem {nt(lf[1])})'
        return f'(.leaf {leaf} {occ[ty[2]]})'
    if k == 'F':
        args = '.nil'
        for a in reversed(ty[1]):
            args = f'(.cons {lean_ty(a)} {args})'
        return f'(.func {args} {lean_ty(ty[2])})'
    if k == 'M':
        return f'(.map {ty[1]} {lean_ty(ty[2])} {occ[ty[3]]})'
    return f'(.array {lean_ty(ty[1])} {occ[ty[2]]})'


def cast_rows(numeric=False):
    """castRows[c][t]: class index of XPathToken.cast_to_primitive_type(sample of class c, 'xs:<t>*') (c itself when the
    value comes back as it was, or when the class has no sample); numeric=True: the single row for 'xs:numeric*'"""
    from elementpath.xpath31 import XPath31Parser
    L = live()
    tk = XPath31Parser().parse('1')
    W = World(__import__('random').Random(0))
    sample = {}
    for v, t in W.atoms:
        sample.setdefault(int(t.split(' ')[1]), v)
    rows = []
    for c in range(len(L.val_cls)):
        row = []
        for name in (L.atom_names if not numeric else ['xs:numeric']):
            r = c
            if c in sample:
                try:
                    out = tk.cast_to_primitive_type([sample[c]], name + '*')
                    if isinstance(out, list) and len(out) == 1 and type(out[0]) in L.val_cls:
                        r = L.val_cls.index(type(out[0]))
                except Exception:
                    r = c
            row.append(r)
        rows.append(row)
    return rows if not numeric else [r[0] for r in rows]


def sampled_classes():
    W = World(__import__('random').Random(0))
    return sorted({int(t.split(' ')[1]) for _, t in W.atoms})


def translate(run: Run) -> dict:
    L = live()
    from elementpath.xpath31 import XPath31Parser
    dt = L.dt
    names = L.atom_names
    sub = L.sub_rows()
    inst = L.inst_rows()
    ctor = lambda n: '.' + n  # noqa: E731
    unknown = [n for n in names if n[3:] not in XSD_CTORS]
    sigs, outside = [], 0
    for (qname, arity), sig in sorted(XPath31Parser.function_signatures.items(), key=lambda kv: (kv[0][0].qname, kv[0][1])):
        try:
            sigs.append((f'{qname.qname}#{arity}', parse_st(sig.replace(', ...)', ')'))))
        except Exception:
            outside += 1
    out = ['/- GENERATED by harness/c18.py from the live elementpath -- do not edit -/',
           'import EPV.Spec.XPathTypes', 'namespace EPV.Gen.C18', 'open EPV.SeqType', '',
           'def atomNames : List String := [' + ', '.join(f'"{n}"' for n in names) + ']',
           'def atomXsd : List XsdT := [' + ', '.join(ctor(n[3:]) for n in names) + ']',
           'def listNames : List String := [' + ', '.join(f'"{n}"' for n in L.list_names) + ']',
           'def clsNames : List String := [' + ', '.join(f'"{n}"' for n in L.val_names) + ']',
           'def clsXsd : List XsdT := [' + ', '.join(ctor(L.xsd_of_class(c)) for c in L.val_cls) + ']',
           '',
           'def tables : Tables where',
           '  subRows := [' + ', '.join(lean_list(r) for r in sub) + ']',
           '  listRows := [' + ', '.join(lean_list(r) for r in L.list_rows()) + ']',
           '  instRows := [' + ', '.join(lean_list(r) for r in inst) + ']',
           '  numericCls := ' + lean_list([i for i, c in enumerate(L.val_cls) if issubclass(c, dt.NumericProxy)]),
           '  strCls := ' + lean_list([i for i, c in enumerate(L.val_cls) if issubclass(c, str)]),
           '  xsd11Only := ' + lean_list(L.xsd11_only),
           f'  anyURI := {names.index("xs:anyURI")}',
           f'  intCls := {L.val_cls.index(int)}',
           f'  untypedCls := {L.val_names.index("UntypedAtomic")}',
           f'  anyAtomic := {names.index("xs:anyAtomicType")}',
           f'  integer := {names.index("xs:integer")}',
           '  castRows := [' + ', '.join(lean_list(r) for r in cast_rows()) + ']',
           '  castNumRow := ' + lean_list(cast_rows(numeric=True)),
           f'  strIdx := {L.val_cls.index(str)}',
           '',
           '/-- value classes that have a sample: the rows of castRows that were measured -/',
           'def sampledCls : List Nat := ' + lean_list(sampled_classes()),
           '',
           '/-- the specification\'s view: an XSD 1.0 processor does not know the XSD 1.1-only types -/',
           'def specTables (xsd11 : Bool) : SpecTables where',
           '  atomTy := fun t => if !xsd11 && tables.xsd11Only.contains t then none else atomXsd[t]?',
           '  clsTy := fun c => clsXsd[c]?',
           f'  anyAtomicIdx := {names.index("xs:anyAtomicType")}',
           f'  integerIdx := {names.index("xs:integer")}',
           '',
           '/-- registered signatures of XPath31Parser that lie inside the AST -/',
           'def signatures : List (String × Ty) := [' + ',\n  '.join(f'("{n}", {lean_ty(t)})' for n, t in sigs) + ']',
           f'def signaturesOutsideAst : Nat := {outside}',
           f'def signaturesRegistered : Nat := {len(XPath31Parser.function_signatures)}',
           'def qnames : List String := [' + ', '.join(f'"{q}"' for q in QNAMES) + ']',
           'end EPV.Gen.C18']
    text = '\n'.join(out) + '\n'
    gen = LEAN / 'EPV' / 'Gen' / 'C18Tables.lean'
    gen.parent.mkdir(exist_ok=True)
    if not gen.exists() or gen.read_text() != text:
        gen.write_text(text)
    return {'atomic_types': len(names), 'list_types': len(L.list_names), 'value_classes': len(L.val_cls),
            'signatures_in_AST': len(sigs), 'signatures_outside_AST': outside, 'unknown_atomic_names': unknown}


def body(run: Run) -> int:
    info = translate(run)
    run.stats.extra['tables'] = info
    run.trusted_base += ['translator harness/c18.py::translate (issubclass matrices, value classes, signatures printed as Lean literals)',
                         'harness/c18.py::parse_st / render (sequence type text <-> AST) and the value tokeniser',
                         'the assignment value class -> XSD type name (cls.name along the MRO; bool/int/float/Decimal/str by hand)']
    run.assumptions += ['isinstance against a builtin atomic type depends only on the class of the value (checked per class, not per value)',
                        'no schema is bound (type annotations xs:untyped / xs:untypedAtomic); names are (namespace, local) pairs under four parser configurations',
                        'documents with at most one element child (hypothesis docsWellFormed of instance_of_eq_match_partial)',
                        'values are abstracted to their class: the cast of the function conversion rules is the cast of one sample per class',
                        'a typed function test with an occurrence indicator of its own has no AST: modelled at the top level of instance of / treat as only']
    run.prove(['EPV.Props.C18', 'EPV.Props.C18Tables', 'EPV.Props.C18Conv', 'EPV.Props.C18ConvTables'], ['EPV.Spec.XPathTypes', 'EPV.Spec.FuncConv', 'EPV.Lemmas.FuncConv', 'EPV.Gen.C18Tables', 'EPV.Lemmas.SeqTypeSpec', 'EPV.Lemmas.SeqTypeHist', 'EPV.Lemmas.SeqTypeText', 'EPV.Lemmas.SeqTypeErr'])
    try:
        correspond(run)
    except DriverError as e:
        run.broken.append('driver:C18 ' + str(e)[:300])
    return run.finish('proof', shrink=shrink, search=search)


if __name__ == '__main__':
    cli(PROP, body, translate=translate)

"""C03 phase 5: three `while` loops of the package tied to their Lean models (EPV.C03Loops, driver op `W`).

  alpha  xpath30/xpath30_helpers.py  int_to_alphabetic     `while num >= 0`
  args   xpath_tokens/base.py        get_argument_tokens   `while True` (left spine of ',' tokens)
  desc   xpath_nodes.py              ElementNode.iter_descendants  `while True` (stack of iterators)

Every case is run through the live function (5 s watchdog: a hang is an outcome) and through the driver
(model and recursive spec); impl = model = spec is required.
"""
from __future__ import annotations

import signal

from harness.common import Disagreement


def enc(s: str) -> str:
    return '.'.join(str(ord(c)) for c in s) if s else '_'


def ids(lst) -> str:
    return '.'.join(str(i) for i in lst) if lst else '_'


class _Hang(BaseException):
    pass


def guarded(fn, seconds: int = 5) -> str:
    """outcome string of a live call: v:<value> | x:<exception class> | hang"""
    def on_alarm(_s, _f):
        raise _Hang()
    old = signal.signal(signal.SIGALRM, on_alarm)
    signal.alarm(seconds)
    try:
        return 'v:' + fn()
    except _Hang:
        return 'hang'
    except BaseException as e:   # noqa
        return 'x:' + type(e).__name__
    finally:
        signal.alarm(0)
        signal.signal(signal.SIGALRM, old)


# ------------------------------------------------------------------------------------ alpha
def alpha_cases(rng, n: int):
    from elementpath.xpath30 import xpath30_helpers as H
    live = [(f'lang:{k}', v) for k, v in H.ALPHABET_CHARACTERS.items()]
    live += [(f'other:{i}', v) for i, v in enumerate(H.OTHER_NUMBERS)]
    alphabets = [(tag, a, 'live') for tag, a in live]
    alphabets += [('empty', '', 'adv'), ('one', 'x', 'adv'), ('dup', 'aab', 'adv'), ('two', '01', 'adv'),
                  ('astral', '\U0001d7ce\U0001d7cf\U0001d7d0', 'adv'), ('minus', '-a', 'adv')]
    for _ in range(6):
        k = rng.randint(1, 40)
        alphabets.append(('rand', ''.join(chr(rng.choice([rng.randint(33, 126), rng.randint(0x3b1, 0x3c9),
                                                         rng.randint(0x10400, 0x1044f)])) for _ in range(k)), 'adv'))
    out = []
    for tag, a, cls in alphabets:
        b = max(len(a), 1)
        nums = {0, 1, -1, 2, b - 1, b, b + 1, -b, b * b, b * b + b, b * b + b + 1, b ** 5 - 1, -(b ** 7),
                10 ** 40 + 7, -(10 ** 120)}
        if b == 1:
            nums = {x for x in nums if abs(x) < 600}      # unary: one character per unit
        for _ in range(max(3, n // len(alphabets))):
            e = rng.randint(1, 30)
            nums.add(rng.randint(-(b ** e), b ** e) if b > 1 else rng.randint(-400, 400))
        for x in sorted(nums):
            out.append({'kind': 'loop:alpha', 'tag': tag, 'cls': cls, 'alphabet': a, 'num': x})
    return out, live


def alpha_impl(case) -> str:
    """the live function on an arbitrary alphabet: the alphabet is entered in the module's own
    ALPHABET_CHARACTERS under a scratch key for the duration of the call (len(key) > 1 -> table look-up)"""
    from elementpath.xpath30 import xpath30_helpers as H
    key = '\x00verif-c03'
    H.ALPHABET_CHARACTERS[key] = case['alphabet']
    try:
        return guarded(lambda: enc(H.int_to_alphabetic(case['num'], key)))
    finally:
        del H.ALPHABET_CHARACTERS[key]


# ------------------------------------------------------------------------------------ args
def ser_token(root):
    """pre-order serialisation (iterative) of the part of a token tree the loop can reach:
    the first two items of every token; returns (entries, {id(token): index})"""
    entries, index, stack = [], {}, [root]
    while stack:
        tk = stack.pop()
        index[id(tk)] = len(entries)
        k = min(len(tk._items), 2)
        entries.append(f"{k}{1 if tk.symbol == ',' else 0}")
        for ch in reversed(tk._items[:k]):
            stack.append(ch)
    return entries, index


def args_sources(rng, n: int):
    srcs = ['1', '(1,2)', '(1,(2,3),4)', '(((1,2),3),(4,5))', 'concat("a","b","c",("d","e"))', '((1,2),(3,(4,5)))',
            '(' + ','.join(str(i) for i in range(250)) + ')', '(1, 2)[. = (1, 2, 3)]', 'f(1, 2, 3)',
            'for $x in (1,2), $y in (3,4) return ($x,$y)', '(' * 30 + '1,2' + ')' * 30 + ',3']

    def gen(d):
        if d <= 0 or rng.random() < 0.3:
            return str(rng.randint(0, 9))
        k = rng.randint(1, 5)
        body = ','.join(gen(d - 1) for _ in range(k))
        return rng.choice(['(%s)', 'max((%s))', 'concat(%s, "z", "y")', '(%s)']) % body
    srcs += [gen(rng.randint(1, 5)) for _ in range(n)]
    return srcs


def args_build(case):
    """the token the loop is called on, rebuilt from the (replayable) case"""
    from elementpath import XPath2Parser
    from elementpath.xpath31 import XPath31Parser
    root = (XPath31Parser if case['ver'] == 31 else XPath2Parser)().parse(case['src'])
    toks = list(root.iter())
    if case['mut'] != 'none':
        c = [t for t in toks if t.symbol == ','][case['ci']]
        if case['mut'] == 'pop':
            c._items.pop(case['pi'] % len(c._items))
        elif case['mut'] == 'clear':
            c._items.clear()
        else:
            c._items.append(c._items[0])
    return toks[case['ti'] % len(toks)]


def args_cases(rng, n: int):
    """every token of parsed trees, then the same trees with one ',' token damaged (an item removed / all
    items removed / an item added) — trees the parser does not build.  A case is (source, version, index of
    the damaged ',' and of the removed item, index of the token the loop is called on): replayable"""
    from elementpath import XPath2Parser
    from elementpath.xpath31 import XPath31Parser
    out = []
    for i, s in enumerate(args_sources(rng, n)):
        ver = 31 if i % 2 else 2
        try:
            toks = list((XPath31Parser if ver == 31 else XPath2Parser)().parse(s).iter())
        except Exception:   # noqa  (the source list is fixed; a parse error is not this check's business)
            continue
        commas = [k for k, t in enumerate(toks) if t.symbol == ',']
        for mut in ('none', 'pop', 'clear', 'extra'):
            if mut == 'none':
                tis = range(len(toks)) if len(toks) <= 40 else [0] + rng.sample(range(len(toks)), 12) + commas[:6]
                ci = pi = 0
            else:
                if not commas:
                    break
                ci, pi = rng.randrange(len(commas)), rng.randrange(2)
                tis = [0, commas[ci]] + commas[:3] + ([1] if len(toks) > 1 else [])
            for ti in tis:
                out.append({'kind': 'loop:args', 'src': s, 'ver': ver, 'mut': mut, 'ci': ci, 'pi': pi, 'ti': ti})
    return out


def args_impl(tk, index) -> str:
    return guarded(lambda: ids([index[id(x)] for x in tk.get_argument_tokens()]))


# ------------------------------------------------------------------------------------ desc
def ser_forest(children):
    """pre-order serialisation (iterative) of a list of sibling nodes by `.children` of element nodes;
    returns (entries, {id(node): index})"""
    from elementpath.xpath_nodes import ElementNode
    entries, index = [], {}
    stack = list(reversed(children))
    while stack:
        nd = stack.pop()
        index[id(nd)] = len(entries)
        el = isinstance(nd, ElementNode)
        kids = list(nd.children) if el else []
        entries.append(f"{'e' if el else 'o'}{len(kids)}")
        stack.extend(reversed(kids))
    return entries, index


DESC_DOCS = ['<a/>', '<a>t</a>', '<a>t<b><c/>x</b><d/>u</a>', '<a><b><c><d><e/></d></c></b></a>',
            '<a>' + '<b/>' * 300 + '</a>', '<a>' * 400 + '</a>' * 400,
            '<a><b/>t<b>u<c/>v<c/></b><b/></a>', '<a xmlns:p="u" p:x="1"><p:b y="2"/>t</a>']


def desc_documents(rng, n: int):
    docs = list(DESC_DOCS)

    def gen(d):
        k = rng.randint(0, 4) if d > 0 else 0
        body = ''.join(rng.choice(['t', '', '', ' ']) + gen(d - 1) for _ in range(k)) + rng.choice(['', 'z'])
        nm = f'e{rng.randint(0, 3)}'
        return f'<{nm}>{body}</{nm}>'
    docs += [gen(rng.randint(1, 6)) for _ in range(n)]
    return docs


def desc_build(case):
    """the element node the loop is called on, rebuilt from the (replayable) case"""
    import xml.etree.ElementTree as ET
    from elementpath import get_node_tree
    from elementpath.xpath_nodes import ElementNode, TextNode
    xml = case['xml'] if 'xml' in case else DESC_DOCS[case['doc_no']]
    if case['lib'] == 'lxml':
        import lxml.etree as LX
        root = get_node_tree(LX.fromstring(xml.replace('<b/>', '<b/><!--c--><?pi x?>', 2)))
    else:
        root = get_node_tree(ET.fromstring(xml))
    if not isinstance(root, ElementNode):
        root = next(c for c in root.children if isinstance(c, ElementNode))
    elems, work = [root], [root]
    while work:
        for c in work.pop().children:
            if isinstance(c, ElementNode):
                elems.append(c)
                work.append(c)
    if case['mut'] != 'none':
        e = elems[case['ei'] % len(elems)]
        if case['mut'] == 'empty':
            e.children = []
        elif case['mut'] == 'text':
            e.children.insert(case['pos'] % (len(e.children) + 1), TextNode('adv'))
        else:
            e.children.reverse()
    return elems[case['ti'] % len(elems)]


def desc_cases(rng, n: int):
    """element nodes of ElementTree- and lxml-built node trees (text, comments, PIs), then trees whose
    `children` lists were edited by hand (emptied, a parentless text node put in, order reversed); a case is
    (document, library, edited element, position, element the loop is called on): replayable"""
    try:
        import lxml.etree as LX   # noqa
    except ImportError:   # pragma: no cover
        LX = None
    out = []
    for i, xml in enumerate(desc_documents(rng, n)):
        nel = xml.count('<') - xml.count('</')
        doc = {'doc_no': i} if i < len(DESC_DOCS) and len(xml) > 300 else {'xml': xml}
        for lib in ('et', 'lxml'):
            if lib == 'lxml' and (LX is None or len(xml) > 1500):
                continue
            for mut in ('none', 'empty', 'text', 'rev'):
                ei, pos = rng.randrange(nel), rng.randrange(8)
                tis = range(nel) if nel <= 12 else [0] + rng.sample(range(nel), 8)
                for ti in tis:
                    out.append(dict({'kind': 'loop:desc', 'lib': lib, 'mut': mut, 'ei': ei, 'pos': pos, 'ti': ti}, **doc))
    return out


def desc_impl(node, index) -> str:
    return guarded(lambda: ids([index[id(x)] for x in node.iter_descendants(with_self=False)]))


# ------------------------------------------------------------------------------------ walk (parent walks)
WALK_DOCS = ['<a/>', '<a x="1">t<b y="2"><c/>x</b><d z="3"/>u</a>', '<a><b><c><d><e>t</e></d></c></b></a>',
             '<a>' * 300 + 't' + '</a>' * 300,
             '<a xml:lang="la"><b><c xml:lang="lb"><d/>t</c><e xml:lang="lc"/></b><f/></a>',
             '<a><b xml:lang="la" k="1"><c><d xml:lang="lb"/></c></b><b><c/></b>t</a>',
             '<a><b/><b><c xml:lang="la"/><c/></b><b xml:lang="lb"><c>t</c></b></a>']


def walk_docs(rng, n: int):
    docs = list(WALK_DOCS)

    def gen(d, langs):
        k = rng.randint(0, 3) if d > 0 else 0
        at = ''
        if rng.random() < 0.3:
            at += f' xml:lang="l{chr(97 + len(langs))}"'
            langs.append(1)
        if rng.random() < 0.3:
            at += ' k="v"'
        body = ''.join(rng.choice(['t', '', '']) + gen(d - 1, langs) for _ in range(k))
        return f'<e{at}>{body}</e>'
    docs += [gen(rng.randint(1, 5), []) for _ in range(n)]
    return docs


def number_tree(top):
    """document-order numbering by the harness' own walk: node, its attributes, its children"""
    from elementpath.xpath_nodes import ElementNode, DocumentNode
    nodes, index, stack = [], {}, [top]
    while stack:
        nd = stack.pop()
        index[id(nd)] = len(nodes)
        nodes.append(nd)
        if isinstance(nd, ElementNode):
            stack.extend(reversed(list(nd.attributes) + list(nd.children)))
        elif isinstance(nd, DocumentNode):
            stack.extend(reversed(list(nd.children)))
    return nodes, index


def subtree(nd, with_self=True):
    """non-attribute nodes of the subtree in document order (recursion-free, by `.children`)"""
    out, stack = [], [nd]
    while stack:
        x = stack.pop()
        out.append(x)
        stack.extend(reversed(list(getattr(x, 'children', None) or [])))
    return out if with_self else out[1:]


def walk_build(case):
    """rebuilds tree, context and numbering from the (replayable) case; returns (ctx, nodes, index, store)"""
    import xml.etree.ElementTree as ET
    from elementpath import XPathContext
    from elementpath.namespaces import XML_LANG
    from elementpath.xpath_nodes import EtreeElementNode
    xml = case['xml'] if 'xml' in case else WALK_DOCS[case['doc_no']]
    elem = ET.fromstring(xml)
    if case['mode'] == 'document':
        ctx = XPathContext(root=ET.ElementTree(elem))
    elif case['mode'] == 'fragment':
        ctx = XPathContext(root=elem, fragment=True)
    else:
        ctx = XPathContext(root=elem)
    nodes, index = number_tree(ctx.root)
    if case.get('root') is not None:       # adversarial: the context root moved inside the tree
        ctx.root = nodes[case['root'] % len(nodes)]
        if getattr(ctx.root, 'children', None) is None:      # a context root is a document or an element
            ctx.root = ctx.root.parent
    if case.get('nodoc'):
        ctx.document = None
    ctx.item = nodes[case['item'] % len(nodes)]
    ents = []
    for nd in nodes:
        e = isinstance(nd, EtreeElementNode)
        ents.append(f"{index[id(nd.parent)] if nd.parent is not None else '-'}:{int(e)}{int(e and XML_LANG in nd.value.attrib)}")
    return ctx, nodes, index, ','.join(ents)


_LANG_TOKENS = {}


def lang_token(ver, value):
    from elementpath import XPath1Parser, XPath2Parser
    if (ver, value) not in _LANG_TOKENS:
        _LANG_TOKENS[ver, value] = (XPath1Parser if ver == 1 else XPath2Parser)().parse(f"lang('{value}')")
    return _LANG_TOKENS[ver, value]


def walk_eval(case):
    """(driver line, live outcome, function model-answer -> expected live outcome)"""
    from elementpath.namespaces import XML_LANG
    from elementpath.xpath_nodes import AttributeNode, ElementNode, EtreeElementNode
    ctx, nodes, index, store = walk_build(case)
    op, item = case['op'], ctx.item
    head = f"W k=walk op={op.split(':')[0].split('-')[0]} s={store} root={index[id(ctx.root)]} doc={int(ctx.document is not None)}"
    if op in ('anc', 'anc-self'):
        axis = 'ancestor-or-self' if op == 'anc-self' else None
        impl = guarded(lambda: ids([index[id(x)] for x in ctx.iter_ancestors(axis)]))
        return f"{head} item={index[id(item)]} self={int(op == 'anc-self')}", impl, (lambda m: m)
    if op == 'prec':
        if item.parent is None or not (ctx.document is not None or item is not ctx.root):
            return None
        impl = guarded(lambda: ids([index[id(x)] for x in ctx.iter_preceding()]))

        def want(m):
            top, anc = m[2:].split(';')
            anc = set() if anc == '_' else {int(x) for x in anc.split('.')}
            stop = item.parent if isinstance(item, AttributeNode) else item
            out = []
            for x in subtree(nodes[int(top)]):
                if x is stop:
                    break
                if index[id(x)] not in anc:
                    out.append(index[id(x)])
            return 'v:' + ids(out)
        return f"{head} item={index[id(item.parent)]} self=0", impl, want
    if op == 'foll':
        if isinstance(item, AttributeNode) or not hasattr(item, 'position') or item is nodes[0] and not isinstance(item, ElementNode):
            return None
        impl = guarded(lambda: ids([index[id(x)] for x in ctx.iter_followings()]))

        def want(m):
            desc = {id(x) for x in subtree(item)} if isinstance(item, ElementNode) else set()
            return 'v:' + ids([index[id(x)] for x in subtree(nodes[int(m[2:])], with_self=False)
                               if item.position < x.position and id(x) not in desc])
        return f"{head} item={index[id(item)]} self=0", impl, want
    # lang:1 / lang:2 — the live bool for every xml:lang value of the document identifies the node that was found
    if not isinstance(item, EtreeElementNode):
        return None
    ver = int(op[-1])
    langs = {nd.value.attrib[XML_LANG]: index[id(nd)] for nd in nodes
             if isinstance(nd, EtreeElementNode) and XML_LANG in nd.value.attrib}

    def live():
        hits = [str(k) for v, k in sorted(langs.items()) if lang_token(ver, v).evaluate(ctx) is True]
        return '+'.join(hits) if hits else '-'
    return f"{head} item={index[id(item)]} self=0", guarded(live), (lambda m: m)


def walk_cases(rng, n: int):
    out = []
    for doc_no, xml in enumerate(walk_docs(rng, n)):
        base = {'kind': 'loop:walk'}
        base.update({'doc_no': doc_no} if doc_no < len(WALK_DOCS) and len(xml) > 300 else {'xml': xml})
        size = xml.count('<') // 2 + xml.count('="') + 4
        for mode in ('document', 'element', 'fragment'):
            for op in ('anc', 'anc-self', 'prec', 'foll', 'lang:1', 'lang:2'):
                items = set(range(min(size, 8))) | {rng.randrange(size * 2) for _ in range(4)} | {size * 2 - 1}
                for it in sorted(items):
                    out.append(dict(base, mode=mode, op=op, item=it, cls='plain'))
                if not op.startswith('lang'):
                    for _ in range(4):      # context root moved inside the tree, with and without a document
                        out.append(dict(base, mode=mode, op=op, item=rng.randrange(size * 2), root=rng.randrange(size * 2),
                                        nodoc=rng.random() < 0.6, cls='adv'))
    return out


def walk_run(run, cases):
    """evaluates the cases live, asks the driver, returns [(case, impl, model, want, wf)]"""
    lines, keep = [], []
    for c in cases:
        r = walk_eval(c)
        if r is not None:
            lines.append(r[0])
            keep.append((c, r[1], r[2]))
    out = []
    for (c, impl, want), ans in zip(keep, run.driver('C03', lines)):
        fs = dict(kv.split('=', 1) for kv in ans.split(' ')) if ans.startswith('model=') else {}
        m = fs.get('model', 'driver:' + ans)
        out.append((c, impl, m, want(m) if m.startswith('v:') else m, fs.get('spec'), fs.get('wf')))
    return out


# ------------------------------------------------------------------------------------ correspondence
SITES = {'loop:alpha': 'xpath30_helpers.int_to_alphabetic', 'loop:args': 'xpath_tokens.base.get_argument_tokens',
         'loop:desc': 'xpath_nodes.ElementNode.iter_descendants',
         'anc': 'xpath_context.iter_ancestors', 'anc-self': 'xpath_context.iter_ancestors',
         'prec': 'xpath_context.iter_preceding', 'foll': 'xpath_context.iter_followings',
         'lang:1': 'xpath1._xpath1_functions.evaluate__lang', 'lang:2': 'xpath2._xpath2_functions.evaluate__lang'}


def loop_eval(driver, cases):
    """runs the cases live and through the driver; returns one dict per evaluated case:
    case, impl, model, want (what the live code must give according to model + spec), what ('' = agreement)"""
    lines, rows = [], []
    for c in cases:
        kind = c['kind']
        if kind == 'loop:alpha':
            line, impl, post = f"W k=alpha a={enc(c['alphabet'])} n={c['num']}", alpha_impl(c), None
        elif kind == 'loop:args':
            tk = args_build(c)
            entries, index = ser_token(tk)
            line, impl, post = 'W k=args t=' + ','.join(entries), args_impl(tk, index), None
        elif kind == 'loop:desc':
            nd = desc_build(c)
            entries, index = ser_forest(list(nd.children))
            line, impl, post = f'W k=desc n={len(nd.children)} t=' + ','.join(entries), desc_impl(nd, index), None
        else:
            r = walk_eval(c)
            if r is None:
                continue
            line, impl, post = r
        lines.append(line)
        rows.append({'case': c, 'impl': impl, 'post': post})
    for row, ans in zip(rows, driver('C03', lines)):
        c, impl, kind = row['case'], row['impl'], row['case']['kind']
        row['site'] = SITES[c['op'] if kind == 'loop:walk' else kind]
        if not ans.startswith('model='):
            row.update(model='driver:' + ans, want=None, what='protocol')
            continue
        fs = dict(kv.split('=', 1) for kv in ans.split(' '))
        model, spec, what = fs['model'], fs['spec'], ''
        if kind == 'loop:alpha':
            a = c['alphabet']
            want = 'x:ZeroDivisionError' if not a and c['num'] != 0 else model
            # spec: the digit string denotes |num| in bijective base len(alphabet) (alphabets without repeats or '-')
            exact = len(set(a)) == len(a) and '-' not in a and a and c['num'] != 0
            if model.startswith('v:') and exact and spec != str(abs(c['num'])):
                what = 'loop-alpha-spec'
        elif kind == 'loop:walk':
            want = row['post'](model) if model.startswith('v:') else model
            if fs.get('wf') != '1' or not model.startswith('v:') or spec == 'bad':
                # live numbering not well-founded, fuel exhausted, or the chain checker refuses the model
                what, want = 'loop-walk-theorem', f"wf={fs.get('wf')} spec={spec}"
        else:
            want = spec
        if not what and (model == 'fuel' or (kind != 'loop:walk' and model != want)):
            what = kind.replace(':', '-') + '-theorem'
        elif not what and impl != want:
            what = kind.replace(':', '-')
        row.update(model=model, want=want, what=what)
    return rows


def to_disagreement(row) -> Disagreement:
    c = row['case']
    spec = None if c['kind'] == 'loop:alpha' and not c['alphabet'] else row['want']
    if row['what'].endswith('-theorem'):
        return Disagreement(c, row['model'], row['model'], row['want'], what=row['what'], site=row['site'])
    return Disagreement(c, row['impl'], row['model'], spec, what=row['what'], site=row['site'])


def correspond_loops(run, n: int) -> None:
    st = run.stats
    acases, live = alpha_cases(run.rng, n)
    for tag, a in live:
        if not a:       # int_to_alphabetic_total: an empty live alphabet is the ZeroDivisionError escape
            run.disagree(Disagreement({'kind': 'loop:alpha', 'alphabet-table': tag}, 'empty', None, 'non-empty',
                                      what='loop-alpha', site='xpath30_helpers.int_to_alphabetic'))
    cases = (acases + args_cases(run.rng, max(8, n // 8)) + desc_cases(run.rng, max(8, n // 8)) +
             walk_cases(run.rng, max(6, n // 10)))
    for row in loop_eval(run.driver, cases):
        c, impl, kind = row['case'], row['impl'], row['case']['kind']
        st.case(c)
        st.count(f'{kind}:calls')
        out = impl.split(':')[0] if impl[:2] != 'x:' else impl
        if kind == 'loop:walk':
            st.count(f"{kind}:{c['op']}:{c['cls']}:{out}")
        else:
            st.count(f"{kind}:{c.get('cls') or c.get('mut')}:{out}")
            size = len(impl.split('.'))
            st.count(f"{kind}:digits:{min(size, 50) // 10 * 10}+" if kind == 'loop:alpha' else
                     f"{kind}:size:{min(size, 400) // 50 * 50}+")
        if row['what']:
            run.disagree(to_disagreement(row))


def replay_loop(run, case) -> int:
    row = loop_eval(run.driver, [case])
    if not row:
        print('the case does not reach the loop')
        return 0
    print({k: str(v)[:300] for k, v in row[0].items() if k not in ('post', 'case')})
    return 1 if row[0]['what'] else 0


def shrink_loop(driver, d: Disagreement) -> Disagreement:
    """smaller case of the same kind that still disagrees: small numbers (alpha), the first token / element /
    item of the same tree (args, desc, walk) — one driver call for all candidates"""
    c = d.case
    if c['kind'] == 'loop:alpha':
        b = max(len(c['alphabet']), 1)
        nums = sorted({s * x for s in (1, -1) for x in (1, 2, b - 1, b, b + 1, b * b, b * b + b + 1, b ** 3 + 1) if x},
                      key=abs)
        cands = [dict(c, num=x) for x in nums if abs(x) < abs(c['num'])]
    elif c['kind'] in ('loop:args', 'loop:desc'):
        cands = [dict(c, ti=t) for t in range(min(c['ti'], 40))]
    else:
        cands = [dict(c, item=t) for t in range(min(c['item'], 40))]
    try:
        for row in loop_eval(driver, cands):
            if row['what'] == d.what:
                return to_disagreement(row)
    except Exception:   # noqa  (shrinking is a convenience)
        pass
    return d
